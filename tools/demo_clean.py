#!/usr/bin/env python3
"""Run every kept demo (seeded/*/demo*) against /repo's current tree: each must exit 0 there (the seeded change, not the
unchanged library, is what makes it fail).  Used after a `fix:` commit moved the base of the kept patches.  usage: demo_clean.py [substr]"""
import pathlib, subprocess, sys
from concurrent.futures import ThreadPoolExecutor
ROOT = pathlib.Path(__file__).resolve().parent.parent
sub = sys.argv[1] if len(sys.argv) > 1 else ""


def one(d):
    dm = sorted(x for x in d.iterdir() if x.name.startswith("demo") and x.suffix == ".py")
    if not dm:
        return d.name, None, ""
    r = subprocess.run(["timeout", "-s", "KILL", "180", "/venv/bin/python", str(dm[0])], cwd="/tmp", capture_output=True, text=True,
                       env={"PYTHONPATH": "/repo/src", "PATH": "/usr/bin:/bin", "HOME": "/tmp"})
    return d.name, r.returncode, (r.stdout + r.stderr)[-300:]


ds = [d for d in sorted((ROOT / "seeded").iterdir()) if d.is_dir() and sub in d.name]
bad = 0
with ThreadPoolExecutor(12) as ex:
    for name, code, tail in ex.map(one, ds):
        if code != 0:
            bad += 1
            print("NOT CLEAN" if code is not None else "NO DEMO", name, code, tail.replace("\n", " | ")[-250:])
print(len(ds), "demos,", bad, "not exiting 0 on the unchanged tree")
sys.exit(1 if bad else 0)
