#!/usr/bin/env python3
"""Differential validation of the CFG builder against CPython (tool for the analyser itself; not a MANIFEST check).

Random small async functions are generated from the statement kinds the repository uses (try/except/else/finally,
with suppress(...), for/while with break/continue, if, return, raise, await).  Every observable step is a call
`m(<id>)` / `await a(<id>)` of a user-supplied callable, so the analyser treats it as user code that may raise.
Each function is (1) executed concretely under many fault plans - which marker raises which exception at which
execution, which condition is true - recording the trace of markers and the outcome, and (2) analysed; the
concrete trace must be a path of the CFG: same marker sequence, each marker left by a normal edge when it returned
and by an exceptional/cancellation edge when it raised, ending in the matching exit.  A concrete trace that the CFG
cannot reproduce is a soundness bug of the builder.
"""
import ast, asyncio, itertools, os, random, shutil, sys, tempfile, textwrap
sys.path.insert(0, os.path.dirname(os.path.dirname(os.path.abspath(__file__))))
from asyncio import CancelledError
from contextlib import suppress

from tpsa.cfg import Analyzer, NORMAL_KINDS
from tpsa.model import Program

EXCS = ["KeyError", "ValueError", "CancelledError"]


class Gen:
    def __init__(self, rnd):
        self.r = rnd
        self.n = 0

    def marker(self):
        self.n += 1
        return f"await a({self.n})" if self.r.random() < 0.4 else f"m({self.n})"

    def cond(self):
        self.n += 1
        return f"c({self.n})"

    def block(self, depth, in_loop):
        k = self.r.randint(1, 3)
        return [s for _ in range(k) for s in self.stmt(depth, in_loop)]

    def stmt(self, depth, in_loop):
        r = self.r.random()
        if depth <= 0 or r < 0.35:
            return [self.marker()]
        if r < 0.55:
            body = self.block(depth - 1, in_loop)
            out = ["try:"] + ind(body)
            hs = self.r.randint(0, 2)
            for _ in range(hs):
                t = self.r.choice(["KeyError", "ValueError", "CancelledError", "Exception", "(KeyError, ValueError)", "BaseException"])
                hb = self.block(depth - 1, in_loop)
                if self.r.random() < 0.2:
                    hb.append("raise")
                out += [f"except {t}:"] + ind(hb)
            if hs and self.r.random() < 0.3:
                out += ["else:"] + ind(self.block(depth - 1, in_loop))
            if hs == 0 or self.r.random() < 0.5:
                out += ["finally:"] + ind(self.block(depth - 1, False))
            return out
        if r < 0.65:
            t = self.r.choice(["KeyError", "CancelledError", "Exception", "KeyError, ValueError"])
            return [f"with suppress({t}):"] + ind(self.block(depth - 1, in_loop))
        if r < 0.78:
            return [f"if {self.cond()}:"] + ind(self.block(depth - 1, in_loop)) + (["else:"] + ind(self.block(depth - 1, in_loop)) if self.r.random() < 0.5 else [])
        if r < 0.88:
            return ["for _i in range(2):"] + ind(self.block(depth - 1, True))
        if r < 0.93 and in_loop:
            return [self.r.choice(["break", "continue"])]
        if r < 0.97:
            return ["return " + self.r.choice(["None", "1"])]
        return [f"raise {self.r.choice(['KeyError', 'ValueError'])}()"]


def ind(lines):
    return ["    " + l for l in lines]


def make_function(rnd, idx):
    g = Gen(rnd)
    body = g.block(3, False)
    src = f"async def f{idx}(m, a, c):\n" + "\n".join(ind(body)) + "\n"
    return src, g.n


class Stop(Exception):
    pass


def run_concrete(fn, plan, cond_plan, limit=60):
    trace = []
    counts = {}

    def fault(i):
        counts[i] = counts.get(i, 0) + 1
        e = plan.get((i, counts[i]))
        return e

    def m(i):
        if len(trace) > limit:
            raise Stop()
        e = fault(i)
        trace.append((i, e))
        if e:
            raise {"KeyError": KeyError, "ValueError": ValueError, "CancelledError": CancelledError}[e]()

    async def a(i):
        m(i)

    def c(i):
        counts[("c", i)] = counts.get(("c", i), 0) + 1
        return cond_plan.get((i, counts[("c", i)]), False)

    try:
        asyncio.run(fn(m, a, c))
        return trace, ("ret", None)
    except Stop:
        return None, None
    except KeyError:
        return trace, ("exc", "KeyError")
    except ValueError:
        return trace, ("exc", "ValueError")
    except CancelledError:
        return trace, ("exc", "CancelledError")


def marker_id(node):
    n = node.ast
    call = n.value if isinstance(n, ast.Await) else n
    if isinstance(call, ast.Call) and isinstance(call.func, ast.Name) and call.func.id in ("m", "a") and call.args and isinstance(call.args[0], ast.Constant):
        return call.func.id, call.args[0].value
    return None


def cfg_accepts(g, trace, outcome):
    """NFA simulation: is there a CFG path reproducing the trace?"""
    def is_marker(n):
        mk = marker_id(n)
        if mk is None:
            return None
        # `m(i)` is observed at its call step; `await a(i)` at the await step (the call step only creates the coroutine)
        if mk[0] == "m" and n.op == "call":
            return mk[1]
        if mk[0] == "a" and n.op == "await":
            return mk[1]
        return None

    def closure(nodes):
        seen, stack = set(), list(nodes)
        while stack:
            n = stack.pop()
            if n in seen:
                continue
            seen.add(n)
            if is_marker(n) is not None:
                continue  # stop at markers
            if n.op in ("exit", "raise_exit"):
                continue
            for s, lab in n.succ:
                # silent steps: non-marker nodes can only be left by normal edges (they do not raise in the concrete run)
                if lab[0] in NORMAL_KINDS or n.op in ("raise", "reraise"):
                    stack.append(s)
        return seen

    cur = closure([g.entry])
    for (i, e) in trace:
        nxt = set()
        for n in cur:
            if is_marker(n) != i:
                continue
            for s, lab in n.succ:
                if e is None and lab[0] in NORMAL_KINDS:
                    nxt.add(s)
                elif e is not None and lab[0] in ("x", "c"):
                    tok = lab[1][0].rpartition(".")[2]
                    exact = lab[1][1]
                    import builtins
                    ecls = CancelledError if e == "CancelledError" else getattr(builtins, e)
                    tcls = CancelledError if tok == "CancelledError" else getattr(builtins, tok, None)
                    if tcls is not None and (ecls is tcls if exact else issubclass(ecls, tcls)):
                        nxt.add(("E", s, e))
        # resolve exceptional targets: the raised class must be acceptable for the handler reached
        resolved = set()
        for x in nxt:
            if isinstance(x, tuple):
                _, s, e = x
                resolved.add(s)
            else:
                resolved.add(x)
        cur = closure(resolved)
        if not cur:
            return False
    if outcome[0] == "ret":
        return any(n.op == "exit" for n in cur)
    return any(n.op == "raise_exit" and (n.tok[0].rpartition(".")[2] == outcome[1] or (not n.tok[1] and n.tok[0].rpartition(".")[2] in ("Exception", "BaseException"))) for n in cur)


def main():
    seed = int(sys.argv[1]) if len(sys.argv) > 1 else 0
    nfun = int(sys.argv[2]) if len(sys.argv) > 2 else 300
    rnd = random.Random(seed)
    tmp = tempfile.mkdtemp(prefix="tpsa-cfgfuzz-")
    pkg = os.path.join(tmp, "src", "asyncio_taskpool")
    os.makedirs(pkg)
    funcs = []
    src = "from asyncio import CancelledError\nfrom contextlib import suppress\n\n"
    for i in range(nfun):
        s, n = make_function(rnd, i)
        try:
            compile(s, "x", "exec")
        except SyntaxError:
            continue
        funcs.append((i, n, s))
        src += s + "\n"
    open(os.path.join(pkg, "fuzz.py"), "w").write(src)
    open(os.path.join(pkg, "__init__.py"), "w").write("")
    ns = {}
    exec(compile(src, "fuzz", "exec"), ns)
    prog = Program(tmp)
    an = Analyzer(prog)
    bad = checked = 0
    for i, n, s in funcs:
        f = prog.func(f"fuzz.f{i}")
        g = an.cfg(f)
        fn = ns[f"f{i}"]
        plans = [({}, {})]
        ids = list(range(1, n + 1))
        import re
        awaited = {int(x) for x in re.findall(r"await a\((\d+)\)", s)}
        for _ in range(40):
            plan, cplan = {}, {}
            for _k in range(rnd.randint(0, 3) if ids else 0):
                mid = rnd.choice(ids)
                # a cancellation is delivered only at a suspension step; a plain call raises ordinary exceptions
                plan[(mid, rnd.randint(1, 2))] = rnd.choice(EXCS if mid in awaited else EXCS[:2])
            for j in ids:
                for k in (1, 2, 3):
                    if rnd.random() < 0.5:
                        cplan[(j, k)] = True
            plans.append((plan, cplan))
        for plan, cplan in plans:
            trace, outcome = run_concrete(fn, plan, cplan)
            if trace is None:
                continue
            checked += 1
            if not cfg_accepts(g, trace, outcome):
                bad += 1
                if bad <= 5:
                    print("MISMATCH\n" + s + f"plan={plan} conds={ {k: v for k, v in cplan.items() if v} }\ntrace={trace} outcome={outcome}\n" + g.dump()[:3000])
    shutil.rmtree(tmp, ignore_errors=True)
    print(f"functions {len(funcs)} concrete runs checked {checked} not reproducible by the CFG {bad}")
    return 1 if bad else 0


if __name__ == "__main__":
    sys.exit(main())
