#!/usr/bin/env python3
"""Re-base the kept patches (seeded/*/patch.diff, preserving/*/patch.diff) onto /repo's current HEAD after a `fix:` commit.
A patch that applies as it stands is left alone; otherwise a three-way apply (the patch records its base blobs, which the
repository still has) is tried and, when it merges cleanly, the patch is rewritten as the diff against the new HEAD.
Anything else is listed for manual re-basing."""
import pathlib, subprocess, sys, tempfile, shutil

ROOT = pathlib.Path(__file__).resolve().parent.parent
todo = []
for kind in ("seeded", "preserving"):
    for d in sorted((ROOT / kind).iterdir()):
        p = d / "patch.diff"
        if not p.exists():
            continue
        wt = tempfile.mkdtemp(prefix="rb-", dir="/tmp")
        shutil.rmtree(wt)
        subprocess.run(["git", "-C", "/repo", "worktree", "add", "-q", "--detach", wt, "HEAD"], check=True, capture_output=True)
        try:
            r = subprocess.run(["git", "-C", wt, "apply", "--check", str(p)], capture_output=True, text=True)
            if r.returncode == 0:
                continue
            r = subprocess.run(["git", "-C", wt, "apply", "--3way", str(p)], capture_output=True, text=True)
            st = subprocess.run(["git", "-C", wt, "diff", "--name-only", "--diff-filter=U"], capture_output=True, text=True).stdout.strip()
            if r.returncode == 0 and not st:
                new = subprocess.run(["git", "-C", wt, "diff", "HEAD"], capture_output=True, text=True).stdout
                p.write_text(new)
                print("rebased", kind, d.name)
            else:
                print("CONFLICT", kind, d.name, st)
                todo.append(str(d))
        finally:
            subprocess.run(["git", "-C", "/repo", "worktree", "remove", "--force", wt], capture_output=True)
print(len(todo), "left for manual re-basing")
