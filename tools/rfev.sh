#!/bin/sh
# usage: rfev.sh <n>   (evaluates /tmp/wt-rf<n> as preserving/rf<n>, prints alarms, removes the worktree)
cd /verif
python3 tools/refactor_eval.py rf$1 /tmp/wt-rf$1 2>/dev/null | python3 -c "
import json,sys
r=json.load(sys.stdin); print('rf$1', r.get('suite'))
for p,v in r.get('alarms',{}).items(): print('  ALARM',p,[x[:210] for x in v[:4]])
for p,v in r.get('inconclusive',{}).items(): print('  INC',p,[x[:150] for x in v[:2]])
print(r.get('error',''))"
git -C /repo worktree remove --force /tmp/wt-rf$1
