#!/usr/bin/env python3
"""Prints the prompt for a seeding sub-agent: property text only, plus its scratch worktree."""
import json, sys
pid, wt = sys.argv[1], sys.argv[2]
extra = sys.argv[3] if len(sys.argv) > 3 else ""
for l in open('/verif/properties.jsonl'):
    p = json.loads(l)
    if p['id'] == pid:
        break
print(f"""You are helping to evaluate a verification effort for the Python library asyncio-taskpool (pools of asyncio tasks with size limits, groups, map/starmap meta-tasks, cancellation, and a TCP/Unix control server).

You have your own scratch git worktree of the library at {wt} (source under {wt}/src/asyncio_taskpool, tests under {wt}/tests). Work ONLY inside {wt}; do not read or touch /repo or /verif or any other directory of the machine outside {wt} (other than running the Python interpreter).

Run the existing test-suite with:
  cd {wt} && PYTHONPATH={wt}/src /venv/bin/python -m pytest -q -p no:cacheprovider --timeout=900
(112 tests pass on the unchanged tree; PYTHONPATH is required so that the worktree's copy is imported, check with `PYTHONPATH={wt}/src /venv/bin/python -c "import asyncio_taskpool; print(asyncio_taskpool.__file__)"`.) There is no network.

Here is a behavioural property the library is supposed to satisfy:

  Title: {p['title']}
  Statement: {p['statement']}
  It must hold: {p['quantifier']['text']}

YOUR TASK: produce ONE realistic change to the library source (under {wt}/src/asyncio_taskpool) that BREAKS this property while the library still imports/compiles and ALL 112 existing tests still pass. Think of the kind of plausible regression a maintainer could introduce during a refactor, an optimisation or a "fix": keep the change small to medium and natural-looking.
IMPORTANT: prefer a change that needs something SPECIFIC to manifest - a particular interleaving of tasks, a cancellation or exception at a particular point, a multi-step sequence of operations, an unusual input, or two cooperating sites that each look fine alone - not one that ordinary use would expose at once. {extra}

Deliverables (all inside {wt}):
 1. The source change itself, left applied in the worktree (do not commit).
 2. {wt}/demo.py: a small stand-alone program (asyncio; run as `PYTHONPATH={wt}/src /venv/bin/python {wt}/demo.py`) that demonstrates the violation: it must exit with status 1 (printing what went wrong) WITH your change, and exit 0 on the unchanged library. Always wrap waits in timeouts (asyncio.wait_for) so it can never hang; it should finish within ~10 seconds.
 3. Verify yourself: (a) the test-suite passes with the change (112 passed); (b) demo.py exits 1 with the change; (c) save your change as a patch file (`git -C {wt} diff -- src > {wt}/change.patch`), undo it with `git -C {wt} apply -R {wt}/change.patch`, check that demo.py exits 0, then restore it with `git -C {wt} apply {wt}/change.patch`. Do NOT use `git stash` (the stash is shared with other worktrees of this repository).
 4. Finish by replying with: the unified diff of your change (`git -C {wt} diff -- src`), a 2-4 sentence explanation of why it breaks the property and what is needed for it to manifest, and the outputs of your three verification steps.

Note: the current tree may already contain known imperfections with respect to some properties (e.g. a task cancelled before it ever ran is not cleaned up; pool_size getter/setter are crude; the control-server argument parser cannot yet register pool classes because of string annotations). Do not rely on those; your change must introduce a NEW violation that your demo shows and that disappears when your change is reverted.""")
