#!/usr/bin/env python3
"""Systematic AST mutation sweep (search for blind spots; not a MANIFEST check).

For every mutant of the package source that still compiles: run the repository's test-suite on a scratch copy; for the
survivors (suite still green) run all twenty checks and record which of them report a violation.  Survivors that no check
reports are written to the output for manual triage (many are equivalent mutants, e.g. a deleted log line).
usage: [MUT_STRINGS=1] [MUT_BASE=rf102] mutation_sweep.py <out.json> [module-substring ...]
"""
import ast, concurrent.futures as cf, copy, json, os, shutil, subprocess, sys, tempfile
sys.path.insert(0, os.path.dirname(os.path.dirname(os.path.abspath(__file__))))

REPO = "/repo"
PROPS = [f"C{i:02d}" for i in range(1, 21)]
TARGETS = ["pool.py", "internals/helpers.py", "internals/group_register.py", "internals/constants.py", "exceptions.py", "queue_context.py", "control/session.py", "control/server.py", "control/parser.py"]


def is_log(st):
    return isinstance(st, ast.Expr) and isinstance(st.value, ast.Call) and isinstance(st.value.func, ast.Attribute) and isinstance(st.value.func.value, ast.Name) and st.value.func.value.id in ("log", "warnings")


def gen_mutants(rel, src):
    tree = ast.parse(src)
    muts = []  # (description, new source)

    def emit(desc, t):
        try:
            ast.fix_missing_locations(t)
            out = ast.unparse(t)
            compile(out, rel, "exec")
            muts.append((desc, out))
        except Exception:
            pass

    # index all nodes by a stable path
    nodes = list(ast.walk(tree))
    idx = {id(n): i for i, n in enumerate(nodes)}

    def clone_and_get(i):
        t = copy.deepcopy(tree)
        return t, list(ast.walk(t))[i]

    # strings that are messages (log calls, docstrings, exception texts, help=...) are not mutated
    skip_str = set()
    for n in nodes:
        if isinstance(n, ast.Expr) and isinstance(n.value, ast.Constant):
            skip_str.add(id(n.value))
        if isinstance(n, ast.Expr) and is_log(n):
            skip_str |= {id(x) for x in ast.walk(n)}
        if isinstance(n, ast.Raise):
            skip_str |= {id(x) for x in ast.walk(n)}
        if isinstance(n, ast.keyword) and n.arg in ("help", "description", "metavar", "title", "usage", "prog"):
            skip_str |= {id(x) for x in ast.walk(n.value)}
        if isinstance(n, ast.Call) and isinstance(n.func, ast.Attribute) and isinstance(n.func.value, ast.Name) and n.func.value.id in ("log", "warnings"):
            skip_str |= {id(x) for x in ast.walk(n)}
        if isinstance(n, (ast.Assign, ast.AnnAssign)) and any(isinstance(t_, ast.Name) and t_.id == "__all__" for t_ in (n.targets if isinstance(n, ast.Assign) else [n.target])):
            skip_str |= {id(x) for x in ast.walk(n)}
    for i, n in enumerate(nodes):
        if isinstance(n, ast.Constant) and isinstance(n.value, (str, bytes)) and id(n) not in skip_str and n.value and os.environ.get("MUT_STRINGS") == "1":
            t, m = clone_and_get(i)
            m.value = n.value + (b"x" if isinstance(n.value, bytes) else "x")
            emit(f"L{getattr(n, 'lineno', 0)} string {n.value!r:.30} -> +x", t)
        # statement lists
        for fld in ("body", "orelse", "finalbody"):
            body = getattr(n, fld, None)
            if not (isinstance(body, list) and body and isinstance(body[0], ast.stmt)) or isinstance(n, (ast.Module, ast.ClassDef)):
                continue
            for j, st in enumerate(body):
                if isinstance(st, ast.Expr) and isinstance(st.value, ast.Constant):
                    continue
                line = getattr(st, "lineno", 0)
                if isinstance(st, (ast.Expr, ast.Assign, ast.AugAssign, ast.AnnAssign, ast.Raise, ast.Continue, ast.Break, ast.Return, ast.Delete)) and not is_log(st):
                    t, m = clone_and_get(i)
                    b = getattr(m, fld)
                    if len(b) == 1:
                        b[j] = ast.Pass()
                    else:
                        del b[j]
                    emit(f"L{line} delete `{ast.unparse(st)[:60]}`", t)
                if j + 1 < len(body) and all(isinstance(x, (ast.Expr, ast.Assign, ast.AugAssign, ast.AnnAssign)) and not is_log(x) for x in (st, body[j + 1])) \
                        and not (isinstance(st, ast.Expr) and isinstance(st.value, ast.Constant)):
                    t, m = clone_and_get(i)
                    b = getattr(m, fld)
                    b[j], b[j + 1] = b[j + 1], b[j]
                    emit(f"L{line} swap with next statement `{ast.unparse(st)[:40]}` <-> `{ast.unparse(body[j+1])[:40]}`", t)
        line = getattr(n, "lineno", 0)
        if isinstance(n, ast.If) or isinstance(n, ast.While):
            t, m = clone_and_get(i)
            m.test = ast.UnaryOp(op=ast.Not(), operand=m.test)
            emit(f"L{line} negate condition `{ast.unparse(n.test)[:50]}`", t)
        if isinstance(n, ast.Await):
            t, m = clone_and_get(i)
            # replace the await node by its operand in the parent
            for p in ast.walk(t):
                for f2, v in ast.iter_fields(p):
                    if v is m:
                        setattr(p, f2, m.value)
                    elif isinstance(v, list):
                        for k, x in enumerate(v):
                            if x is m:
                                v[k] = m.value
            emit(f"L{line} drop await `{ast.unparse(n)[:50]}`", t)
        if isinstance(n, ast.Compare) and len(n.ops) == 1:
            swaps = {ast.Lt: ast.LtE, ast.LtE: ast.Lt, ast.Gt: ast.GtE, ast.GtE: ast.Gt, ast.Eq: ast.NotEq, ast.NotEq: ast.Eq, ast.Is: ast.IsNot, ast.IsNot: ast.Is, ast.In: ast.NotIn, ast.NotIn: ast.In}
            new = swaps.get(type(n.ops[0]))
            if new:
                t, m = clone_and_get(i)
                m.ops = [new()]
                emit(f"L{line} comparison `{ast.unparse(n)[:40]}` -> {new.__name__}", t)
        if isinstance(n, ast.Constant) and isinstance(n.value, bool):
            t, m = clone_and_get(i)
            m.value = not n.value
            emit(f"L{line} constant {n.value} -> {not n.value}", t)
        elif isinstance(n, ast.Constant) and isinstance(n.value, int) and n.value in (0, 1, 2):
            for nv in {n.value + 1, max(0, n.value - 1)} - {n.value}:
                t, m = clone_and_get(i)
                m.value = nv
                emit(f"L{line} constant {n.value} -> {nv}", t)
        if isinstance(n, ast.Continue):
            t, m = clone_and_get(i)
            for p in ast.walk(t):
                for f2, v in ast.iter_fields(p):
                    if isinstance(v, list):
                        for k, x in enumerate(v):
                            if x is m:
                                v[k] = ast.Break()
            emit(f"L{line} continue -> break", t)
        if isinstance(n, ast.Break):
            t, m = clone_and_get(i)
            for p in ast.walk(t):
                for f2, v in ast.iter_fields(p):
                    if isinstance(v, list):
                        for k, x in enumerate(v):
                            if x is m:
                                v[k] = ast.Continue()
            emit(f"L{line} break -> continue", t)
        if isinstance(n, ast.ExceptHandler) and n.type is not None and isinstance(n.type, ast.Name):
            for new in {"Exception", "BaseException", "CancelledError", "KeyError"} - {n.type.id}:
                if new == "CancelledError" and "CancelledError" not in src:
                    continue
                t, m = clone_and_get(i)
                m.type = ast.Name(id=new, ctx=ast.Load())
                emit(f"L{line} except {n.type.id} -> except {new}", t)
        if isinstance(n, ast.Try) and n.finalbody:
            t, m = clone_and_get(i)
            m.orelse = m.orelse + m.finalbody
            m.finalbody = []
            if not m.handlers:
                # try without handlers and finally is invalid: inline
                continue
            emit(f"L{line} finally -> else", t)
        if isinstance(n, ast.Call):
            for k, kw in enumerate(n.keywords):
                if kw.arg is not None:
                    t, m = clone_and_get(i)
                    del m.keywords[k]
                    emit(f"L{line} drop keyword {kw.arg}= in `{ast.unparse(n.func)[:40]}`", t)
            if len(n.args) >= 2 and not any(isinstance(a, ast.Starred) for a in n.args):
                t, m = clone_and_get(i)
                m.args[0], m.args[1] = m.args[1], m.args[0]
                emit(f"L{line} swap first two arguments of `{ast.unparse(n.func)[:40]}`", t)
    # dedupe
    seen, out = set(), []
    for d, s in muts:
        if s not in seen and s != ast.unparse(tree):
            seen.add(s)
            out.append((d, s))
    return out


def evaluate(job):
    rel, desc, newsrc, REPO = job
    tmp = tempfile.mkdtemp(prefix="tpsa-mut-")
    try:
        shutil.copytree(os.path.join(REPO, "src"), os.path.join(tmp, "src"), ignore=shutil.ignore_patterns("__pycache__", "*.egg-info"))
        shutil.copytree(os.path.join(REPO, "tests"), os.path.join(tmp, "tests"), ignore=shutil.ignore_patterns("__pycache__"))
        open(os.path.join(tmp, "src", "asyncio_taskpool", rel), "w").write(newsrc + "\n")
        p = subprocess.run("timeout -s KILL 120 /venv/bin/python -m pytest -q -x -p no:cacheprovider --timeout=60 2>&1 | tail -1", shell=True, cwd=tmp,
                           env=dict(os.environ, PYTHONPATH=os.path.join(tmp, "src")), capture_output=True, text=True)
        survived = "112 passed" in p.stdout
        res = {"file": rel, "mutation": desc, "suite": p.stdout.strip()[-60:], "survived": survived}
        if survived:
            from tpsa.cli import run_check
            hits, inc = {}, {}
            for pr in PROPS:
                reps = []
                c = run_check(pr, "quick", tmp, 0, write=False, rep_out=reps)
                if c == 1:
                    hits[pr] = [o.rule for o in reps[0].violations()][:3]
                elif c == 2:
                    inc[pr] = ([o.rule + " " + o.what[:50] for o in reps[0].inconclusive()] + reps[0].notes)[:2]
            res["reported_by"] = hits
            res["inconclusive"] = inc
        return res
    finally:
        shutil.rmtree(tmp, ignore_errors=True)


def main():
    global REPO
    out = sys.argv[1]
    sel = sys.argv[2:]
    # work from a private snapshot so that edits made to /repo meanwhile (seeded patches being evaluated) cannot leak in
    snap = tempfile.mkdtemp(prefix="tpsa-mutbase-")
    shutil.copytree(os.path.join(REPO, "src"), os.path.join(snap, "src"), ignore=shutil.ignore_patterns("__pycache__", "*.egg-info"))
    shutil.copytree(os.path.join(REPO, "tests"), os.path.join(snap, "tests"), ignore=shutil.ignore_patterns("__pycache__"))
    REPO = snap
    if os.environ.get("MUT_BASE"):
        # mutate a kept behaviour-preserving refactoring instead of the pinned tree (do the checks stay as strong on it?)
        patch = os.path.join(os.path.dirname(os.path.dirname(os.path.abspath(__file__))), "preserving", os.environ["MUT_BASE"], "patch.diff")
        subprocess.run(["git", "apply", patch], cwd=snap, check=True)
    jobs = []
    for rel in TARGETS:
        if sel and not any(s in rel for s in sel):
            continue
        src = open(os.path.join(REPO, "src", "asyncio_taskpool", rel)).read()
        for d, s in gen_mutants(rel, src):
            jobs.append((rel, d, s, REPO))
    print(len(jobs), "mutants", flush=True)
    results = []
    with cf.ProcessPoolExecutor(max_workers=16) as ex:
        for k, r in enumerate(ex.map(evaluate, jobs, chunksize=4)):
            results.append(r)
            if k % 100 == 0:
                print(k, flush=True)
    surv = [r for r in results if r["survived"]]
    silent = [r for r in surv if not r["reported_by"] and not r["inconclusive"]]
    json.dump({"mutants": len(results), "survivors": len(surv), "survivors_reported": len([r for r in surv if r["reported_by"]]),
               "survivors_inconclusive_only": len([r for r in surv if not r["reported_by"] and r["inconclusive"]]), "survivors_silent": silent,
               "all_survivors": surv}, open(out, "w"), indent=1)
    print(f"mutants {len(results)} survivors {len(surv)} reported {len([r for r in surv if r['reported_by']])} silent {len(silent)}")
    shutil.rmtree(snap, ignore_errors=True)

if __name__ == "__main__":
    main()
