#!/usr/bin/env python3
"""Debug helper: run checks (no evidence written) against a scratch tree = /repo HEAD + a saved patch.
usage: rf_dbg.py <preserving|seeded>/<name> [Cxx ...]   (tree kept under /tmp/rft/<name>; remove with --clean)"""
import json, os, shutil, subprocess, sys
VERIF = os.path.dirname(os.path.dirname(os.path.abspath(__file__)))
sys.path.insert(0, VERIF)


def tree_for(rel):
    d = os.path.join(VERIF, rel)
    t = os.path.join("/tmp/rft", rel.replace("/", "_"))
    if os.path.isdir(t):
        shutil.rmtree(t)
    os.makedirs(t)
    subprocess.run(f"git -C /repo archive HEAD src | tar -x -C {t}", shell=True, check=True)
    subprocess.run(["git", "init", "-q"], cwd=t, check=True)
    subprocess.run(["git", "apply", os.path.join(d, "patch.diff")], cwd=t, check=True)
    return t


def main():
    if sys.argv[1] == "--clean":
        shutil.rmtree("/tmp/rft", ignore_errors=True)
        return
    rel = sys.argv[1]
    props = sys.argv[2:] or [f"C{i:02d}" for i in range(1, 21)]
    t = tree_for(rel)
    from tpsa.cli import run_check
    for p in props:
        reps = []
        c = run_check(p, "quick", t, 0, write=False, rep_out=reps)
        r = reps[0]
        if c == 0:
            continue
        print(f"== {p} exit {c}")
        for o in r.violations():
            print(f"  V {o.rule} {o.func} :: {o.what[:110]} :: {o.construct[:90]}\n      {str(o.detail)[:300]}")
        for o in r.inconclusive():
            print(f"  I {o.rule} {o.what[:120]} :: {str(o.detail)[:200]}")
        for n in r.notes:
            print("  N", n[-600:])
    if not os.environ.get("KEEP"):
        shutil.rmtree(t, ignore_errors=True)
    else:
        print("kept", t)


if __name__ == "__main__":
    main()
