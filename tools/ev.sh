#!/bin/sh
# usage: ev.sh <seed id> <round prefix e.g. m4> <Cxx> "<needs>"   (evaluates, prints a summary, removes the worktree)
cd /verif
python3 tools/seed_eval.py "$1" "/tmp/wt-$2-$3" "$3" "$4" 2>&1 | python3 -c "
import json,sys
t=sys.stdin.read(); i=t.find('{'); m=json.loads(t[i:]); print(m['id'], 'confirmed' if m['confirmed'] else 'NOT CONFIRMED', 'caught_by', m['caught_by'], 'inc', sorted(m['inconclusive']))
for p,v in m['rules'].items(): print('   ',p,[x[:170] for x in v[:2]])
for p,v in m['inconclusive'].items(): print('   INC',p,[x[:170] for x in v[:2]])"
git -C /repo worktree remove --force /tmp/wt-$2-$3
