#!/usr/bin/env python3
"""Prints the prompt for a sub-agent that produces a behaviour-PRESERVING refactoring (false-alarm probe).
usage: refactor_prompt.py <worktree> "<region>" ["<style hint>"]"""
import sys
wt, region = sys.argv[1], sys.argv[2]
style = sys.argv[3] if len(sys.argv) > 3 else ""
print(f"""You are a maintainer of the Python library asyncio-taskpool (pools of asyncio tasks with size limits, groups, map/starmap meta-tasks, cancellation, and a TCP/Unix control server).

You have your own scratch git worktree of the library at {wt} (source under {wt}/src/asyncio_taskpool, tests under {wt}/tests). Work ONLY inside {wt}; do not read or touch /repo or /verif or any other directory of the machine outside {wt} (other than running the Python interpreter). There is no network.

Run the existing test-suite with:
  cd {wt} && PYTHONPATH={wt}/src /venv/bin/python -m pytest -q -p no:cacheprovider --timeout=900
(112 tests pass on the unchanged tree; PYTHONPATH is required so that the worktree's copy is imported.)

YOUR TASK: a clean-up / refactoring pull request for this region of the code base:

    {region}

that is STRICTLY BEHAVIOUR-PRESERVING. Make it look like a typical maintenance PR a reviewer would accept: several (say 5-12) independent small-to-medium transformations of the kinds maintainers really do - extracting a helper function or method, inlining one, renaming locals, introducing or removing an intermediate variable, inverting a guard / early return vs. nested if, replacing one idiom by an equivalent one (setdefault vs. membership test, f-string vs. format, comprehension vs. loop, try/except/else reshaping, pop-with-default vs. try/except KeyError where truly equivalent), hoisting constants, merging duplicated code, adding type annotations, comments, debug logging. {style}

Hard requirements:
 - Every observable behaviour stays exactly the same: results, exceptions (type, and which call raises), the ORDER of side effects, which steps can suspend (no await added, removed or moved relative to state changes), what happens when a task is cancelled at any await, callbacks, names, log messages that existed, public API and signatures, and names of existing methods/functions (tests patch many of them by name - keep them, and keep what they are called with).
 - All 112 tests pass unchanged (do not edit tests).
 - Do not change behaviour "for the better" and do not fix bugs you notice; if you see one, mention it in your report only.
 - Leave the change applied (uncommitted) in the worktree.

Finish by replying with: (1) the unified diff (`git -C {wt} diff -- src`), (2) a list of the transformations with one or two sentences each on why it preserves behaviour, (3) the test-suite output line.""")
