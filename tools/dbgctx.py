"""interactive helper: from tools.dbgctx import mk; ctx = mk('/repo')"""
import sys, os
sys.path.insert(0, os.path.dirname(os.path.dirname(os.path.abspath(__file__))))
from tpsa.model import Program
from tpsa.report import Report
from tpsa.rules.lib import Ctx


def mk(repo="/repo", prop="C00", tier="quick"):
    return Ctx(Program(repo), Report(prop, tier, 0), tier)
