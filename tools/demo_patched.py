#!/usr/bin/env python3
"""Run every kept demo against /repo's tree WITH its seeded change applied (scratch copy under /tmp, removed at once): each must
exit non-zero.  Companion of demo_clean.py.  usage: demo_patched.py [substr]"""
import pathlib, shutil, subprocess, sys, tempfile
from concurrent.futures import ThreadPoolExecutor
ROOT = pathlib.Path(__file__).resolve().parent.parent
sub = sys.argv[1] if len(sys.argv) > 1 else ""


def one(d):
    dm = sorted(x for x in d.iterdir() if x.name.startswith("demo") and x.suffix == ".py")
    if not dm or not (d / "patch.diff").exists():
        return d.name, None, ""
    t = tempfile.mkdtemp(prefix="dp-", dir="/tmp")
    try:
        subprocess.run(f"git -C /repo archive HEAD src | tar -x -C {t}", shell=True, check=True)
        subprocess.run(["git", "init", "-q"], cwd=t, check=True)
        a = subprocess.run(["git", "apply", str(d / "patch.diff")], cwd=t, capture_output=True, text=True)
        if a.returncode:
            return d.name, "apply", a.stderr[-200:]
        r = subprocess.run(["timeout", "-s", "KILL", "240", "/venv/bin/python", str(dm[0])], cwd=t, capture_output=True, text=True,
                           env={"PYTHONPATH": t + "/src", "PATH": "/usr/bin:/bin", "HOME": "/tmp"})
        return d.name, r.returncode, (r.stdout + r.stderr)[-300:]
    finally:
        shutil.rmtree(t, ignore_errors=True)


ds = [d for d in sorted((ROOT / "seeded").iterdir()) if d.is_dir() and sub in d.name]
bad = 0
with ThreadPoolExecutor(12) as ex:
    for name, code, tail in ex.map(one, ds):
        if code in (0, None, "apply"):
            bad += 1
            print("NOT FAILING", name, code, tail.replace("\n", " | ")[-250:])
print(len(ds), "demos,", bad, "not failing with their change applied")
sys.exit(1 if bad else 0)
