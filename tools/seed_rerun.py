#!/usr/bin/env python3
"""Re-run every quick check against every kept seeded change.

default:    each change is applied to its own scratch copy of /repo's HEAD (under /tmp/seedrun, removed afterwards) and the
            twenty checks run on that copy (`tpsa.cli.run_check(..., repo=<copy>)`), 14 changes in parallel;
--inplace:  the change is applied to /repo itself (git apply), the checks run there, and it is undone straight afterwards
            (git checkout -- .) - exactly what the registered commands see; sequential.
usage: seed_rerun.py [--inplace] [substring of seed id ...]"""
import json, os, shutil, subprocess, sys
from concurrent.futures import ProcessPoolExecutor

sys.path.insert(0, os.path.dirname(os.path.abspath(__file__)))
from seed_eval import run_checks, sh, VERIF

sys.path.insert(0, VERIF)
PROPS = [f"C{i:02d}" for i in range(1, 21)]


def checks_on(tree: str):
    from tpsa.cli import run_check
    out = {}
    for p in PROPS:
        reps = []
        c = run_check(p, "quick", tree, 0, write=False, rep_out=reps)
        r = reps[0]
        out[p] = {"code": c, "viol": [o.rule + " " + o.func + " :: " + o.what[:90] + " :: " + o.construct[:70] for o in r.violations()],
                  "inc": [o.rule + " " + o.what[:80] for o in r.inconclusive()] + r.notes}
    return out


def one(sid: str):
    d = os.path.join(VERIF, "seeded", sid)
    t = os.path.join("/tmp/seedrun", sid)
    shutil.rmtree(t, ignore_errors=True)
    os.makedirs(t)
    try:
        subprocess.run(f"git -C /repo archive HEAD src | tar -x -C {t}", shell=True, check=True)
        subprocess.run(["git", "init", "-q"], cwd=t, check=True)
        r = subprocess.run(["git", "apply", os.path.join(d, "patch.diff")], cwd=t, capture_output=True, text=True)
        if r.returncode != 0:
            return sid, None, r.stderr[:200]
        return sid, checks_on(t), ""
    finally:
        shutil.rmtree(t, ignore_errors=True)


def record(sid: str, res):
    mp = os.path.join(VERIF, "seeded", sid, "meta.json")
    meta = json.load(open(mp))
    caught = {p: r["viol"] for p, r in res.items() if r["code"] == 1}
    meta["caught_by"] = sorted(caught)
    meta["rules"] = {p: v[:4] for p, v in caught.items()}
    meta["inconclusive"] = {p: r["inc"][:3] for p, r in res.items() if r["code"] == 2}
    json.dump(meta, open(mp, "w"), indent=1)
    own = meta["property"] in caught
    return (sid, meta["property"], "CAUGHT" if own else ("caught-elsewhere" if caught else "MISSED"), ",".join(sorted(caught)), ",".join(sorted(meta["inconclusive"])))


def main():
    args = sys.argv[1:]
    inplace = "--inplace" in args
    only = [a for a in args if not a.startswith("--")]
    root = os.path.join(VERIF, "seeded")
    sids = [s for s in sorted(os.listdir(root)) if os.path.exists(os.path.join(root, s, "meta.json")) and (not only or any(o in s for o in only))]
    rows = []
    if inplace:
        for sid in sids:
            d = os.path.join(root, sid)
            _, st = sh("git -C /repo status --porcelain")
            assert not st.strip(), "/repo not clean"
            c, o = sh(f"git -C /repo apply {d}/patch.diff")
            if c != 0:
                print(sid, "PATCH DOES NOT APPLY", o[:200]); continue
            try:
                res = run_checks()
            finally:
                sh("git -C /repo checkout -- .")
            rows.append(record(sid, res))
    else:
        with ProcessPoolExecutor(max_workers=14) as ex:
            for sid, res, err in ex.map(one, sids):
                if res is None:
                    print(sid, "PATCH DOES NOT APPLY", err); continue
                rows.append(record(sid, res))
        shutil.rmtree("/tmp/seedrun", ignore_errors=True)
    for r in rows:
        print("%-45s %-4s %-16s by=%s inconclusive=%s" % r)


if __name__ == "__main__":
    main()
