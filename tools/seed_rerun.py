#!/usr/bin/env python3
"""Re-run every registered quick check against every kept seeded change (applied to /repo, undone straight afterwards)."""
import json, os, subprocess, sys
sys.path.insert(0, os.path.dirname(os.path.abspath(__file__)))
from seed_eval import run_checks, sh, VERIF

def main():
    only = sys.argv[1:]
    root = os.path.join(VERIF, "seeded")
    rows = []
    for sid in sorted(os.listdir(root)):
        if only and not any(o in sid for o in only):
            continue
        d = os.path.join(root, sid)
        mp = os.path.join(d, "meta.json")
        if not os.path.exists(mp):
            continue
        meta = json.load(open(mp))
        _, st = sh("git -C /repo status --porcelain")
        assert not st.strip(), "/repo not clean"
        c, o = sh(f"git -C /repo apply {d}/patch.diff")
        if c != 0:
            print(sid, "PATCH DOES NOT APPLY", o[:200]); continue
        try:
            res = run_checks()
        finally:
            sh("git -C /repo checkout -- .")
        caught = {p: r["viol"] for p, r in res.items() if r["code"] == 1}
        meta["caught_by"] = sorted(caught)
        meta["rules"] = {p: v[:4] for p, v in caught.items()}
        meta["inconclusive"] = {p: r["inc"][:3] for p, r in res.items() if r["code"] == 2}
        json.dump(meta, open(mp, "w"), indent=1)
        own = meta["property"] in caught
        rows.append((sid, meta["property"], "CAUGHT" if own else ("caught-elsewhere" if caught else "MISSED"), ",".join(sorted(caught)), ",".join(sorted(meta["inconclusive"]))))
    for r in rows:
        print("%-45s %-4s %-16s by=%s inconclusive=%s" % r)

if __name__ == "__main__":
    main()
