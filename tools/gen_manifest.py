#!/usr/bin/env python3
"""Regenerates /verif/MANIFEST.json from the table below (run after adding/removing a check)."""
import json
import os

HERE = os.path.dirname(os.path.dirname(os.path.abspath(__file__)))
PROPS = [json.loads(l)["id"] for l in open(os.path.join(HERE, "properties.jsonl"))]

TB = ("Trusted: CPython's ast and exception hierarchy; documented semantics of asyncio Semaphore/Lock/Event/Task/gather/Queue/start_server, "
      "contextlib.suppress, argparse, inspect.signature; the effect table and the may-raise table of the analyser (logging, len, str, f-strings do not raise); "
      "user code reaches the library only through calls of parameters / stored callables and iteration of a parameter. "
      "With every check: WHAT-RUNS (R00.D: no analysed function is replaced by a non-transparent decorator or re-bound) and NO-HIDDEN-STATE (R00.M: no analysed function keeps state in module-level containers). ")

CHECKS = {
    "C01": ("Decides the structural discipline that implies the bound: every pool-task creation is dominated by a completed slot acquire (all edge kinds), tasks are created only "
            "through _start_task, exactly one release per task on every normal/exception/cancellation path of the wrapper, nobody else writes the semaphore, registry move and "
            "release are one atomic segment (lemma L-LOCK checked each run); the limit installed is the value assigned, 0 included (LIMIT-IS-THE-ASSIGNED-VALUE). With asyncio.Semaphore trusted this implies #running <= size; the numeric bound itself is not computed; the setter never stores an unclamped difference into the free-room counter (a negative counter blocks nobody).",
            "dominance + who-may-call/write tables + ALL-EXITS path counting on a step-level CFG with exception and cancellation edges", "5 C01",
            TB + "Declined: the arithmetic bound and the idle-time equality is_full <=> running == size (follow from the discipline)."),
    "C02": ("HANDOFF rule (slot acquired by creator, released only in the new task's body: finding F1), life-cycle typestate over CFG x (registry, slot) on all edge kinds: every "
            "exit of the wrapper has slot=free, registry=ended; wrapper armed before any suspension; SNAPSHOT-FORGET on flush; registry who-may-write table; PUBLISHED-BEFORE-FIRST-STEP (the task is filed after create_task returned: finding F10 under an eager task factory); FORGET-ONLY-GATHERED shared; execute_optional awaits a callback's result on the iscoroutinefunction(function) branch and only there.",
            "typestate abstract interpretation over CFG x finite state with callee summaries; HANDOFF and SNAPSHOT-FORGET rules", "5 C02",
            TB + "Declined: 'eventually' (liveness) and end-of-run capacity counts. F1 and F10 are recorded known findings."),
    "C03": ("Life-cycle typestate with callback roles: at every suspension/user step the id is in exactly one registry; cancel callback begun exactly once iff the coroutine left by "
            "cancellation, while filed as cancelled, before the end callback; end callback exactly once while filed as ended, slot already released, with the task id; "
            "registry transition who-may table; callback role wiring through every hop; execute_optional awaits coroutine callbacks; a supplied callback is run whatever its truth value (only `is None` / callable() decide that none was given); WHAT(Task.cancel): every receiver is an entry of the running registry or a spawner, also when looked up through a combined view of registries; FORWARDED (a callback the request carries is passed on at every hop, never left at its default or hidden behind an opaque **); FORGET-ONLY-GATHERED with its premises (pool locked before the close first suspends, spawners waited for first) as the 'until the pool is closed' clause.",
            "typestate abstract interpretation (roles END/CANCEL/ID propagated through call bindings) + wiring + who-may tables", "5 C03",
            TB + "Declined: the counter identity as arithmetic (follows from the transition table). F1 and F10 shared."),
    "C04": ("Per-iteration typestate of _apply_spawner/_start_num (exactly one func(*args, **kwargs) per iteration, handed to exactly one completed _start_task, raising call skipped, "
            "loop left early only by cancellation), range(num) shape, UNREACHABLE-RAISE of PoolIsLocked from spawners by constant propagation of ignore_lock, one spawner task "
            "per accepted request, argument role wiring, no time-outs; SNAPSHOT-FRESH (copy clause: gather_and_close waits for the spawners the registry holds when the wait starts); EXTERNAL-PREDICATES (iscoroutine / iscoroutinefunction are asyncio's, so the spawner's re-check agrees with what the loop runs).",
            "iteration typestate + context-sensitive constant propagation into guards + wiring", "5 C04",
            TB + "Declined: waiting 'however long' as a temporal statement (no time-out exists: checked as a zero-count rule with a positive control)."),
    "C05": ("Constant table map/starmap/doublestarmap -> 0/1/2 -> star_function branch shapes (by constant propagation; with 0/1/2 star_function raises nothing of its own and returns only through the call), iterable forwarded lazily to exactly one for-header, "
            "Semaphore(num_concurrent), acquire-before-start per iteration, end callback is the semaphore-releasing wrapper, release first/once in the wrapper, "
            "who-may-release the map semaphore, skip-on-raise; unique ids (id discipline shared with C11) and spawner-table integrity as premises; the close waits for the map's spawner (GATHER-COMPLETE + SNAPSHOT-FRESH copy clause in gather_and_close); HANDOFF shared (F1).",
            "table agreement by constant propagation + iteration typestate + who-may tables", "5 C05",
            TB + "Declined: 'exactly num_concurrent running whenever idle' as a count. F1 shared (known finding)."),
    "C06": ("Two-phase cancel (no look-up or raising step reachable after a Task.cancel), look-up table decided by abstract interpretation over the four id states "
            "(running/cancelled/ended/unknown -> return / AlreadyCancelled / AlreadyEnded / TaskNotFound<=InvalidTaskID), who-may-cancel table, cancelled tasks are exactly the looked-up list; an id names one task (id discipline shared with C11); NO-SHARED-TASK (no pool coroutine awaits a task kept in an attribute); NO-SWALLOW (no public coroutine of the pool absorbs a cancellation delivered at its own suspension points; F9 fixed); FORGET-ONLY-GATHERED in gather_and_close as a premise (a running task is found while it is filed); what a look-up raises leaves cancel() - no handler around _get_running_task.",
            "CFG reachability + abstract interpretation of the look-up over 4 cases + who-may-call", "5 C06",
            TB + "Declined: 'observes one CancelledError at its next suspension point' (Task semantics). F1 shared."),
    "C07": ("cancel_group validates first and raises only TaskGroupNotFound; cancel_all returns only with an empty table and hands every entry to the helper; spawners cancelled before "
            "members; member loop exhausts the register and skips no member whose task is running; cancelled spawners remembered; CANCEL-STOPS typestate on all three spawner loops; atomic slot hand-off (L-LOCK); "
            "who-may-remove groups; register membership premise (a task is findable only through the register filed under its group); REGISTER-FAITHFUL (the register's set protocol is the plain set operation); NO-SWALLOW (flush / gather_and_close / until_closed hand a cancellation of their caller on; F9 fixed).",
            "dominance/reachability + iteration typestate (CANCEL-STOPS) + who-may tables", "5 C07",
            TB + "Declined: re-entrant cancel from the group's own iterator (excluded by the property); progress of sibling groups (liveness)."),
    "C08": ("Order lock -> spawner waits -> task wait (all three registries) -> forget -> _closed.set() by completion-dominance; who-may set/clear the closed event; GATHER-COMPLETE "
            "(no swallowed early completion; cancelled-spawner gather uses return_exceptions=True); closed pools reject first (precedence in _check_start, VALIDATE-FIRST); "
            "PoolIsLocked unreachable from spawners; FORGET-ONLY-GATHERED (may-analysis of registries that can hold an un-gathered task); HANDOFF shared; slot balance of the acquirer (a lost slot leaves a blocked spawner, and the close, waiting forever); a cancelled group's spawners are cancelled on every way through the group helper; SNAPSHOT-FRESH (no eager copy of a registry taken before a suspension and gathered after it; no iterator over a registry - a generator expression's outermost iterable - created before a suspension and advanced after it: F11, fixed); execute_optional awaits nothing a plain callback merely returns.",
            "completion-dominance on the CFG + GATHER-COMPLETE rule + constant propagation", "5 C08",
            TB + "Declined: 'returns only after every task finished' as a temporal statement (follows from the order + trusted gather). F1 shared."),
    "C09": ("VALIDATE-FIRST on every spawning entry point and the pool_size setter (no trace completes before any raising exit), precedence type-check < closed < locked, raise inventory "
            "by constant propagation (each documented rejection reachable, exact comparison constants), who-may-write the lock flag, lock/unlock idempotent and non-raising; FUNCTION-PREDICATE (nothing but what iscoroutinefunction accepts passes the function check, by three-valued evaluation of the checks); EXTERNAL-PREDICATES; gather_and_close closes the pool on every way it returns normally (order rule shared with C08).",
            "path rule VALIDATE-FIRST + constant propagation + who-may-write", "5 C09", TB + "Declined: nothing structural."),
    "C10": ("Exactly one register add per started task, in the register filed under the task's group_name, same id as the running-registry key, one atomic segment; who-may add/remove; "
            "group-name wiring through all hops and return values; name templates by abstract string evaluation; generated names returned only after the membership test; "
            "start counter incremented once per accepted call; get_group_ids unions, maps unknown names, mutates nothing; spawner-table integrity (a cancelled group's spawners are found); REGISTER-FAITHFUL.",
            "abstract string evaluation + wiring + path counting", "5 C10", TB + "Declined: set equality of reported and observed ids at run time."),
    "C11": ("Who-may-write the id counter; read-then-increment in one atomic segment (no suspension, no user code, no create_task in between) exactly once per start and never on a failing start; the same id is registry key, register member, "
            "wrapper argument, task name and return value; name templates; per-instance state; index from _add_pool; callback id by typestate.",
            "who-may-write + path counting + abstract string evaluation + typestate (ID role)", "5 C11", TB + "Declined: density as a numeric statement over histories."),
    "C12": ("Typestate (slot released exactly once before the end callback on every edge kind), no swallowing of user exceptions in the wrapper / callbacks executor, spawner "
            "skip-on-raise typestate, return_exceptions wiring into every task gather, FORGET-ONLY-GATHERED in gather_and_close, only user steps may raise in the life-cycle functions (registry-integrity lemma checked); the cancel callback runs with its task already filed as cancelled; SNAPSHOT-FRESH iterator clause (F11, fixed).",
            "typestate + exceptional-edge reachability + may-raise analysis", "5 C12", TB + "Declined: 'every other task proceeds exactly as if it had succeeded' (behavioural)."),
    "C13": ("SNAPSHOT-FORGET (removals after a suspension keyed by a pre-await snapshot whose tasks were gathered, or guarded by done()), flush has no effect on running tasks/other "
            "state (a rebuilt registry is read from the attribute, never through a reference taken before the wait), exit dominated by the forgetting of both registries, return_exceptions wiring, no other raising step; ITERATE-ACROSS-SUSPENSION (no loop of flush iterates a registry directly while its body suspends).",
            "SNAPSHOT-FORGET data-flow rule + effect closure + dominance", "5 C13", TB + "Declined: overlapping flushes as a temporal statement (covered per call by the snapshot rule)."),
    "C14": ("Idiom-based: ids drawn from the reversed running registry, prefix bounded by num with the test before the append, delegated once to cancel(*ids), same list returned, "
            "stop_all == stop(num_running); the bound is the num parameter itself (`num or x` makes 0 mean all); also islice / slice / takewhile forms and helpers returning the list; "
            "positive rule: the value of an id never steers the selection (ids have gaps); cancel's own rules shared (NO-SWALLOW included). Unrecognised computations are inconclusive; every way out of the task wrapper (BaseException included) files the task as ended, so the running registry holds running tasks only.",
            "syntax-directed idiom recognition + CFG dominance", "5 C14", TB + "Declined: nothing else is structural. F1 shared."),
    "C15": ("Getter must read configuration-only paths (violated: F5a), setter must not overwrite the occupancy-dependent counter with its parameter (F5b), raising the limit must wake "
            "waiters (F5c), validation precedes the write with the exact comparison, the semaphore object waiters are parked on is bound once; SNAPSHOT-FORGET shared (a task forgotten inside its callback never releases its slot); FORGET-ONLY-GATHERED in gather_and_close as a premise of the slot balance.",
            "effect analysis (who writes the paths the getter reads) + VALIDATE-FIRST", "5 C15", TB + "F5a-c are recorded known findings; mixed arithmetic is inconclusive, not a violation."),
    "C16": ("Handshake sequence by completion-dominance (read, json, parser with the session's buffer and the client's width, add_subparsers, add_class_commands(run-time class), "
            "name + newline, drain); command surface (getmembers, '_' filter with public_only default True, function/property dispatch, dash names, member stored under CMD, help enabled); "
            "EXECUTABLE (a required argument is filed under the parameter name the session looks up); PARSER-CONFIG; TOTAL-INDEXING on the command-building path; TABLE(annotation kinds at run time vs what the converter does with them) over every public member of every pool class: finding F6; an annotation is looked at by identity only (never hashed or compared by value); OMIT-SELF; default help / description texts; TOKENS (the word typed is the word looked up); no parsing method of ArgumentParser overridden; PATH-AS-GIVEN (the Unix socket path is stored through Path()/str() only).",
            "dominance on the CFG + producer/consumer table agreement (annotation kind vs converter domain)", "5 C16",
            TB + "Declined: the bytes on the wire; help text for every width (argparse run-time behaviour). F6 is a recorded known finding."),
    "C17": ("Dispatch structure of _exec_method_and_respond (self, positional kinds in signature order, *args after, rest by keyword, through return_or_exception), RESULT-USED at all "
            "three return_or_exception call sites with the reply forms ok-if-None-else-str / str, add_function_arg mapping incl. the bool-defaults-to-False table over the pool classes, "
            "return_or_exception semantics (called once, awaited under the coroutine guard, Exception returned, nothing but cancellation escapes - call and await); TOKENS (what reaches parse_args is the line split at blanks, words unchanged); OK-CONSTANT (the reply for a None result is the decoded module constant whose value is the text 'ok'); OMIT-SELF (the omitted-parameter default names the receiver and nothing else); CONVERSION-SITES (a type converter is installed only by add_function_arg from the parameter's own annotation; no argparse action is re-configured); PARSER-CONFIG (argparse reading options stay at their defaults); UNCONVERTED-ONLY-SENTINEL (only the SUPPRESS object itself bypasses conversion); buffer isolation; WIRE-CODEC (UTF-8, strict, on both sides of the wire); DISPATCH-NAMES (forwarding **kwargs cannot clash with a parameter of the receiving function); DISPATCH-KIND (functions to the method executor, properties to the property executor); no synchronisation object shared between sessions is held across a suspension; annotation table shared (F6); NO-TIME-OUTS(control).",
            "syntax-directed structure rules + RESULT-USED data-flow + path counting", "5 C17",
            TB + "Declined: equality of effects for every argument value (translation over run-time values). F6 shared (known finding)."),
    "C18": ("HATCHES (all four argparse escape hatches overridden, no print/sys.std*/exit in parser, session, server; positive control in client), per-iteration protocol of listen by "
            "typestate (one read, one command, one reply, drained), containment as structural sub-rules (handlers around parse_args cover ArgumentError/HelpRequested/ParserError and "
            "fall through; the parser hooks that run inside parse_args leave exceptionally only as ParserError/HelpRequested; type wrapper lets only ArgumentTypeError/TypeError/ValueError out; pool members invoked only through return_or_exception after a successful parse), buffer isolation, PARSER-CONFIG, UNCONVERTED-ONLY-SENTINEL, SESSION-IS-LOCAL (per-connection objects live in the connection callback's locals); no lock shared between sessions is held across an await; DISPATCH-NAMES; NO-TIME-OUTS(control); WHO(write ControlServer._server) = {__init__, serve_forever}.",
            "hatch/who-may rules + iteration typestate + exceptional-exit inventory", "5 C18",
            TB + "Declined: one reply 'when the wait is over'; output of concurrent sessions (follows from per-instance state)."),
    "C19": ("serve_forever awaits only the start-up and returns the serving task; _serve_forever runs _final_callback exactly once on every way out once serving began and absorbs "
            "cancellation; the unix callback unlinks the path that was listened on; ALL-EXITS(_client_connected_cb => writer.close) over normal/exception/cancellation edges; listen "
            "re-tests is_serving and leaves on EOF; NO-SPIN-AT-EOF (no stream read is repeated on an empty result without a real suspension in between); SESSION-IS-LOCAL; WHO(write of the server attribute) = constructor and serve_forever; no shared lock held across an await; containment shared (no line can end a session); client closes and clears its flag on exit/EOF; BLANK-AGREEMENT (while a blank line ends the session, the bundled client returns None or a provably non-empty command).",
            "ALL-EXITS path counting over all edge kinds + data-flow equality of paths", "5 C19",
            TB + "Declined: everything observable only on real sockets (promptness, refusal of new connections, other sessions unaffected)."),
    "C20": ("__aenter__ takes exactly one item and reaches no task_done on any edge (in particular the cancellation edge of the waiting get); __aexit__ reaches task_done exactly once "
            "on every exit, before any suspension, independent of the exception arguments, and returns falsy; item_processed == one task_done; trusted primitives not overridden.",
            "ALL-EXITS path counting over normal, exception and cancellation edges", "5 C20",
            TB + "With the language rule '__aexit__ runs exactly once iff __aenter__ completed' and the trusted Queue.join this implies the accounting."),
}


def main() -> None:
    checks = []
    for pid in PROPS:
        if pid not in CHECKS:
            continue
        text, tech, ref, note = CHECKS[pid]
        checks.append({
            "property_id": pid,
            "quick_cmd": f"bin/tpsa check {pid} --tier quick",
            "thorough_cmd": f"bin/tpsa check {pid} --tier thorough",
            "evidence_file": f"/verif/evidence/{pid}.json",
            "replay_cmd_template": "bin/tpsa explain {path}",
            "engine": "tpsa",
            "level_claimed": {"category": "other", "text": text, "design_ref": f"DESIGN.md section {ref}"},
            "level_note": note,
            "technique": "static analysis: " + tech,
        })
    na = [{"property_id": p, "reason": "check not built yet (implementation in progress); see DESIGN.md section 5"} for p in PROPS if p not in CHECKS]
    m = {
        "version": 1,
        "setup_cmd": "/venv/bin/python -c \"import ast, sys; assert sys.version_info >= (3, 9); ast.unparse\" && chmod +x bin/tpsa",
        "hooks": {
            "guard": "ASYNCIO_TASKPOOL_VERIF",
            "enable": "none: static analysis needs no instrumentation; no source change uses the guard",
            "baseline_off_cmd": "cd /repo && /venv/bin/python -m pytest -ra -q -p no:cacheprovider --timeout=900",
            "source_commits": [],
            "add_only": True,
        },
        "engines": [{"name": "tpsa", "path": "/verif/tpsa", "serves_properties": [c["property_id"] for c in checks],
                     "kind_free_text": "repository-specific static analyser (stdlib ast): program model, call resolution, step-level CFG with exception and cancellation edges, "
                                       "effects, typestate abstract interpretation, constant propagation; source normalisation (single-use temporaries folded back), helpers outside the frozen "
                                       "function table spliced into their callers (with branch threading / return-value specialisation), short display loops unrolled; "
                                       "never imports or runs the analysed package"}],
        "checks": checks,
        "notes": "Exit codes: 0 all obligations discharged (KNOWN-FINDING lines printed for listed findings); 1 unlisted violation (VIOLATION line); 2 analysis error/inconclusive. "
                 "Genuine defects repaired in /repo by 'fix:' commits 5efe713 (F2 flush), 73c6040 (F3 ignore_lock), 9f80802 (F4 gather_and_close), 2f24236 (F7 setter reply), "
                 "9202657 (F8 writer.close), 4221d47 (F9 flush no longer swallows its caller's cancellation); open findings F1, F5a-c, F6, F10 are listed in KNOWN_FINDINGS.txt. Self-test of the checker: PYTHONPATH=/verif /venv/bin/python -m tpsa.selftest",
        "not_applicable": na,
    }
    with open(os.path.join(HERE, "MANIFEST.json"), "w") as fh:
        json.dump(m, fh, indent=1)
    print(f"{len(checks)} checks, {len(na)} not applicable")


if __name__ == "__main__":
    main()
