#!/usr/bin/env python3
"""Freeze the table of package functions the rules were written against (run on the pinned, unmodified /repo)."""
import os, sys
sys.path.insert(0, os.path.dirname(os.path.dirname(os.path.abspath(__file__))))
from tpsa.model import Program
prog = Program(sys.argv[1] if len(sys.argv) > 1 else "/repo")
out = os.path.join(os.path.dirname(os.path.dirname(os.path.abspath(__file__))), "tpsa", "known_funcs.txt")
with open(out, "w") as fh:
    fh.write("# functions of asyncio_taskpool at the pinned tree (plus fix: commits); anything else is spliced into its callers\n")
    for q in sorted(prog.functions):
        fh.write(q + "\n")
print(len(prog.functions), "functions")
