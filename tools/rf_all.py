#!/usr/bin/env python3
"""Run the twenty quick checks against every behaviour-preserving refactoring kept under /verif/preserving (each applied to
its own scratch copy of /repo's HEAD), in parallel; prints every alarm (there must be none).  usage: rf_all.py [rfN ...]"""
import os, shutil, subprocess, sys
from concurrent.futures import ProcessPoolExecutor

VERIF = os.path.dirname(os.path.dirname(os.path.abspath(__file__)))
sys.path.insert(0, VERIF)
PROPS = [f"C{i:02d}" for i in range(1, 21)]
# known findings reported on the unchanged tree (property -> ids): a refactoring that keeps behaviour keeps the defects too, so a
# finding that silently disappears on a probe means a rule lost sight of the code (a miss in waiting), and is printed as well
BASE_KNOWN = {"C02": {"F1", "F10"}, "C03": {"F1", "F10"}, "C05": {"F1"}, "C06": {"F1"}, "C08": {"F1"}, "C14": {"F1"}, "C15": {"F5a", "F5b", "F5c"}, "C16": {"F6"}, "C17": {"F6"}}


def one(name: str):
    from tpsa.cli import run_check
    d = os.path.join(VERIF, "preserving", name)
    t = os.path.join("/tmp/rfrun", name)
    shutil.rmtree(t, ignore_errors=True)
    os.makedirs(t)
    out = []
    try:
        subprocess.run(f"git -C /repo archive HEAD src | tar -x -C {t}", shell=True, check=True)
        subprocess.run(["git", "init", "-q"], cwd=t, check=True)
        r = subprocess.run(["git", "apply", os.path.join(d, "patch.diff")], cwd=t, capture_output=True, text=True)
        if r.returncode != 0:
            return name, [f"PATCH DOES NOT APPLY {r.stderr[:200]}"]
        for p in PROPS:
            reps = []
            c = run_check(p, "quick", t, 0, write=False, rep_out=reps)
            lost = BASE_KNOWN.get(p, set()) - {o.known for o in reps[0].known_hits()}
            if lost and c == 0:
                out.append(f"== {p} LOST known finding(s) {sorted(lost)}")
            if c != 0:
                rp = reps[0]
                out.append(f"== {p} exit {c}")
                out += [f"  V {o.rule} {o.func} :: {o.what[:110]} :: {o.construct[:90]}" for o in rp.violations()]
                out += [f"  I {o.rule} {o.what[:120]} :: {str(o.detail)[:160]}" for o in rp.inconclusive()]
                out += ["  N " + n[-400:] for n in rp.notes]
        return name, out
    finally:
        shutil.rmtree(t, ignore_errors=True)


def main():
    names = sys.argv[1:] or sorted((n for n in os.listdir(os.path.join(VERIF, "preserving")) if os.path.exists(os.path.join(VERIF, "preserving", n, "patch.diff"))),
                                   key=lambda s: int(s[2:]) if s[2:].isdigit() else 0)
    bad = 0
    with ProcessPoolExecutor(max_workers=14) as ex:
        for name, out in ex.map(one, names):
            if out:
                bad += 1
                print("###", name)
                print("\n".join(out))
    shutil.rmtree("/tmp/rfrun", ignore_errors=True)
    print(f"{len(names)} refactorings, {bad} with alarms")
    return 1 if bad else 0


if __name__ == "__main__":
    sys.exit(main())
