#!/usr/bin/env python3
"""Evaluate a behaviour-preserving refactoring produced by a sub-agent: every check must stay at exit 0.
usage: refactor_eval.py <name> <agent worktree> | --rerun [substr]"""
import json, os, shutil, subprocess, sys, tempfile
sys.path.insert(0, os.path.dirname(os.path.abspath(__file__)))
from seed_eval import run_checks, sh, VERIF

def evaluate(d):
    # a scratch worktree of /repo's HEAD carries the change (/repo itself is not touched)
    tmp = tempfile.mkdtemp(prefix="rfeval-")
    os.rmdir(tmp)
    try:
        sh(f"git -C /repo worktree add --detach {tmp} HEAD")
        c, o = sh(f"git apply {d}/patch.diff", cwd=tmp)
        if c != 0:
            return {"error": "patch does not apply: " + o[:200]}
        ct, ot = sh("/venv/bin/python -m pytest -q -p no:cacheprovider --timeout=900 2>&1 | tail -1", cwd=tmp, env=dict(os.environ, PYTHONPATH=f"{tmp}/src"))
        res = run_checks(tmp)
    finally:
        sh(f"git -C /repo worktree remove --force {tmp}")
        shutil.rmtree(tmp, ignore_errors=True)
    return {"suite": ot.strip(), "alarms": {p: r["viol"][:4] for p, r in res.items() if r["code"] == 1},
            "inconclusive": {p: r["inc"][:3] for p, r in res.items() if r["code"] == 2}}

def main():
    root = os.path.join(VERIF, "preserving")
    if sys.argv[1] == "--rerun":
        for name in sorted(os.listdir(root)):
            if len(sys.argv) > 2 and sys.argv[2] not in name:
                continue
            d = os.path.join(root, name)
            r = evaluate(d)
            json.dump(r, open(os.path.join(d, "result.json"), "w"), indent=1)
            print(name, r.get("suite"), "ALARMS:", sorted(r.get("alarms", {})), "INCONCLUSIVE:", sorted(r.get("inconclusive", {})), r.get("error", ""))
        return
    name, wt = sys.argv[1:3]
    d = os.path.join(root, name)
    os.makedirs(d, exist_ok=True)
    _, diff = sh("git diff -- src", cwd=wt)
    open(os.path.join(d, "patch.diff"), "w").write(diff)
    r = evaluate(d)
    json.dump(r, open(os.path.join(d, "result.json"), "w"), indent=1)
    print(json.dumps(r, indent=1))

if __name__ == "__main__":
    main()
