#!/usr/bin/env python3
"""Confirm a seeded change and run every check against it.

usage: seed_eval.py <seed id> <agent worktree> <property> "<what it needs to manifest>"
 1. saves the diff and the demo under /verif/seeded/<seed id>/
 2. confirms in a fresh scratch worktree of /repo: suite passes with the change, demo exits 1 with it and 0 without
 3. applies the patch to /repo, runs every registered quick check, undoes it straight afterwards
"""
import json
import os
import shutil
import subprocess
import sys
import tempfile

VERIF = os.path.dirname(os.path.dirname(os.path.abspath(__file__)))


def sh(cmd, cwd=None, env=None, timeout=600):
    p = subprocess.run(cmd, shell=True, cwd=cwd, env=env, capture_output=True, text=True, timeout=timeout)
    return p.returncode, (p.stdout + p.stderr)


def run_checks(tree="/repo"):
    m = json.load(open(os.path.join(VERIF, "MANIFEST.json")))
    out = {}
    for c in m["checks"]:
        code, txt = sh(f"PYTHONPATH={VERIF} /venv/bin/python - <<'EOF'\nfrom tpsa.cli import run_check\nreps=[]\nc=run_check('{c['property_id']}','quick','{tree}',0,write=False,rep_out=reps)\nr=reps[0]\nimport json\nprint(json.dumps({{'code':c,'viol':[o.rule+' '+o.func+' :: '+o.what[:90]+' :: '+o.construct[:70] for o in r.violations()],'inc':[o.rule+' '+o.what[:80] for o in r.inconclusive()]+r.notes}}))\nEOF", cwd=VERIF)
        try:
            out[c["property_id"]] = json.loads(txt.strip().splitlines()[-1])
        except Exception:
            out[c["property_id"]] = {"code": -1, "viol": [], "inc": [txt[-300:]]}
    return out


def main():
    sid, wt, prop, needs = sys.argv[1:5]
    d = os.path.join(VERIF, "seeded", sid)
    os.makedirs(d, exist_ok=True)
    code, diff = sh("git diff -- src", cwd=wt)
    if not diff.strip():
        print("empty diff")
        return 1
    open(os.path.join(d, "patch.diff"), "w").write(diff)
    shutil.copy(os.path.join(wt, "demo.py"), os.path.join(d, "demo.py"))
    # confirm in a fresh worktree
    tmp = tempfile.mkdtemp(prefix="seedconf-")
    os.rmdir(tmp)
    ran = []
    try:
        c, o = sh(f"git -C /repo worktree add --detach {tmp} HEAD")
        env = dict(os.environ, PYTHONPATH=f"{tmp}/src")
        c0, o0 = sh(f"timeout -s KILL 120 /venv/bin/python {d}/demo.py", cwd=tmp, env=env)
        ran.append(f"demo on unchanged tree: exit {c0}")
        c, o = sh(f"git apply {d}/patch.diff", cwd=tmp)
        if c != 0:
            print("patch does not apply:", o)
            return 1
        ct, ot = sh("/venv/bin/python -m pytest -q -p no:cacheprovider --timeout=900 2>&1 | tail -1", cwd=tmp, env=env)
        ran.append(f"suite with change: {ot.strip()}")
        c1, o1 = sh(f"timeout -s KILL 120 /venv/bin/python {d}/demo.py", cwd=tmp, env=env)
        ran.append(f"demo with change: exit {c1}: {o1.strip()[-300:]}")
        # run the checks against the scratch tree that carries the change (/repo itself is not touched)
        res = run_checks(tmp)
    finally:
        sh(f"git -C /repo worktree remove --force {tmp}")
        shutil.rmtree(tmp, ignore_errors=True)
    confirmed = c0 == 0 and c1 == 1 and "112 passed" in ot
    caught = {p: r["viol"] for p, r in res.items() if r["code"] == 1}
    inconc = {p: r["inc"] for p, r in res.items() if r["code"] == 2}
    meta = {"id": sid, "property": prop, "needs_to_manifest": needs, "confirmed": confirmed, "ran": ran,
            "caught_by": sorted(caught), "rules": {p: v[:4] for p, v in caught.items()}, "inconclusive": inconc}
    json.dump(meta, open(os.path.join(d, "meta.json"), "w"), indent=1)
    print(json.dumps(meta, indent=1))
    return 0


if __name__ == "__main__":
    sys.exit(main())
