#!/usr/bin/env python3
"""Whole-program behaviour-preserving transformations of a scratch copy; every check must stay at exit 0.

 T1 black reformat (line length 140)      T2 ast.unparse round trip (comments dropped, quotes normalised)
 T3 rename every local variable           T4 a log.debug(...) line after every simple statement of pool.py
 T5 docstrings removed and `pass`-free    T6 T2+T3+T4 combined
 T7 every if/else inverted (`if c: A else: B` -> `if not c: B else: A`)
 T8 every `return <expr>` via a local (`_r = <expr>; return _r`)
 T9 every store of a call result into a field/element via a local (`_t = f(); self.x[k] = _t`)
 T10 T7+T8+T9 combined
 T11 `x += e` written `x = x + e` (names and self attributes)      T12 `if a and b: X` (no else) written as nested ifs
 T13 `if c: ...; return` followed by the rest -> the rest moved into `else:`
 T14 every non-trivial `if` test via a local (`_c = <test>; if _c:`)
 T15 every `await f(...)` via a local (`_a = f(...); await _a`)      T16 T11..T15 combined
 T17 every `for x in <expr>` source via a local                        T18 a call that is the only positional argument of a statement-level call hoisted
 T19 `self.<field>.<method>(...)` statements with the receiver via a local (`_o = self.<field>; _o.<method>(...)`)
 T20 T17+T18+T19 combined
 T21 `while cond: BODY` (no else) written `while True: if not cond: break; BODY`
 T22 a trailing `if c: continue` guard of a loop body turned into nesting (`if not c: REST`) and vice versa where applicable
"""
import ast, os, shutil, subprocess, sys, tempfile
sys.path.insert(0, os.path.dirname(os.path.dirname(os.path.abspath(__file__))))
from tpsa.cli import run_check

PROPS = [f"C{i:02d}" for i in range(1, 21)]


def files(root):
    for dp, dn, fn in os.walk(os.path.join(root, "src", "asyncio_taskpool")):
        for f in fn:
            if f.endswith(".py"):
                yield os.path.join(dp, f)


class Renamer(ast.NodeTransformer):
    """renames the locals of functions that have no nested scopes and no global/nonlocal declarations"""
    def visit_FunctionDef(self, node):
        self.generic_visit(node)
        nested = any(isinstance(n, (ast.FunctionDef, ast.AsyncFunctionDef, ast.Lambda, ast.ClassDef, ast.ListComp, ast.SetComp, ast.DictComp, ast.GeneratorExp, ast.Global, ast.Nonlocal))
                     for n in ast.walk(node) if n is not node)
        if nested:
            return node
        params = {a.arg for a in node.args.posonlyargs + node.args.args + node.args.kwonlyargs}
        if node.args.vararg: params.add(node.args.vararg.arg)
        if node.args.kwarg: params.add(node.args.kwarg.arg)
        stores = {n.id for n in ast.walk(node) if isinstance(n, ast.Name) and isinstance(n.ctx, ast.Store)} - params
        excs = {h.name for h in ast.walk(node) if isinstance(h, ast.ExceptHandler) and h.name}
        for n in ast.walk(node):
            if isinstance(n, ast.Name) and n.id in stores:
                n.id = n.id + "_v"
            if isinstance(n, ast.ExceptHandler) and n.name in excs and n.name in stores | excs:
                pass
        return node
    visit_AsyncFunctionDef = visit_FunctionDef


class Logger(ast.NodeTransformer):
    def _body(self, body):
        out = []
        for st in body:
            out.append(st)
            if isinstance(st, (ast.Assign, ast.AugAssign, ast.AnnAssign, ast.Expr)) and not (isinstance(st, ast.Expr) and isinstance(st.value, ast.Constant)):
                out.append(ast.parse("log.debug('trace')").body[0])
        return out
    def generic_visit(self, node):
        super().generic_visit(node)
        for fld in ("body", "orelse", "finalbody"):
            b = getattr(node, fld, None)
            if isinstance(b, list) and b and isinstance(b[0], ast.stmt) and not isinstance(node, (ast.Module, ast.ClassDef)):
                setattr(node, fld, self._body(b))
        return node


class NoDoc(ast.NodeTransformer):
    def generic_visit(self, node):
        super().generic_visit(node)
        b = getattr(node, "body", None)
        if isinstance(b, list) and b and isinstance(b[0], ast.Expr) and isinstance(b[0].value, ast.Constant) and isinstance(b[0].value.value, str):
            node.body = b[1:] or [ast.Pass()]
        return node


class InvertIf(ast.NodeTransformer):
    def visit_If(self, node):
        self.generic_visit(node)
        if node.orelse and not (len(node.orelse) == 1 and isinstance(node.orelse[0], ast.If)):
            t = node.test
            neg = t.operand if isinstance(t, ast.UnaryOp) and isinstance(t.op, ast.Not) else ast.UnaryOp(op=ast.Not(), operand=t)
            node.test, node.body, node.orelse = neg, node.orelse, node.body
        return node


class _Blocks(ast.NodeTransformer):
    """rewrites statement lists of function bodies"""
    def rewrite(self, st, n):
        return [st]

    def generic_visit(self, node):
        super().generic_visit(node)
        for fld in ("body", "orelse", "finalbody"):
            b = getattr(node, fld, None)
            if isinstance(b, list) and b and isinstance(b[0], ast.stmt) and not isinstance(node, (ast.Module, ast.ClassDef)):
                out = []
                for st in b:
                    self.n = getattr(self, "n", 0) + 1
                    out += self.rewrite(st, self.n)
                setattr(node, fld, out)
        return node


class ReturnViaLocal(_Blocks):
    def rewrite(self, st, n):
        if isinstance(st, ast.Return) and st.value is not None and not isinstance(st.value, (ast.Constant, ast.Name)):
            nm = f"_r{n}"
            return [ast.Assign(targets=[ast.Name(id=nm, ctx=ast.Store())], value=st.value), ast.Return(value=ast.Name(id=nm, ctx=ast.Load()))]
        return [st]


class StoreViaLocal(_Blocks):
    def rewrite(self, st, n):
        if isinstance(st, ast.Assign) and len(st.targets) == 1 and isinstance(st.targets[0], (ast.Subscript, ast.Attribute)) and isinstance(st.value, (ast.Call, ast.Await)):
            nm = f"_t{n}"
            return [ast.Assign(targets=[ast.Name(id=nm, ctx=ast.Store())], value=st.value), ast.Assign(targets=st.targets, value=ast.Name(id=nm, ctx=ast.Load()))]
        return [st]


class AugExpand(ast.NodeTransformer):
    def visit_AugAssign(self, node):
        t = node.target
        if isinstance(t, ast.Name) or (isinstance(t, ast.Attribute) and isinstance(t.value, ast.Name) and t.value.id == "self"):
            import copy
            load = copy.deepcopy(t)
            load.ctx = ast.Load()
            return ast.Assign(targets=[t], value=ast.BinOp(left=load, op=node.op, right=node.value))
        return node


class SplitAnd(ast.NodeTransformer):
    def visit_If(self, node):
        self.generic_visit(node)
        if not node.orelse and isinstance(node.test, ast.BoolOp) and isinstance(node.test.op, ast.And) and len(node.test.values) == 2:
            a, b = node.test.values
            return ast.If(test=a, body=[ast.If(test=b, body=node.body, orelse=[])], orelse=[])
        return node


class ElseAfterReturn(_Blocks):
    def generic_visit(self, node):
        ast.NodeTransformer.generic_visit(self, node)
        for fld in ("body", "orelse", "finalbody"):
            b = getattr(node, fld, None)
            if isinstance(b, list) and b and isinstance(b[0], ast.stmt) and not isinstance(node, (ast.Module, ast.ClassDef)):
                for i, st in enumerate(b):
                    if isinstance(st, ast.If) and not st.orelse and st.body and isinstance(st.body[-1], (ast.Return, ast.Raise)) and b[i + 1:]:
                        rest = b[i + 1:]
                        if any(isinstance(x, (ast.FunctionDef, ast.AsyncFunctionDef)) for x in rest):
                            break
                        st.orelse = rest
                        setattr(node, fld, b[:i + 1])
                        break
        return node


class TestViaLocal(_Blocks):
    def rewrite(self, st, n):
        if isinstance(st, ast.If) and not isinstance(st.test, (ast.Name, ast.Constant)) and not any(isinstance(x, (ast.NamedExpr, ast.Await)) for x in ast.walk(st.test)):
            nm = f"_c{n}"
            return [ast.Assign(targets=[ast.Name(id=nm, ctx=ast.Store())], value=st.test), ast.If(test=ast.Name(id=nm, ctx=ast.Load()), body=st.body, orelse=st.orelse)]
        return [st]


class AwaitViaLocal(_Blocks):
    def rewrite(self, st, n):
        v = st.value if isinstance(st, (ast.Expr, ast.Assign, ast.Return)) else None
        if isinstance(v, ast.Await) and isinstance(v.value, ast.Call):
            nm = f"_a{n}"
            pre = ast.Assign(targets=[ast.Name(id=nm, ctx=ast.Store())], value=v.value)
            v.value = ast.Name(id=nm, ctx=ast.Load())
            return [pre, st]
        return [st]


class ForViaLocal(_Blocks):
    def rewrite(self, st, n):
        if isinstance(st, ast.For) and not isinstance(st.iter, (ast.Name, ast.Tuple, ast.List)):
            nm = f"_it{n}"
            pre = ast.Assign(targets=[ast.Name(id=nm, ctx=ast.Store())], value=st.iter)
            st.iter = ast.Name(id=nm, ctx=ast.Load())
            return [pre, st]
        return [st]


class HoistArg(_Blocks):
    def rewrite(self, st, n):
        v = st.value if isinstance(st, (ast.Expr, ast.Assign)) else None
        if isinstance(v, ast.Call) and len(v.args) == 1 and not v.keywords and isinstance(v.args[0], ast.Call) and not isinstance(v.func, ast.Name):
            nm = f"_h{n}"
            pre = ast.Assign(targets=[ast.Name(id=nm, ctx=ast.Store())], value=v.args[0])
            v.args[0] = ast.Name(id=nm, ctx=ast.Load())
            return [pre, st]
        return [st]


class ReceiverViaLocal(_Blocks):
    def rewrite(self, st, n):
        v = st.value if isinstance(st, ast.Expr) else None
        if isinstance(v, ast.Call) and isinstance(v.func, ast.Attribute) and isinstance(v.func.value, ast.Attribute) and isinstance(v.func.value.value, ast.Name) \
                and v.func.value.value.id == "self" and not any(isinstance(x, (ast.Await, ast.Call)) for a in v.args for x in ast.walk(a)):
            nm = f"_o{n}"
            pre = ast.Assign(targets=[ast.Name(id=nm, ctx=ast.Store())], value=v.func.value)
            v.func.value = ast.Name(id=nm, ctx=ast.Load())
            return [pre, st]
        return [st]


class WhileTrue(ast.NodeTransformer):
    def visit_While(self, node):
        self.generic_visit(node)
        if node.orelse or (isinstance(node.test, ast.Constant) and node.test.value is True):
            return node
        t = node.test
        neg = t.operand if isinstance(t, ast.UnaryOp) and isinstance(t.op, ast.Not) else ast.UnaryOp(op=ast.Not(), operand=t)
        return ast.While(test=ast.Constant(value=True), body=[ast.If(test=neg, body=[ast.Break()], orelse=[])] + node.body, orelse=[])


class ContinueToNest(ast.NodeTransformer):
    def _loop(self, node):
        self.generic_visit(node)
        for i, st in enumerate(node.body):
            if isinstance(st, ast.If) and not st.orelse and len(st.body) == 1 and isinstance(st.body[0], ast.Continue) and node.body[i + 1:]:
                t = st.test
                neg = t.operand if isinstance(t, ast.UnaryOp) and isinstance(t.op, ast.Not) else ast.UnaryOp(op=ast.Not(), operand=t)
                node.body = node.body[:i] + [ast.If(test=neg, body=node.body[i + 1:], orelse=[])]
                break
        return node
    visit_For = _loop
    visit_While = _loop


def transform(root, which):
    for p in files(root):
        src = open(p).read()
        if which == "T1":
            continue
        tree = ast.parse(src)
        if which in ("T3", "T6"):
            tree = Renamer().visit(tree)
        if which in ("T4", "T6") and p.endswith("pool.py"):
            tree = Logger().visit(tree)
        if which == "T5":
            tree = NoDoc().visit(tree)
        if which in ("T7", "T10"):
            tree = InvertIf().visit(tree)
        if which in ("T8", "T10"):
            tree = ReturnViaLocal().visit(tree)
        if which in ("T9", "T10"):
            tree = StoreViaLocal().visit(tree)
        if which in ("T11", "T16"):
            tree = AugExpand().visit(tree)
        if which in ("T12", "T16"):
            tree = SplitAnd().visit(tree)
        if which in ("T13", "T16"):
            tree = ElseAfterReturn().visit(tree)
        if which in ("T14", "T16"):
            tree = TestViaLocal().visit(tree)
        if which in ("T15", "T16"):
            tree = AwaitViaLocal().visit(tree)
        if which in ("T17", "T20"):
            tree = ForViaLocal().visit(tree)
        if which in ("T18", "T20"):
            tree = HoistArg().visit(tree)
        if which in ("T19", "T20"):
            tree = ReceiverViaLocal().visit(tree)
        if which == "T21":
            tree = WhileTrue().visit(tree)
        if which == "T22":
            tree = ContinueToNest().visit(tree)
        ast.fix_missing_locations(tree)
        out = ast.unparse(tree)
        compile(out, p, "exec")
        open(p, "w").write(out + "\n")
    if which == "T1":
        subprocess.run(["/venv/bin/black", "-q", "-l", "140", os.path.join(root, "src", "asyncio_taskpool")], check=False)


def main():
    bad = 0
    for which in sys.argv[1:] or ["T1", "T2", "T3", "T4", "T5", "T6", "T7", "T8", "T9", "T10", "T11", "T12", "T13", "T14", "T15", "T16", "T17", "T18", "T19", "T20", "T21", "T22"]:
        tmp = tempfile.mkdtemp(prefix="tpsa-preserve-")
        try:
            shutil.copytree("/repo/src", os.path.join(tmp, "src"), ignore=shutil.ignore_patterns("__pycache__", "*.egg-info"))
            shutil.copytree("/repo/tests", os.path.join(tmp, "tests"), ignore=shutil.ignore_patterns("__pycache__"))
            transform(tmp, which)
            t = subprocess.run("/venv/bin/python -m pytest -q -p no:cacheprovider -x 2>&1 | tail -1", shell=True, cwd=tmp, env=dict(os.environ, PYTHONPATH=os.path.join(tmp, "src")), capture_output=True, text=True).stdout.strip()
            line = []
            for p in PROPS:
                reps = []
                c = run_check(p, "quick", tmp, 0, write=False, rep_out=reps)
                if c != 0:
                    bad += 1
                    r = reps[0]
                    line.append(f"\n   {p} exit {c}: " + "; ".join([o.rule + " " + o.func + " " + o.what[:70] + " :: " + o.construct[:50] for o in r.violations()][:3] + [o.rule + " " + o.what[:60] + " " + o.detail[:80] for o in r.inconclusive()][:3] + r.notes[:1]))
            print(f"{which}: suite [{t}]  checks: {'all 20 exit 0' if not line else ''.join(line)}")
        finally:
            shutil.rmtree(tmp, ignore_errors=True)
    return 1 if bad else 0

if __name__ == "__main__":
    sys.exit(main())
