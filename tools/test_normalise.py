#!/usr/bin/env python3
"""Differential test of the source normaliser itself (a tool test, not a MANIFEST check): toy modules are executed as written and
after `tpsa.normalise.normalise`; the traces (prints, results, exceptions) must be identical, and the passes that are expected to
fire must have fired / must have refused.  usage: test_normalise.py"""
import ast, io, os, sys, contextlib, textwrap

sys.path.insert(0, os.path.dirname(os.path.dirname(os.path.abspath(__file__))))
from tpsa.normalise import normalise

CASES = []


def case(name, src, inlined):
    CASES.append((name, textwrap.dedent(src), inlined))


case("generator with try/else yield, body returns", '''
    class K:
        @staticmethod
        def _gen(items, make, fail):
            for i, item in enumerate(items):
                try:
                    c = make(item)
                except Exception as e:
                    fail(e, item)
                else:
                    yield i, c
        def run(self, n):
            out = []
            def make(x):
                if x == 2:
                    raise ValueError(x)
                return x * 10
            def fail(e, x):
                out.append(("fail", type(e).__name__, x))
            for i, c in self._gen(range(n), make, fail):
                out.append((i, c))
                if c == 30:
                    return out
            out.append("end")
            return out
    def main():
        k = K()
        return [k.run(0), k.run(3), k.run(6)]
''', 1)

case("two yields, method generator using self, locals colliding with the caller's", '''
    class K:
        base = 7
        def _gen(self, xs):
            i = 0
            for x in xs:
                yield self.base + x
                i += 1
            yield -i
        def run(self, xs):
            i = 100
            acc = []
            for v in self._gen(xs):
                acc.append((i, v))
                i += 1
            return acc, i
    def main():
        return K().run([1, 2, 3]), K().run([])
''', 1)

case("module-level generator with default parameter and keyword argument", '''
    def _pairs(xs, start=0, *, step=1):
        k = start
        for x in xs:
            yield k, x
            k += step
    def main():
        out = []
        for k, x in _pairs("abc", step=2):
            out.append((k, x))
        for k, x in _pairs("ab", 5):
            out.append((k, x))
        return out
''', 2)

case("REFUSED: break in the loop body", '''
    def _g(xs):
        for x in xs:
            yield x
        print("exhausted")
    def main():
        out = []
        for x in _g([1, 2, 3]):
            if x == 2:
                break
            out.append(x)
        return out
''', 0)

case("REFUSED: continue in the loop body", '''
    def _g(xs):
        for x in xs:
            yield x
            print("after", x)
    def main():
        out = []
        for x in _g([1, 2, 3]):
            if x == 2:
                continue
            out.append(x)
        return out
''', 0)

case("REFUSED: yield under try body (handler must not see the consumer's exception)", '''
    def _g(xs):
        for x in xs:
            try:
                yield x
            except ValueError:
                print("swallowed")
    def main():
        out = []
        try:
            for x in _g([1, 2]):
                out.append(x)
                raise ValueError("consumer")
        except ValueError as e:
            out.append(str(e))
        return out
''', 0)

case("REFUSED: generator with return", '''
    def _g(xs):
        for x in xs:
            if x == 2:
                return
            yield x
    def main():
        out = []
        for x in _g([1, 2, 3]):
            out.append(x)
        else:
            out.append("else")
        return out
''', 0)

case("generator used twice: collected by list() and looped over", '''
    def _g(xs):
        for x in xs:
            yield x * 2
    def main():
        out = list(_g([5]))
        for y in _g([1, 2]):
            out.append(y)
        return out
''', 2)

case("nested loop in body with its own break/continue is fine", '''
    def _g(xs):
        for x in xs:
            yield x
    def main():
        out = []
        for x in _g([1, 2, 3]):
            for j in range(5):
                if j == x:
                    break
                if j == 0:
                    continue
                out.append((x, j))
        return out
''', 1)

case("argument expressions evaluated once, in call order, before the first item", '''
    def _g(a, b):
        print("start", a, b)
        yield a
        yield b
    def _v(tag):
        print("eval", tag)
        return tag
    def main():
        out = []
        for x in _g(_v("A"), b=_v("B")):
            out.append(x)
        return out
''', 1)

case("exception raised by the generator itself propagates from the loop", '''
    def _g(xs):
        for x in xs:
            if x == 3:
                raise KeyError(x)
            yield x
    def main():
        out = []
        try:
            for x in _g([1, 2, 3, 4]):
                out.append(x)
        except KeyError as e:
            out.append(("KeyError", e.args))
        return out
''', 1)

case("other passes: folded temporaries, loop shapes, tail sinking, display loops, bound aliases, table methods", """
    class K:
        def __init__(self):
            self.a, self.b, self.log = [], [], []
        def _tables(self):
            return (self.a, self.b)
        def fill(self, xs):
            add = self.a.append
            for x in xs:
                _c = x % 2
                if _c:
                    add(x)
                    kind = "odd"
                else:
                    self.b.append(x)
                    kind = "even"
                self.log.append(kind)
            i = 0
            while True:
                if not i < 3:
                    break
                self.log.append(i)
                i += 1
            for t in self._tables():
                t.append("end")
            for name, reg in (("a", self.a), ("b", self.b)):
                self.log.append((name, len(reg)))
            _r = (self.a, self.b, self.log)
            return _r
    def main():
        return K().fill([1, 2, 3, 4, 5])
""", 0)

case("collect: list(generator) with return-as-break, target reused as accumulator", """
    class K:
        def __init__(self):
            self.running = {1: "a", 2: "b", 3: "c", 4: "d"}
        def _newest(self, num):
            for idx, tid in enumerate(reversed(self.running)):
                if idx >= num:
                    return
                yield tid
        def stop(self, num):
            ids = list(self._newest(num))
            return ids
    def main():
        k = K()
        return [k.stop(n) for n in (0, 1, 2, 9, -1, 1.5)]
""", 1)

case("collect: tuple()/set() and return forms, yield under try body allowed here", """
    def _g(xs):
        for x in xs:
            try:
                yield 10 // x
            except ZeroDivisionError:
                yield -1
    def a(xs):
        return tuple(_g(xs))
    def b(xs):
        s: set = set(_g(xs))
        return sorted(s)
    def main():
        return a([1, 0, 5]), b([2, 0, 2])
""", 1)

case("collect: option strings generator with a helper that claims a flag", """
    class P:
        def __init__(self):
            self.flags = set()
        def _claim(self, letter):
            for c in (letter, letter.upper()):
                if c not in self.flags:
                    self.flags.add(c)
                    return f"-{c}"
            return None
        def _opts(self, name):
            long = f'--{name.replace("_", "-")}'
            flag = self._claim(name[0])
            if flag is not None:
                yield flag
            yield long
        def add(self, name):
            names = list(self._opts(name))
            return names
    def main():
        p = P()
        return [p.add("group_name"), p.add("go"), p.add("get")]
""", 1)

case("REFUSED: return inside an inner loop of the generator", """
    def _g(rows):
        for row in rows:
            for x in row:
                if x < 0:
                    return
                yield x
    def main():
        return list(_g([[1, 2], [3, -1, 4], [5]]))
""", 0)

case("loop form with return-as-break in the generator", """
    def _g(xs, limit):
        for i, x in enumerate(xs):
            if i >= limit:
                return
            yield x
    def main():
        out = []
        for x in _g("abcdef", 3):
            out.append(x)
        out.append("after")
        return out
""", 1)

case("option-table method with parameters, unpacked into a call", """
    class K:
        def __init__(self):
            self.end, self.cancel = "E", "C"
        def _options(self, group_name):
            return {"group_name": group_name, "end_callback": self.end, "cancel_callback": self.cancel}
        def _start(self, coro, group_name="g", ignore_lock=True, end_callback=None, cancel_callback=None):
            return (coro, group_name, ignore_lock, end_callback, cancel_callback)
        def run(self, name):
            out = self._start("c", **self._options(name))
            self.end = "E2"
            return out, self._start("d", **self._options(group_name=name)), self._start(*["x", "y"])
    def main():
        return K().run("grp")
""", 0)

case("list(map(bound method, xs)) reads like the comprehension", """
    class K:
        def __init__(self):
            self.d = {1: "a", 2: "b"}
            self.seen = []
        def _get(self, i):
            self.seen.append(i)
            return self.d[i]
        def run(self, *ids):
            tasks = list(map(self._get, ids))
            return tasks, tuple(map(str, ids)), sorted(set(map(abs, ids))), self.seen
    def main():
        k = K()
        out = [k.run(1, 2), k.run()]
        try:
            k.run(2, 3, 1)
        except KeyError as e:
            out.append(("KeyError", e.args, k.seen))
        return out
""", 0)

case("pair assignment of pure reads split; bound-method alias then folded", """
    class K:
        def __init__(self):
            self.groups = {"a": {1, 2}, "b": {3}}
        def ids(self, *names):
            ids = set()
            groups, add = self.groups, ids.update
            x, y = 1, 2
            x, y = y, x
            for n in names:
                try:
                    add(groups[n])
                except KeyError:
                    raise LookupError(n) from None
            return sorted(ids), x, y
    def main():
        k = K()
        out = [k.ids("a", "b"), k.ids()]
        try:
            k.ids("a", "zz")
        except LookupError as e:
            out.append(e.args)
        return out
""", 0)

case("private read-only properties read like method calls", """
    class K:
        def __init__(self):
            self.a, self.b = {1: "x"}, {2: "y", 1: "z"}
        @property
        def _merged(self):
            out = dict(self.a)
            out.update(self.b)
            return out
        @property
        def _all(self):
            return [*self.a.values(), *self.b.values()]
        @property
        def public(self):
            return len(self._merged)
        def run(self):
            m = self._merged
            m[9] = "local copy only"
            return sorted(self._merged.items()), self._all, self.public, sorted(m)
    class Sub(K):
        def more(self):
            return len(self._all)
    def main():
        return K().run(), Sub().more()
""", 0)


case("consumer body continues; the yield is the tail of the generator's loop", '''
    def _drain(ids):
        while ids:
            yield ids.pop()
    def main():
        out = []
        table = {1: "a", 3: "c"}
        for i in _drain([3, 2, 1]):
            try:
                out.append(table[i])
            except KeyError:
                continue
            out.append(i)
        return out
''', 1)

case("consumer body continues but the generator goes on after the yield: not written out", '''
    def _drain(ids, log):
        while ids:
            yield ids.pop()
            log.append("resumed")
    def main():
        out, log = [], []
        for i in _drain([3, 2, 1], log):
            if i == 2:
                continue
            out.append(i)
        return out, log
''', 0)

case("private property with a setter: reads become calls, plain stores become setter calls", '''
    class Box:
        def __init__(self):
            self._inner = [0]
            self._level = 5
        @property
        def _level(self):
            print("get")
            return self._inner[0]
        @_level.setter
        def _level(self, value):
            print("set", value)
            self._inner[0] = value
        def bump(self, by):
            self._level = self._level + by
            return self._level
    def main():
        b = Box()
        return b.bump(2), b.bump(-10), b._inner
''', 0)

case("filtering generator, consumer continues: the generator's variables take the names of the loop targets", '''
    def _members(d, hide):
        for name, member in sorted(d.items()):
            if name in hide:
                continue
            if name.startswith("_"):
                continue
            yield name, member
    def main():
        out = {}
        for name, member in _members({"a": 1, "_b": 2, "c": "x", "d": 4, "zz": 5}, {"d"}):
            if isinstance(member, str):
                continue
            out[name] = member
        return out
''', 1)

case("the loop target is read after the loop: it keeps the last YIELDED value, not the generator's last", '''
    def _members(d):
        for name, member in sorted(d.items()):
            if name.startswith("_"):
                continue
            yield name, member
    def main():
        name = "none"
        seen = []
        for name, member in _members({"a": 1, "b": 2, "_z": 3}):
            seen.append(member)
        return name, seen
''', 1)

case("alias property (getter returns an attribute chain, setter stores into it): every access, augmented ones too, is the chain", '''
    class Sem:
        def __init__(self):
            self._value = 3
    class Box:
        def __init__(self):
            self._calls = 0
            self._sem = Sem()
        @property
        def _counter(self):
            """Index of the next group."""
            return self._calls
        @_counter.setter
        def _counter(self, value):
            self._calls = value
        @property
        def _room(self):
            return self._sem._value
        @_room.setter
        def _room(self, value):
            self._sem._value = value
        def bump(self):
            name = f"g-{self._counter}"
            self._counter += 1
            self._room -= 1
            self._room = self._room * 2
            return name, self._calls, self._sem._value
    def main():
        b = Box()
        return b.bump(), b.bump()
''', 0)

case("yield from in a collected generator, generator expression as its argument, set accumulator, bulk add", '''
    def _members(groups):
        for members in groups:
            yield from members
    class Pool:
        def __init__(self):
            self.table = {"a": {1, 2}, "b": {2, 3}, "c": set()}
            self.log = []
        def _get(self, name):
            self.log.append(name)
            try:
                return self.table[name]
            except KeyError:
                raise LookupError(name) from None
        def ids(self, *names):
            registers = (self._get(name) for name in names)
            return set(_members(registers))
    def main():
        p = Pool()
        out = [sorted(p.ids("a", "b")), sorted(p.ids()), sorted(p.ids("c", "a"))]
        try:
            p.ids("a", "zz", "b")
        except LookupError as e:
            out.append(("err", str(e)))
        return out, p.log
''', 1)

case("for over a generator expression with a condition; the body continues and breaks", '''
    def main():
        out = []
        seen = []
        def f(x):
            seen.append(x)
            return x * 10
        for v in (f(x) for x in range(8) if x % 2):
            if v == 30:
                continue
            if v == 70:
                break
            out.append(v)
        x = "outer"
        for a, b in ((i, x) for i in range(2)):
            out.append((a, b))
        return out, seen, x
''', 0)

case("loop over a module-level table of (predicate, method name) rows, getattr with the name from the row, return inside the loop", '''
    def _is_int(x):
        return isinstance(x, int)
    def _is_str(x):
        return isinstance(x, str)
    _TABLE = (
        (_is_int, "on_int"),
        (_is_str, "on_str"),
    )
    class H:
        def on_int(self, x):
            return ("int", x + 1)
        def on_str(self, x):
            return ("str", x.upper())
        def find(self, x):
            for pred, name in _TABLE:
                if pred(x):
                    handler = getattr(self, name)
                    return handler
            return None
        def run(self, x):
            h = self.find(x)
            if h is None:
                return ("none", x)
            return h(x)
    def main():
        h = H()
        return [h.run(1), h.run("a"), h.run(2.5)]
''', 0)

case("defaults collected in a local dictionary and applied by one loop read like setdefault at each store", '''
    def build(kind, default, variadic, **kwargs):
        derived = {}
        if default is None:
            names = ["pos"]
        else:
            names = ["--opt"]
            if kind is bool:
                derived["action"] = "store_true"
            else:
                derived["default"] = default
        if variadic:
            derived["nargs"] = "*"
        for key, value in derived.items():
            kwargs.setdefault(key, value)
        if kwargs.get("action") != "store_true":
            kwargs.setdefault("type", kind)
        return names, list(kwargs.items())
    def main():
        return [build(int, None, False), build(bool, False, False), build(int, 3, True, default=9, help="h"), build(str, "x", False, action="store_true")]
''', 0)

case("the collected defaults are read before they are applied: left alone", '''
    def build(flag, **kwargs):
        derived = {}
        if flag:
            derived["a"] = 1
        n = len(derived)
        for key, value in derived.items():
            kwargs.setdefault(key, value)
        return n, kwargs
    def main():
        return [build(True), build(False, a=5)]
''', 0)

# a generator imported from a sibling module (offered to normalise() by the program loader)
IMPORTED = textwrap.dedent('''
    def pop_until_empty(ids):
        while ids:
            yield ids.pop()
    def uses_a_global(ids):
        for i in ids:
            yield i + OFFSET
    OFFSET = 10
''')
XCASES = [("imported closed generator is written out; one that reads a module global is not", textwrap.dedent('''
    def main():
        out = []
        reg = {1, 2, 3}
        for i in pop_until_empty(reg):
            out.append(i)
        for j in uses_a_global([1, 2]):
            out.append(j)
        return sorted(out), reg
'''), 1)]


def run(tree, pre=None):
    buf = io.StringIO()
    ns = {}
    if pre is not None:
        exec(compile(pre, "<imported>", "exec"), ns)
    with contextlib.redirect_stdout(buf):
        try:
            exec(compile(tree, "<case>", "exec"), ns)
            res = repr(ns["main"]())
        except BaseException as e:  # noqa
            res = f"EXC {type(e).__name__}: {e}"
    return buf.getvalue(), res


case("record unpacked with **rec._asdict(): expanded to keywords", '''
    from typing import NamedTuple, Optional
    class Cbs(NamedTuple):
        end: Optional[int]
        cancel: Optional[int]
    def callee(x, *, flag=True, end=None, cancel=None):
        return (x, flag, end, cancel)
    def run(a, b):
        cbs = Cbs(end=a, cancel=b)
        out = []
        for i in range(2):
            out.append(callee(i, **cbs._asdict()))
        return out
    def rebound(a, b):
        cbs = Cbs(end=a, cancel=b)
        cbs = Cbs(end=None, cancel=None)
        return callee(0, **cbs._asdict())
    def clash(a, b):
        cbs = Cbs(end=a, cancel=b)
        try:
            return callee(0, end=5, **cbs._asdict())
        except TypeError as e:
            return "TypeError"
    def main():
        return [run(1, 2), rebound(1, 2), clash(1, 2)]
''', 0)


case("private module constants are inlined where they are not shadowed", '''
    _KEY = "type"
    _A, _B = 1, "b"
    _TWICE = 1
    _TWICE = 2
    PUBLIC = "p"
    def f(d):
        return d.get(_KEY), _A, _B, _TWICE, PUBLIC
    def g(_KEY):
        return _KEY
    def h():
        _A = 5
        return _A
    def k():
        return [(_B, x) for x in range(2)], (lambda _B: _B)(9)
    def main():
        return [f({"type": 3}), g(7), h(), k()]
''', 0)


case("strings are folded after private constants were written in", '''
    _PREFIX = "start-group"
    _SEP = "-"
    def name(n):
        return f"{_PREFIX}-{n}", _PREFIX + _SEP + str(n), f"{_PREFIX}{_SEP}"
    def shadow(_PREFIX):
        return f"{_PREFIX}-x"
    def main():
        return [name(3), shadow("p")]
''', 0)


def main():
    bad = 0
    for name, src, inlined in CASES:
        want = run(ast.parse(src))
        t = normalise(ast.parse(src))
        ast.fix_missing_locations(t)
        got = run(t)
        n = getattr(t, "_tpsa_gen_inlined", None)
        ok = want == got and n == inlined
        bad += not ok
        print(("ok      " if ok else "MISMATCH"), name, f"(inlined {n}, expected {inlined})")
        if want != got:
            print("   as written :", want)
            print("   normalised :", got)
            print(ast.unparse(t))
    from tpsa.normalise import closed_generators
    for name, src, inlined in XCASES:
        offered = closed_generators(ast.parse(IMPORTED))
        want = run(ast.parse(src), IMPORTED)
        t = normalise(ast.parse(src), dict(offered))
        ast.fix_missing_locations(t)
        got = run(t, IMPORTED)
        n = getattr(t, "_tpsa_gen_inlined", None)
        ok = want == got and n == inlined and sorted(offered) == ["pop_until_empty"]
        bad += not ok
        print(("ok      " if ok else "MISMATCH"), name, f"(inlined {n}, expected {inlined}; offered {sorted(offered)})")
        if want != got:
            print("   as written :", want)
            print("   normalised :", got)
            print(ast.unparse(t))
    print(f"{len(CASES) + len(XCASES)} cases, {bad} mismatches")
    return 1 if bad else 0


if __name__ == "__main__":
    sys.exit(main())
