#!/usr/bin/env python3
"""Differential test of the source normaliser itself (a tool test, not a MANIFEST check): toy modules are executed as written and
after `tpsa.normalise.normalise`; the traces (prints, results, exceptions) must be identical, and the passes that are expected to
fire must have fired / must have refused.  usage: test_normalise.py"""
import ast, io, os, sys, contextlib, textwrap

sys.path.insert(0, os.path.dirname(os.path.dirname(os.path.abspath(__file__))))
from tpsa.normalise import normalise

CASES = []


def case(name, src, inlined):
    CASES.append((name, textwrap.dedent(src), inlined))


case("generator with try/else yield, body returns", '''
    class K:
        @staticmethod
        def _gen(items, make, fail):
            for i, item in enumerate(items):
                try:
                    c = make(item)
                except Exception as e:
                    fail(e, item)
                else:
                    yield i, c
        def run(self, n):
            out = []
            def make(x):
                if x == 2:
                    raise ValueError(x)
                return x * 10
            def fail(e, x):
                out.append(("fail", type(e).__name__, x))
            for i, c in self._gen(range(n), make, fail):
                out.append((i, c))
                if c == 30:
                    return out
            out.append("end")
            return out
    def main():
        k = K()
        return [k.run(0), k.run(3), k.run(6)]
''', 1)

case("two yields, method generator using self, locals colliding with the caller's", '''
    class K:
        base = 7
        def _gen(self, xs):
            i = 0
            for x in xs:
                yield self.base + x
                i += 1
            yield -i
        def run(self, xs):
            i = 100
            acc = []
            for v in self._gen(xs):
                acc.append((i, v))
                i += 1
            return acc, i
    def main():
        return K().run([1, 2, 3]), K().run([])
''', 1)

case("module-level generator with default parameter and keyword argument", '''
    def _pairs(xs, start=0, *, step=1):
        k = start
        for x in xs:
            yield k, x
            k += step
    def main():
        out = []
        for k, x in _pairs("abc", step=2):
            out.append((k, x))
        for k, x in _pairs("ab", 5):
            out.append((k, x))
        return out
''', 2)

case("REFUSED: break in the loop body", '''
    def _g(xs):
        for x in xs:
            yield x
        print("exhausted")
    def main():
        out = []
        for x in _g([1, 2, 3]):
            if x == 2:
                break
            out.append(x)
        return out
''', 0)

case("REFUSED: continue in the loop body", '''
    def _g(xs):
        for x in xs:
            yield x
            print("after", x)
    def main():
        out = []
        for x in _g([1, 2, 3]):
            if x == 2:
                continue
            out.append(x)
        return out
''', 0)

case("REFUSED: yield under try body (handler must not see the consumer's exception)", '''
    def _g(xs):
        for x in xs:
            try:
                yield x
            except ValueError:
                print("swallowed")
    def main():
        out = []
        try:
            for x in _g([1, 2]):
                out.append(x)
                raise ValueError("consumer")
        except ValueError as e:
            out.append(str(e))
        return out
''', 0)

case("REFUSED: generator with return", '''
    def _g(xs):
        for x in xs:
            if x == 2:
                return
            yield x
    def main():
        out = []
        for x in _g([1, 2, 3]):
            out.append(x)
        else:
            out.append("else")
        return out
''', 0)

case("REFUSED: generator re-binds nothing but is referred to elsewhere (kept, still inlined in the loop)", '''
    def _g(xs):
        for x in xs:
            yield x * 2
    def main():
        out = list(_g([5]))
        for y in _g([1, 2]):
            out.append(y)
        return out
''', 1)

case("nested loop in body with its own break/continue is fine", '''
    def _g(xs):
        for x in xs:
            yield x
    def main():
        out = []
        for x in _g([1, 2, 3]):
            for j in range(5):
                if j == x:
                    break
                if j == 0:
                    continue
                out.append((x, j))
        return out
''', 1)

case("argument expressions evaluated once, in call order, before the first item", '''
    def _g(a, b):
        print("start", a, b)
        yield a
        yield b
    def _v(tag):
        print("eval", tag)
        return tag
    def main():
        out = []
        for x in _g(_v("A"), b=_v("B")):
            out.append(x)
        return out
''', 1)

case("exception raised by the generator itself propagates from the loop", '''
    def _g(xs):
        for x in xs:
            if x == 3:
                raise KeyError(x)
            yield x
    def main():
        out = []
        try:
            for x in _g([1, 2, 3, 4]):
                out.append(x)
        except KeyError as e:
            out.append(("KeyError", e.args))
        return out
''', 1)

case("other passes: folded temporaries, loop shapes, tail sinking, display loops, bound aliases, table methods", """
    class K:
        def __init__(self):
            self.a, self.b, self.log = [], [], []
        def _tables(self):
            return (self.a, self.b)
        def fill(self, xs):
            add = self.a.append
            for x in xs:
                _c = x % 2
                if _c:
                    add(x)
                    kind = "odd"
                else:
                    self.b.append(x)
                    kind = "even"
                self.log.append(kind)
            i = 0
            while True:
                if not i < 3:
                    break
                self.log.append(i)
                i += 1
            for t in self._tables():
                t.append("end")
            for name, reg in (("a", self.a), ("b", self.b)):
                self.log.append((name, len(reg)))
            _r = (self.a, self.b, self.log)
            return _r
    def main():
        return K().fill([1, 2, 3, 4, 5])
""", 0)


def run(tree):
    buf = io.StringIO()
    ns = {}
    with contextlib.redirect_stdout(buf):
        try:
            exec(compile(tree, "<case>", "exec"), ns)
            res = repr(ns["main"]())
        except BaseException as e:  # noqa
            res = f"EXC {type(e).__name__}: {e}"
    return buf.getvalue(), res


def main():
    bad = 0
    for name, src, inlined in CASES:
        want = run(ast.parse(src))
        t = normalise(ast.parse(src))
        ast.fix_missing_locations(t)
        got = run(t)
        n = getattr(t, "_tpsa_gen_inlined", None)
        ok = want == got and n == inlined
        bad += not ok
        print(("ok      " if ok else "MISMATCH"), name, f"(inlined {n}, expected {inlined})")
        if want != got:
            print("   as written :", want)
            print("   normalised :", got)
            print(ast.unparse(t))
    print(f"{len(CASES)} cases, {bad} mismatches")
    return 1 if bad else 0


if __name__ == "__main__":
    sys.exit(main())
