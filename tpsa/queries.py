"""Generic graph queries behind the rule templates (DOM, ALL-EXITS, ATOMIC, reachability)."""
from __future__ import annotations

import ast
from typing import Callable, Dict, FrozenSet, Iterable, List, Optional, Set, Tuple

from .cfg import CFG, NORMAL_KINDS, Analyzer, Label, Node
from .model import FuncInfo

EdgeFilter = Optional[Callable[[Node, Node, Label], bool]]
ALL = None


def normal_only(a: Node, b: Node, lab: Label) -> bool:
    return lab[0] in NORMAL_KINDS


def _succ(n: Node, ef: EdgeFilter):
    for s, lab in n.succ:
        if ef is None or ef(n, s, lab):
            yield s, lab


def _pred(n: Node, ef: EdgeFilter):
    for p, lab in n.pred:
        if ef is None or ef(p, n, lab):
            yield p, lab


def reach(starts: Iterable[Node], ef: EdgeFilter = ALL, avoid: Optional[Set[Node]] = None, include_starts: bool = True) -> Set[Node]:
    """Nodes reachable from `starts` (forward) without entering `avoid`."""
    avoid = avoid or set()
    seen: Set[Node] = set()
    stack = []
    for s in starts:
        if include_starts:
            if s not in avoid:
                stack.append(s)
        else:
            for t, _ in _succ(s, ef):
                if t not in avoid:
                    stack.append(t)
    while stack:
        n = stack.pop()
        if n in seen:
            continue
        seen.add(n)
        for t, _ in _succ(n, ef):
            if t not in seen and t not in avoid:
                stack.append(t)
    return seen


def reach_back(targets: Iterable[Node], ef: EdgeFilter = ALL, avoid: Optional[Set[Node]] = None, include_starts: bool = True) -> Set[Node]:
    avoid = avoid or set()
    seen: Set[Node] = set()
    stack = []
    for s in targets:
        if include_starts:
            if s not in avoid:
                stack.append(s)
        else:
            for t, _ in _pred(s, ef):
                if t not in avoid:
                    stack.append(t)
    while stack:
        n = stack.pop()
        if n in seen:
            continue
        seen.add(n)
        for t, _ in _pred(n, ef):
            if t not in seen and t not in avoid:
                stack.append(t)
    return seen


def live(g: CFG, ef: EdgeFilter = ALL) -> Set[Node]:
    return reach([g.entry], ef)


def dominated(g: CFG, a: Iterable[Node], b: Node, ef: EdgeFilter = normal_only) -> bool:
    """Every path entry -> b (edges per ef) passes through a node of `a`."""
    aset = set(a)
    if b in aset:
        return True
    return b not in reach([g.entry], ef, avoid=aset)


def can_follow(a: Node, b: Node, ef: EdgeFilter = ALL) -> bool:
    """Is there a path from (after) a to b?"""
    return b in reach([a], ef, include_starts=False)


def between(a: Iterable[Node], b: Iterable[Node], ef: EdgeFilter = ALL) -> Set[Node]:
    """Nodes strictly inside some path from a node of `a` to a node of `b` (a and b excluded,
    paths do not pass through a or b again)."""
    aset, bset = set(a), set(b)
    fwd = reach(aset, ef, avoid=bset | aset, include_starts=False)
    bwd = reach_back(bset, ef, avoid=aset | bset, include_starts=False)
    return fwd & bwd


def post_dominated(g: CFG, a: Node, b: Iterable[Node], ef: EdgeFilter = ALL, exits: Optional[Iterable[Node]] = None) -> bool:
    """Every path from a to an exit of the function passes through a node of `b`."""
    bset = set(b)
    ex = set(exits) if exits is not None else set(g.exits())
    r = reach([a], ef, avoid=bset, include_starts=False) if a not in bset else set()
    return not (r & ex)


def count_paths(
    an: Analyzer,
    f: FuncInfo,
    pred: Callable[[Node], bool],
    start: Optional[Node] = None,
    ef: EdgeFilter = ALL,
    interproc: bool = True,
    _memo: Optional[Dict] = None,
    _depth: int = 0,
    started: bool = False,
) -> Dict[Tuple, FrozenSet[int]]:
    """ALL-EXITS counting: for each exit of f, the set of possible numbers of executions
    (0, 1, 2 = 'two or more') of steps satisfying `pred` on paths from `start` (default: entry).

    Keys: ('ret', None) for the normal exit, (kind, tok) for exceptional exits.
    Steps that run a package callee (sync call / await of a coroutine call / async-with enter
    and exit) contribute the callee's own counts on the corresponding exit.
    """
    memo = _memo if _memo is not None else {}
    key = (f.qual, id(pred), id(start), id(ef), started)
    if start is None and key in memo:
        return memo[key]
    g = an.cfg(f)
    start = start or g.entry
    state: Dict[Node, Set[int]] = {start: {0}}
    work = [start]

    def callee_counts(n: Node) -> Optional[Dict[Tuple, FrozenSet[int]]]:
        if not interproc or _depth > 8 or n.inlined is not None:
            return None
        cal = None
        if n.op == "await" and n.awaited is not None and n.awaited.kind == "pkg":
            cal = n.awaited
        elif n.op == "call" and n.callee is not None and n.callee.kind == "pkg" and all(not t.is_async for t in n.callee.targets) \
                and not any(an.is_generator(t) for t in n.callee.targets):
            cal = n.callee
        elif n.op in ("enter", "exit_ctx") and n.callee is not None and n.callee.kind == "pkg":
            cal = n.callee
        if cal is None:
            return None
        merged: Dict[Tuple, Set[int]] = {}
        for t in cal.targets:
            sub = count_paths(an, t, pred, None, ef, True, memo, _depth + 1, started)
            for k, v in sub.items():
                merged.setdefault(k, set()).update(v)
        return {k: frozenset(v) for k, v in merged.items()}

    while work:
        n = work.pop()
        cur = state[n]
        own = 1 if pred(n) else 0
        cc = callee_counts(n)
        for s, lab in _succ(n, ef):
            if cc is not None:
                ck = ("ret", None) if lab[0] in NORMAL_KINDS else lab
                add = cc.get(ck)
                if add is None:
                    continue  # the callee cannot leave this way (under the edge filter in force)
            else:
                add = frozenset({0})
            # the step's own execution counts on its normal continuation; a step that raises
            # did not complete (a call that raised did not perform its effect)
            base_own = own if (lab[0] in NORMAL_KINDS or started) else 0
            new = {min(2, c + base_own + a) for c in cur for a in add}
            old = state.get(s)
            if old is None:
                state[s] = set(new)
                work.append(s)
            elif not new <= old:
                old |= new
                work.append(s)
    out: Dict[Tuple, FrozenSet[int]] = {}
    if g.exit in state:
        out[("ret", None)] = frozenset(state[g.exit])
    for (kind, tok), n in g.raise_exits.items():
        if n in state:
            out[(kind, tok)] = frozenset(state[n])
    if start is g.entry:
        memo[key] = out
    return out


def stmt_nodes(g: CFG, stmt: ast.AST) -> List[Node]:
    return [n for n in g.nodes if n.stmt is stmt]


def first_copy_only(nodes: Iterable[Node]) -> List[Node]:
    """Collapse finally-copies of the same AST step into one representative (for counting sites)."""
    seen = {}
    for n in nodes:
        k = (id(n.ast), n.op)
        if k not in seen:
            seen[k] = n
    return list(seen.values())
