"""E5/E6 — access paths, aliases and effects of evaluation steps."""
from __future__ import annotations

import ast
from dataclasses import dataclass
from typing import Dict, List, Optional, Set, Tuple

from .cfg import CFG, Analyzer, Node
from .model import FuncInfo
from .resolve import Callee, Scope, Ty

# (container kind, method) -> effect kind
_METHOD_EFFECT: Dict[Tuple[str, str], str] = {}
for _m, _k in {
    "__setitem__": "insert", "setdefault": "insert", "update": "insert", "pop": "remove", "popitem": "remove",
    "clear": "clear", "__delitem__": "remove", "get": "read", "values": "read", "keys": "read", "items": "read",
    "copy": "read", "__getitem__": "read", "__contains__": "read",
}.items():
    _METHOD_EFFECT[("dict", _m)] = _k
for _m, _k in {
    "add": "insert", "update": "insert", "pop": "remove", "discard": "remove", "remove": "remove", "clear": "clear",
    "difference_update": "remove", "intersection_update": "remove", "symmetric_difference_update": "remove",
    "copy": "read", "union": "read", "difference": "read", "__contains__": "read",
}.items():
    _METHOD_EFFECT[("set", _m)] = _k
for _m, _k in {
    "append": "insert", "extend": "insert", "insert": "insert", "pop": "remove", "remove": "remove", "clear": "clear",
    "copy": "read", "index": "read", "count": "read", "sort": "reorder", "reverse": "reorder",
}.items():
    _METHOD_EFFECT[("list", _m)] = _k
for _m, _k in {"acquire": "acquire", "release": "release", "locked": "read"}.items():
    _METHOD_EFFECT[("Semaphore", _m)] = _k
    _METHOD_EFFECT[("Lock", _m)] = _k
# private: since Python 3.11 it takes a slot on behalf of the next waiter and wakes it (value -= 1) without anybody having released one
_METHOD_EFFECT[("Semaphore", "_wake_up_next")] = "wake"
for _m, _k in {"set": "set", "clear": "clear", "is_set": "read", "wait": "wait"}.items():
    _METHOD_EFFECT[("Event", _m)] = _k
for _m, _k in {"cancel": "cancel", "done": "read", "cancelled": "read", "add_done_callback": "add_done_callback", "result": "read", "exception": "read"}.items():
    _METHOD_EFFECT[("Task", _m)] = _k
for _m, _k in {"write": "write", "seek": "seek", "truncate": "truncate", "getvalue": "read", "read": "read", "close": "close"}.items():
    _METHOD_EFFECT[("StringIO", _m)] = _k
    _METHOD_EFFECT[("IO", _m)] = _k
for _m, _k in {"write": "write", "close": "close", "drain": "drain", "wait_closed": "wait", "writelines": "write"}.items():
    _METHOD_EFFECT[("StreamWriter", _m)] = _k
for _m, _k in {"readline": "readline", "read": "readline", "readuntil": "readline", "readexactly": "readline"}.items():
    _METHOD_EFFECT[("StreamReader", _m)] = _k
for _m, _k in {"task_done": "task_done", "get": "get", "get_nowait": "get", "put": "put", "put_nowait": "put", "join": "wait"}.items():
    _METHOD_EFFECT[("Queue", _m)] = _k


@dataclass
class Effect:
    node: Node
    path: str  # normalised access path, e.g. 'self._tasks_running', 'self._task_groups[]', '<map_semaphore>'
    kind: str  # insert | remove | clear | assign | aug | read | acquire | release | set | cancel | ...
    container: str  # dict | set | list | Semaphore | Event | Task | attr | ...
    detail: str = ""

    def __repr__(self) -> str:
        return f"Effect({self.kind} {self.path} @{self.node.where()} {self.node.text(50)})"


def container_kind(an: Analyzer, t: Optional[Ty]) -> Optional[str]:
    if t is None:
        return None
    if t.head in ("dict", "set", "list", "Semaphore", "Lock", "Event", "Task", "StringIO", "IO", "StreamWriter", "StreamReader", "Queue"):
        return t.head
    if t.head in an.prog.classes:
        c = an.prog.classes[t.head]
        ext = an.prog.external_bases(c)
        for b in ext:
            if b in ("typing.MutableSet", "collections.abc.MutableSet", "typing.Set", "builtins.set"):
                return "set"
            if b in ("asyncio.queues.Queue", "asyncio.Queue"):
                return "Queue"
            if b in ("builtins.dict", "typing.Dict"):
                return "dict"
    return None


class Paths:
    """Normalised access paths with one-level alias resolution for locals."""

    def __init__(self, an: Analyzer, f: FuncInfo):
        self.an = an
        self.f = f
        self.sc: Scope = an.scope(f)
        self._busy: Set[str] = set()

    def of(self, e: Optional[ast.AST]) -> Optional[str]:
        if e is None:
            return None
        if isinstance(e, ast.Await):
            return self.of(e.value)
        if isinstance(e, ast.Name):
            return self._name(e.id)
        if isinstance(e, ast.Attribute):
            b = self.of(e.value)
            return None if b is None else f"{b}.{e.attr}"
        if isinstance(e, ast.Subscript):
            b = self.of(e.value)
            return None if b is None else f"{b}[]"
        if isinstance(e, ast.Starred):
            return self.of(e.value)
        if isinstance(e, (ast.GeneratorExp, ast.ListComp, ast.SetComp)):
            p = self.of(e.elt)
            if p is not None and p.endswith("[]"):
                return p[:-2]
            return None
        if isinstance(e, ast.Call):
            fn = e.func
            if isinstance(fn, ast.Attribute) and fn.attr in ("pop", "get", "setdefault", "popitem"):
                b = self.of(fn.value)
                if b is not None:
                    return f"{b}[]"
            if isinstance(fn, ast.Attribute) and fn.attr in ("values", "copy", "keys", "items"):
                return self.of(fn.value)
            if isinstance(fn, ast.Name) and fn.id in ("reversed", "iter", "list", "tuple", "sorted", "set", "enumerate", "dict") and len(e.args) == 1:
                return self.of(e.args[0])
            cal = self.sc.callee(e)
            if cal.kind == "pkg" and cal.targets:
                t = cal.targets[0]
                known = self.an.known_funcs
                if known is not None and t.qual not in known and len(cal.targets) == 1 and t.qual not in self._busy:
                    # a helper outside the frozen table: what it returns, when every return yields the same self-rooted path
                    self._busy.add(t.qual)
                    try:
                        sub = Paths(self.an, t)
                        rets = {sub.of(r.value) for r in sub.sc._own_nodes() if isinstance(r, ast.Return) and r.value is not None}
                    finally:
                        self._busy.discard(t.qual)
                    recv_self = isinstance(e.func, ast.Attribute) and isinstance(e.func.value, ast.Name) and e.func.value.id == self.sc.selfname
                    if len(rets) == 1 and None not in rets and recv_self:
                        p = next(iter(rets))
                        if p == "self" or p.startswith("self.") :
                            return p
                return f"<ret:{t.name}>"
            return None
        return None

    def is_copy(self, e: Optional[ast.AST], _depth: int = 0) -> bool:
        """e denotes a container created here as a copy / fresh display (mutating it does not touch what it was copied from)."""
        if e is None or _depth > 4:
            return False
        if isinstance(e, (ast.Dict, ast.Set, ast.List, ast.Tuple, ast.DictComp, ast.SetComp, ast.ListComp, ast.GeneratorExp)):
            return True
        if isinstance(e, ast.Call):
            fn = e.func
            if isinstance(fn, ast.Name) and fn.id in ("dict", "list", "set", "tuple", "sorted", "frozenset", "reversed", "OrderedDict"):
                return True
            if isinstance(fn, ast.Attribute) and fn.attr in ("copy", "union", "difference", "intersection"):
                return True  # (keys()/values()/items() and ChainMap(...) are live views, not copies)
            if id(e) in self.an.spliced_at:
                # a helper spliced in here that builds and returns a container of its own (`out = dict(a); out.update(b); return out`)
                t = self.an.spliced_at[id(e)]
                rets = [r.value for r in self.an.scope(t)._own_nodes() if isinstance(r, ast.Return)]
                return bool(rets) and all(r is not None and Paths(self.an, t).is_copy(r, _depth + 1) for r in rets)
            return False
        if isinstance(e, ast.BinOp) and isinstance(e.op, (ast.BitOr, ast.BitAnd, ast.Sub, ast.Add)):
            return True
        if isinstance(e, ast.Name):
            sc = self.sc
            if e.id in sc.params or e.id not in sc.defs:
                return False
            vals = []
            for h in sc.defs[e.id]:
                if h[0] == "assign":
                    vals.append(h[1])
                elif h[0] == "ann":
                    vals.append(h[2])
                else:
                    return False
            return bool(vals) and all(self.is_copy(v, _depth + 1) for v in vals)
        return False

    def _component(self, v: ast.AST, idx: int) -> Optional[str]:
        """path of component idx of a pair: a tuple display, or what a helper outside the frozen table returns as that component
        (every return a display of that length, all agreeing on one self-rooted path)"""
        if isinstance(v, ast.Await):
            v = v.value
        if isinstance(v, (ast.Tuple, ast.List)):
            if any(isinstance(x, ast.Starred) for x in v.elts) or not 0 <= idx < len(v.elts):
                return None
            return self.of(v.elts[idx])
        if isinstance(v, ast.Call):
            cal = self.sc.callee(v)
            known = self.an.known_funcs
            if cal.kind == "pkg" and len(cal.targets) == 1 and known is not None and cal.targets[0].qual not in known and cal.targets[0].qual not in self._busy:
                t = cal.targets[0]
                recv_self = isinstance(v.func, ast.Attribute) and isinstance(v.func.value, ast.Name) and v.func.value.id == self.sc.selfname
                self._busy.add(t.qual)
                try:
                    sub = Paths(self.an, t)
                    rets = [r.value for r in sub.sc._own_nodes() if isinstance(r, ast.Return)]
                    if not rets or any(r is None for r in rets):
                        return None
                    ps = {sub._component(r, idx) if isinstance(r, (ast.Tuple, ast.List)) else None for r in rets}
                finally:
                    self._busy.discard(t.qual)
                if len(ps) == 1 and None not in ps and recv_self:
                    p = next(iter(ps))
                    if p == "self" or p.startswith("self."):
                        return p
        return None

    def _name(self, name: str) -> Optional[str]:
        sc = self.sc
        if name == sc.selfname:
            return "self"
        if name in sc.params:
            return f"<{name}>"
        if name in sc.defs:
            if name in self._busy:
                return name
            hows = sc.defs[name]
            vals = []
            for h in hows:
                if h[0] == "assign":
                    vals.append(("v", h[1]))
                elif h[0] == "ann":
                    vals.append(("v", h[2]))
                elif h[0] == "iter":
                    vals.append(("i", h[1]))
                elif h[0] == "with":
                    vals.append(("v", h[1]))
                elif h[0] == "elt" and h[1][0] == "assign" and isinstance(h[2], int):
                    vals.append(("e", (h[1][1], h[2])))  # `a, b = <pair>`: component h[2] of the right-hand side
                else:
                    vals.append(("?", None))
            paths = set()
            self._busy.add(name)
            try:
                for k, v in vals:
                    if k == "v":
                        p = self.of(v)
                    elif k == "e":
                        p = self._component(v[0], v[1])
                    elif k == "i":
                        p = self.of(v)
                        p = None if p is None else f"{p}[]"
                    else:
                        p = None
                    paths.add(p)
            finally:
                self._busy.discard(name)
            if len(paths) == 1 and None not in paths:
                return paths.pop()
            if None in paths or paths == {name}:
                # a fresh object that this function files in a container: from then on it is an element of that container
                homes = set()
                for x in sc._own_nodes():
                    chained = isinstance(x, ast.Assign) and len(x.targets) > 1 and any(isinstance(t, ast.Name) and t.id == name for t in x.targets)
                    if (isinstance(x, (ast.Assign, ast.AnnAssign)) and isinstance(x.value, ast.Name) and x.value.id == name) or chained:
                        # `self._field = obj` after `obj = Ctor()`, or both at once: `self._field = obj = Ctor()`
                        for t in (x.targets if isinstance(x, ast.Assign) else [x.target]):
                            if isinstance(t, ast.Subscript):
                                self._busy.add(name)
                                try:
                                    b = self.of(t.value)
                                finally:
                                    self._busy.discard(name)
                                if b is not None:
                                    homes.add(b + "[]")
                            elif isinstance(t, ast.Attribute):
                                # `obj = Ctor(); self._field = obj`: from then on the local is that field
                                self._busy.add(name)
                                try:
                                    b = self.of(t)
                                finally:
                                    self._busy.discard(name)
                                if b is not None:
                                    homes.add(b)
                known = {q for q in paths if q is not None and q != name}
                if len(homes | known) == 1 and homes:
                    # (every other binding of the local already denotes an element of that same container: `x = D.get(k)` ... `x = D[k] = set()`)
                    return (homes | known).pop()
            return name
        if self.f.parent is not None:
            # closure variable: a parameter or local of the enclosing function
            outer = Paths(self.an, self.f.parent)
            return outer._name(name)
        return name


class Effects:
    def __init__(self, an: Analyzer):
        self.an = an
        self._cache: Dict[str, List[Effect]] = {}
        self._paths: Dict[str, Paths] = {}

    def paths(self, f: FuncInfo) -> Paths:
        p = self._paths.get(f.qual)
        if p is None:
            p = Paths(self.an, f)
            self._paths[f.qual] = p
        return p

    def of_node(self, n: Node) -> List[Effect]:
        out = self._of_node(n)
        if n.env:
            for e in out:
                e.path = self.rebase(e.path, n.func, n.env)
        return out

    def rebase(self, path: str, f: FuncInfo, env) -> str:
        """Rewrite a path rooted in a parameter of a spliced helper into the caller's terms."""
        if not env or path is None:
            return path
        import re

        m = re.match(r"<(\w+)>", path)
        root, rest = None, None
        if m and m.group(1) in env:
            root, rest = m.group(1), path[m.end():]
        else:
            sn = self.an.scope(f).selfname
            if sn is not None and sn in env and (path == "self" or path.startswith("self.") or path.startswith("self[")):
                root, rest = sn, path[4:]
        if root is None:
            return path
        caller, arg, cenv = env[root]
        base = self.paths(caller).of(arg)
        if base is None:
            return path
        return self.rebase(base, caller, cenv) + rest

    @staticmethod
    def _display_loop_var(sc, e: ast.AST):
        """the elements of the display when e is the variable of `for e in (x, y, z)` (its only binding), else None"""
        if not isinstance(e, ast.Name) or e.id in sc.params:
            return None
        hows = sc.defs.get(e.id, [])
        if len(hows) != 1 or hows[0][0] != "iter":
            return None
        it = hows[0][1]
        if isinstance(it, (ast.Tuple, ast.List)) and it.elts and not any(isinstance(x, ast.Starred) for x in it.elts):
            return list(it.elts)
        return None

    def _of_node(self, n: Node) -> List[Effect]:
        f = n.func
        P = self.paths(f)
        sc = self.an.scope(f)
        out: List[Effect] = []
        if n.op == "call" and n.callee is not None and n.callee.kind in ("ext", "unknown", "pkg", "user") and isinstance(n.ast, ast.Call):
            fn = n.ast.func
            if isinstance(fn, ast.Attribute):
                rt = sc.ty(fn.value)
                if (rt is None or rt.head in ("Any", "object")) and isinstance(fn.value, ast.Name) and n.env and fn.value.id in n.env and not sc.defs.get(fn.value.id):
                    # un-annotated parameter of a spliced helper: typed by what the caller passes
                    env, name = n.env, fn.value.id
                    for _ in range(6):
                        caller, arg, cenv = env[name]
                        rt2 = self.an.scope(caller).ty(arg)
                        if rt2 is not None and rt2.head not in ("Any", "object"):
                            rt = rt2
                            break
                        if isinstance(arg, ast.Name) and cenv and arg.id in cenv:
                            env, name = cenv, arg.id
                            continue
                        break
                ck = container_kind(self.an, rt)
                path = P.of(fn.value)
                elts = self._display_loop_var(sc, fn.value)
                if elts is not None:
                    # `for c in (self._a, self._b): c.clear()`: the step acts on each of the containers listed
                    for el in elts:
                        ck2 = container_kind(self.an, sc.ty(el))
                        p2 = P.of(el)
                        kind = _METHOD_EFFECT.get((ck2, fn.attr)) if ck2 is not None else None
                        if kind is not None and p2 is not None and not (kind in ("insert", "remove", "clear", "reorder") and P.is_copy(el)):
                            out.append(Effect(n, p2, kind, ck2, fn.attr))
                elif ck is not None:
                    kind = _METHOD_EFFECT.get((ck, fn.attr))
                    if kind is None and ck == "Semaphore":
                        kind = "sem-other"  # a method of the semaphore the rules know nothing about
                    if kind in ("insert", "remove", "clear", "reorder") and ck in ("dict", "set", "list") and P.is_copy(fn.value):
                        kind = None  # edits a private copy, not the container it was copied from
                    if kind is not None and path is not None:
                        out.append(Effect(n, path, kind, ck, fn.attr))
                elif ck is None and (rt is None or rt.head in ("Any", "UserValue", "object")) and n.callee.kind in ("unknown", "ext"):
                    path = path or "<expr>"
                    # untyped receiver: record by method name so who-may rules stay conservative
                    if fn.attr in ("cancel", "release", "acquire", "clear", "pop", "popitem", "add", "update", "discard", "remove", "close", "set", "task_done"):
                        out.append(Effect(n, path, "maybe-" + fn.attr, "?", fn.attr))
        if n.op == "exit_ctx" and isinstance(n.ast, ast.withitem):
            ce = n.ast.context_expr
            if isinstance(ce, ast.Call) and len(ce.args) == 1 and not ce.keywords and sc.callee(ce).name.endswith(("contextlib.closing", "contextlib.aclosing")):
                # `with closing(x):` - leaving the block, however it is left, calls x.close()
                tgt = ce.args[0]
                ck = container_kind(self.an, sc.ty(tgt))
                path = P.of(tgt)
                if path is not None:
                    kind = _METHOD_EFFECT.get((ck, "close")) if ck is not None else None
                    out.append(Effect(n, path, kind or "maybe-close", ck or "?", "close (contextlib.closing)"))
        if n.op == "call" and isinstance(n.ast, ast.Call):
            # a bound `<Task>.cancel` handed to a call as a value (ExitStack.callback, call_soon, partial ...): the cancellation
            # is committed here - whoever received it runs it without the look-ups and checks that follow in this function
            for a in list(n.ast.args) + [k.value for k in n.ast.keywords]:
                a = a.value if isinstance(a, ast.Starred) else a
                if isinstance(a, ast.Attribute) and a.attr == "cancel" and isinstance(a.ctx, ast.Load):
                    rt = sc.ty(a.value)
                    ck = container_kind(self.an, rt)
                    path = P.of(a.value) or "<expr>"
                    if ck == "Task":
                        out.append(Effect(n, path, "cancel", "Task", "cancel (bound method handed out)"))
                    elif ck is None and (rt is None or rt.head in ("Any", "UserValue", "object")):
                        out.append(Effect(n, path, "maybe-cancel", "?", "cancel (bound method handed out)"))
        if n.op in ("assign", "aug"):
            st = n.ast
            targets = st.targets if isinstance(st, ast.Assign) else [st.target]
            flat: List[ast.expr] = []
            for t in targets:
                if isinstance(t, (ast.Tuple, ast.List)):
                    flat += list(t.elts)
                else:
                    flat.append(t)
            for t in flat:
                if isinstance(t, ast.Attribute):
                    p = P.of(t)
                    if p is not None:
                        out.append(Effect(n, p, "aug" if n.op == "aug" else "assign", "attr", t.attr))
                elif isinstance(t, ast.Subscript):
                    p = P.of(t.value)
                    ck = container_kind(self.an, sc.ty(t.value)) or "?"
                    if p is not None and not P.is_copy(t.value):
                        out.append(Effect(n, p, "insert", ck, "__setitem__"))
        elif n.op == "del":
            for t in n.ast.targets:
                if isinstance(t, ast.Subscript):
                    p = P.of(t.value)
                    ck = container_kind(self.an, sc.ty(t.value)) or "?"
                    if p is not None and not P.is_copy(t.value):
                        out.append(Effect(n, p, "remove", ck, "__delitem__"))
                elif isinstance(t, ast.Attribute):
                    p = P.of(t)
                    if p is not None:
                        out.append(Effect(n, p, "assign", "attr", "del"))
        elif n.op == "subscript":
            p = P.of(n.ast.value)
            ck = container_kind(self.an, sc.ty(n.ast.value)) or "?"
            if p is not None:
                out.append(Effect(n, p, "read", ck, "__getitem__"))
        return out

    def of_func(self, f: FuncInfo) -> List[Effect]:
        if f.qual in self._cache:
            return self._cache[f.qual]
        g = self.an.cfg(f)
        out: List[Effect] = []
        seen = set()
        live, stack = {g.entry.id}, [g.entry]
        while stack:
            for s_, _l in stack.pop().succ:
                if s_.id not in live:
                    live.add(s_.id)
                    stack.append(s_)
        for n in g.nodes:
            if n.id not in live:
                continue  # unreachable copy
            for e in self.of_node(n):
                k = (id(e.node.ast), e.path, e.kind)
                if k in seen:
                    continue  # same AST step in another finally copy
                seen.add(k)
                out.append(e)
        self._cache[f.qual] = out
        return out

    def all(self) -> List[Effect]:
        out: List[Effect] = []
        for f in self.an.prog.all_functions():
            out += self.of_func(f)
        return out

    def attr_reads(self, f: FuncInfo) -> List[Tuple[str, ast.AST]]:
        """self-rooted attribute paths read anywhere in the function body (statement level)."""
        P = self.paths(f)
        out = []
        sc = self.an.scope(f)
        for n in sc._own_nodes():
            if isinstance(n, ast.Attribute) and isinstance(n.ctx, ast.Load):
                p = P.of(n)
                if p is not None and p.startswith("self."):
                    out.append((p, n))
        return out
