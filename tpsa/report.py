"""Obligations, verdicts, known findings, evidence files, exit codes."""
from __future__ import annotations

import ast
import json
import os
import re
import time
from dataclasses import dataclass, field
from typing import Any, Dict, List, Optional

from .cfg import Node
from .model import FuncInfo

VERIF = os.path.dirname(os.path.dirname(os.path.abspath(__file__)))
KNOWN_FILE = os.path.join(VERIF, "KNOWN_FINDINGS.txt")


def norm_construct(x) -> str:
    if x is None:
        return ""
    if isinstance(x, Node):
        return x.text(400)
    if isinstance(x, ast.AST):
        try:
            return " ".join(ast.unparse(x).split())[:400]
        except Exception:
            return type(x).__name__
    return " ".join(str(x).split())[:400]


@dataclass
class Obligation:
    rule: str
    what: str
    verdict: str  # ok | violation | inconclusive | info
    func: str = ""
    where: str = ""
    construct: str = ""
    detail: str = ""
    known: Optional[str] = None  # id of the matching known finding
    known_what: str = ""
    path: List[str] = field(default_factory=list)

    def key(self) -> str:
        return f"{self.rule}|{self.func}|{self.construct}"

    def to_json(self) -> Dict[str, Any]:
        d = {"rule": self.rule, "obligation": self.what, "verdict": self.verdict, "function": self.func, "at": self.where, "construct": self.construct}
        if self.detail:
            d["detail"] = self.detail
        if self.known:
            d["known_finding"] = self.known
        if self.path:
            d["path"] = self.path
        return d


@dataclass
class KnownFinding:
    fid: str
    prop: str
    rule: str
    site: str
    key: str
    what: str


def load_known() -> List[KnownFinding]:
    out: List[KnownFinding] = []
    if not os.path.exists(KNOWN_FILE):
        return out
    pat = re.compile(r"^finding:\s+id=(\S+)\s+property=(\S+)\s+rule=(\S+)\s+site=(\S+)\s+key=<<(.*?)>>\s+what=(.*)$")
    with open(KNOWN_FILE, encoding="utf-8") as fh:
        for line in fh:
            line = line.rstrip("\n")
            if not line.startswith("finding:"):
                continue
            m = pat.match(line)
            if not m:
                raise ValueError(f"malformed known-finding line: {line!r}")
            out.append(KnownFinding(*m.groups()))
    return out


class Report:
    def __init__(self, prop: str, tier: str, seed: int):
        self.prop = prop
        self.tier = tier
        self.seed = seed
        self.obs: List[Obligation] = []
        self.t0 = time.time()
        self.known = [k for k in load_known() if k.prop == prop]
        self.analysed: Dict[str, Any] = {}
        self.notes: List[str] = []
        self.rules_text: Dict[str, str] = {}

    # --------------------------------------------------------------- recording
    def rule(self, rid: str, text: str) -> None:
        self.rules_text.setdefault(rid, text)

    def ob(self, rule: str, what: str, ok, *, func: Optional[FuncInfo] = None, node=None, construct=None,
           detail: str = "", path: Optional[List[str]] = None) -> bool:
        """ok: True -> discharged; False -> violation; None -> inconclusive; 'info' -> informational."""
        if ok is True:
            verdict = "ok"
        elif ok is False:
            verdict = "violation"
        elif ok == "info":
            verdict = "info"
        else:
            verdict = "inconclusive"
        where = ""
        fq = ""
        if isinstance(node, Node):
            where = node.where()
            fq = node.func.qual
            if construct is None:
                construct = node
        if func is not None:
            fq = func.qual
            if not where:
                where = func.loc
        ob = Obligation(rule, what, verdict, fq, where, norm_construct(construct), detail, None, path or [])
        if verdict == "violation":
            for k in self.known:
                if k.rule == rule and k.site == fq and k.key == ob.construct:
                    ob.known = k.fid
                    ob.known_what = k.what
                    ob.detail = (ob.detail + " " if ob.detail else "") + f"[known finding {k.fid}]"
                    break
        self.obs.append(ob)
        return verdict == "ok"

    def floor(self, rule: str, what: str, count: int, minimum: int) -> bool:
        """Fail closed when a rule matches fewer instances than were confirmed by hand."""
        if count < minimum:
            self.obs.append(Obligation(rule, f"instance floor: {what}", "inconclusive", detail=f"found {count}, expected at least {minimum}: the rule may have gone blind"))
            return False
        self.obs.append(Obligation(rule, f"instance floor: {what}", "ok", detail=f"{count} >= {minimum}"))
        return True

    # ----------------------------------------------------------------- results
    def violations(self) -> List[Obligation]:
        return [o for o in self.obs if o.verdict == "violation" and not o.known]

    def known_hits(self) -> List[Obligation]:
        return [o for o in self.obs if o.verdict == "violation" and o.known]

    def inconclusive(self) -> List[Obligation]:
        return [o for o in self.obs if o.verdict == "inconclusive"]

    def code(self) -> int:
        if self.violations():
            return 1
        if self.inconclusive():
            return 2
        return 0

    def finish(self, level: str = "other", write: bool = True) -> int:
        if not write:
            return self.code()
        ev_dir = os.environ.get("TPSA_EVIDENCE_DIR") or os.path.join(VERIF, "evidence")  # (a scratch tree given with --repo reports into a scratch directory)
        os.makedirs(os.path.join(ev_dir, "replay"), exist_ok=True)
        viol, known, inc = self.violations(), self.known_hits(), self.inconclusive()
        # replay files
        for old in os.listdir(os.path.join(ev_dir, "replay")):
            if old.startswith(self.prop + "-"):
                try:
                    os.remove(os.path.join(ev_dir, "replay", old))
                except OSError:
                    pass
        lines: List[str] = []
        printed_known = set()
        for o in known:
            if (o.known, o.rule, o.func) in printed_known:
                continue
            printed_known.add((o.known, o.rule, o.func))
            lines.append(f"KNOWN-FINDING: property={self.prop} {o.known} {o.known_what} [{o.rule} {o.func} at {o.where}: {o.construct}]")
        for i, o in enumerate(viol):
            rp = os.path.join(ev_dir, "replay", f"{self.prop}-{i}.json")
            with open(rp, "w", encoding="utf-8") as fh:
                json.dump({"property": self.prop, "tier": self.tier, **o.to_json(),
                           "replay": f"bin/tpsa explain {os.path.relpath(rp, VERIF)}"}, fh, indent=1)
            lines.append(f"{o.where}: {o.rule} [{o.func}] {o.what}: {o.construct}" + (f" ({o.detail})" if o.detail else ""))
            lines.append(f"VIOLATION property={self.prop} replay={rp}")
        for o in inc:
            lines.append(f"ANALYSIS-INCONCLUSIVE property={self.prop} {o.rule} {o.func} {o.where}: {o.what}" + (f" ({o.detail})" if o.detail else ""))
        total = [o for o in self.obs if o.verdict != "info"]
        discharged = [o for o in total if o.verdict == "ok" or o.known]
        distinct = {o.key() for o in total if o.construct or o.func}
        samples = [o.to_json() for o in (viol + known + [o for o in self.obs if o.verdict == "ok" and o.construct])[:12]]
        if not samples:
            samples = [o.to_json() for o in self.obs[:5]]
        wall = time.time() - self.t0
        evidence = {
            "property_id": self.prop,
            "tier": self.tier,
            "seed": self.seed,
            "level": level,
            "coverage": {
                "explanation": "Static analysis of /repo's working tree (no execution). Rules applied: "
                + "; ".join(f"{k}: {v}" for k, v in sorted(self.rules_text.items())),
                "obligations": len(total),
                "discharged": len(discharged),
                "evaluations": len(total),
                "distinct_nontrivial": len(distinct),
                "rule": "one obligation per (rule, function, construct) instance found in the current source; "
                        "non-trivial = the instance examined at least one concrete construct (file:line) of the tree; "
                        "distinct = distinct (rule, function, construct) keys",
                "samples": samples,
                "checker_cmd": f"bin/tpsa check {self.prop} --tier {self.tier}",
                "trusted_base": [
                    "CPython ast module and exception hierarchy",
                    "documented semantics of asyncio Semaphore/Lock/Event/Task/gather/Queue/start_server, contextlib.suppress, argparse, inspect.signature",
                    "the effect table (tpsa/effects.py) and may-raise table (tpsa/cfg.py): logging, len, str and f-strings of plain values do not raise",
                    "user code reaches the library only through calls of parameters / stored callables and iteration of a parameter",
                ],
                "exhaustive": True,
                "analysed": self.analysed,
                "known_findings_reported": sorted({o.known for o in known}),
                "inconclusive": [o.to_json() for o in inc],
                "all_obligations": [o.to_json() for o in self.obs],
                "notes": self.notes,
            },
            "assumptions": [
                "asyncio is cooperative: control changes hands only at await / async with / async for",
                "private anchors (_start_task, _task_wrapper, _task_ending, registries) keep their names; a vanished anchor is an analysis error (exit 2), never a pass",
            ],
            "wall_s": round(wall, 3),
            "violations": len(viol),
        }
        with open(os.path.join(ev_dir, f"{self.prop}.json"), "w", encoding="utf-8") as fh:
            json.dump(evidence, fh, indent=1, default=str)
        for ln in lines:
            print(ln)
        print(f"[{self.prop} {self.tier}] obligations={len(total)} discharged={len(discharged)} violations={len(viol)} "
              f"known={len(known)} inconclusive={len(inc)} wall={wall:.2f}s")
        if viol:
            return 1
        if inc:
            return 2
        return 0
