"""Thorough-tier extras shared by all properties: independent resolver cross-check (mypy), fail-closed inventory of
unresolved calls / dynamic attribute access in the modules the property's rules read, and the checker self-test tally."""
from __future__ import annotations

import ast
import concurrent.futures as cf
from typing import Dict, List

from .rules.lib import Ctx

MODULES = {
    **{f"C{i:02d}": ["pool", "internals.helpers", "internals.group_register"] for i in range(1, 16)},
    "C16": ["control.parser", "control.session", "internals.helpers", "pool"],
    "C17": ["control.parser", "control.session", "internals.helpers", "pool"],
    "C18": ["control.parser", "control.session", "control.server", "internals.helpers"],
    "C19": ["control.server", "control.session", "control.client"],
    "C20": ["queue_context"],
}
# method names that are harmless on a receiver whose type the light inference cannot determine (str / list / dict API)
BENIGN = {"strip", "decode", "encode", "lower", "upper", "replace", "startswith", "endswith", "split", "join", "format", "append", "values", "items", "keys",
          "add", "pop", "get", "setdefault", "update", "close", "add_argument", "add_parser", "set_defaults", "add_subparsers", "parse_args", "start", "copy", "extend"}


def extras(ctx: Ctx, prop: str) -> None:
    rep = ctx.rep
    mods = MODULES.get(prop, [])
    rep.rule("T.RESOLVE", "thorough: every receiver type the analyser assigned to an attribute call in the modules this property reads is compared with the type "
                          "mypy (the repository's own dev dependency, used as a library) exports for the same source span; a disagreement is an analysis error")
    from .mypycheck import cross_check
    res = cross_check(ctx.prog, ctx.an, mods)
    if res is None:
        rep.notes.append("mypy is not importable in this interpreter: resolver cross-check skipped")
        rep.analysed["resolver_cross_check"] = "mypy unavailable"
    else:
        rep.analysed["resolver_cross_check"] = res
        rep.ob("T.RESOLVE", "the analyser's receiver types agree with mypy's", True if res["disagree"] == 0 else None, construct=f"{res['agree']}/{res['compared']} receivers agree",
               detail="; ".join(p[:200] for p in res["problems"][:3]))
    # unresolved calls / dynamic attribute access (fail closed)
    rep.rule("T.UNRESOLVED", "thorough: no call in the modules this property reads has an unknown callee (beyond str/list/dict API on untyped values) and none of "
                             "them uses getattr/setattr/__dict__/vars() on a pool or session object, which would bypass the who-may tables")
    unknown: List[str] = []
    dynamic: List[str] = []
    n_calls = 0
    for f in ctx.prog.all_functions():
        if f.module.name not in mods:
            continue
        sc = ctx.an.scope(f)
        for node in sc._own_nodes():
            if not isinstance(node, ast.Call):
                continue
            n_calls += 1
            cal = sc.callee(node)
            if cal.kind == "unknown":
                meth = cal.name.rpartition(".")[2]
                if meth not in BENIGN:
                    unknown.append(f"{f.module.relpath}:{node.lineno} {ast.unparse(node.func)[:50]}")
            if cal.kind == "ext" and cal.name in ("builtins.setattr", "builtins.delattr", "builtins.vars", "builtins.getattr", "builtins.globals", "builtins.locals", "builtins.exec", "builtins.eval"):
                arg0 = node.args[0] if node.args else None
                selfish = isinstance(arg0, ast.Name) and arg0.id in ("self", "cls") or (isinstance(arg0, ast.Attribute) and ast.unparse(arg0) in ("self._pool",))
                if cal.name in ("builtins.exec", "builtins.eval", "builtins.globals", "builtins.locals") or selfish:
                    dynamic.append(f"{f.module.relpath}:{node.lineno} {ast.unparse(node)[:60]}")
        for node in sc._own_nodes():
            if isinstance(node, ast.Attribute) and node.attr == "__dict__" and isinstance(node.value, ast.Name) and node.value.id in ("self", "cls"):
                dynamic.append(f"{f.module.relpath}:{node.lineno} {ast.unparse(node)}")
    rep.analysed["calls_resolved"] = {"calls": n_calls, "unknown": unknown, "dynamic": dynamic}
    rep.ob("T.UNRESOLVED", "every call the rules may depend on is resolved", True if not unknown else None, construct=f"{n_calls} calls, {len(unknown)} unresolved", detail="; ".join(unknown[:4]))
    rep.ob("T.UNRESOLVED", "no dynamic attribute access on the pool/session object", True if not dynamic else None, construct=f"{len(dynamic)} dynamic accesses", detail="; ".join(dynamic[:4]))
    # checker self-test tally (recorded, never affects the verdict)
    try:
        from .selftest import run_variant
        from .variants import VARIANTS
        mine = []
        for v in VARIANTS:
            if prop in v["expect"]:
                mine.append({**v, "props": [prop], "expect": {prop: v["expect"][prop]}})
        killed = total_break = silent = total_keep = 0
        details: Dict[str, str] = {}
        with cf.ProcessPoolExecutor(max_workers=16) as ex:
            for v, r in zip(mine, ex.map(run_variant, mine)):
                want = v["expect"][prop]
                if "error" in r:
                    details[v["name"]] = "not applicable to this tree: " + r["error"][:80]
                    continue
                got = r["results"][prop]
                if want == "ok":
                    total_keep += 1
                    silent += got["code"] == 0
                    details[v["name"]] = f"preserving: exit {got['code']}"
                elif want != "any":
                    total_break += 1
                    hit = got["code"] == 1
                    killed += hit
                    details[v["name"]] = f"breaking: exit {got['code']} " + (got["violations"][0][:90] if got["violations"] else "")
        rep.analysed["selftest"] = {"breaking_variants_reported": f"{killed}/{total_break}", "preserving_variants_silent": f"{silent}/{total_keep}", "variants": details}
        rep.notes.append(f"self-test on scratch copies of the current tree: {killed}/{total_break} breaking variants reported, {silent}/{total_keep} preserving variants silent (recorded only)")
    except Exception as e:  # the tally must never influence a verdict
        rep.notes.append(f"self-test tally not available: {type(e).__name__}: {e}")
