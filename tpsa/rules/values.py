"""Local value resolution shared by the rules: which expressions may a local name stand for.

Flow-insensitive, per function: a name that is bound exactly once (and never augmented / deleted) stands for its
defining expression; a name bound several times stands for any of them (`alts`).  Conditional expressions contribute
both arms.  Parameters are leaves (a parameter that is also re-bound contributes itself and its re-bindings).
"""
from __future__ import annotations

import ast
import copy
from typing import Dict, List, Optional

from ..cfg import strip_cast
from ..model import FuncInfo


def _own_nodes(fn: ast.AST):
    stack = list(reversed(fn.body))
    while stack:
        n = stack.pop()
        if isinstance(n, (ast.FunctionDef, ast.AsyncFunctionDef, ast.ClassDef, ast.Lambda)):
            continue
        yield n
        stack.extend(reversed(list(ast.iter_child_nodes(n))))


class Values:
    def __init__(self, an):
        self._assume = None
        self.an = an
        self.keep_fresh = False  # trace(): stop at the variable holding a freshly created value instead of at the display
        self._aug: Dict[str, set] = {}

    def _augmented(self, f: FuncInfo) -> set:
        if f.qual not in self._aug:
            s = set()
            for n in _own_nodes(f.node):
                if isinstance(n, ast.AugAssign) and isinstance(n.target, ast.Name):
                    s.add(n.target.id)
                elif isinstance(n, ast.Delete):
                    s |= {t.id for t in n.targets if isinstance(t, ast.Name)}
                elif isinstance(n, (ast.Global, ast.Nonlocal)):
                    s |= set(n.names)
            self._aug[f.qual] = s
        return self._aug[f.qual]

    def bindings(self, f: FuncInfo, name: str) -> Optional[List[ast.AST]]:
        """Value expressions bound to local `name` in f by plain assignment; None when some binding is not a plain value
        (loop target, with-target, tuple element, augmented...)."""
        sc = self.an.scope(f)
        if name in self._augmented(f):
            return None
        hows = sc.defs.get(name)
        if not hows:
            return None
        out = []
        for h in hows:
            if h[0] == "assign":
                out.append(h[1])
            elif h[0] == "ann":
                out.append(h[2])
            else:
                return None
        return out

    def alts(self, f: FuncInfo, e: ast.AST, _busy: Optional[set] = None) -> List[ast.AST]:
        """Leaf expressions `e` may evaluate to (through single/multiple plain bindings of locals and conditional
        expressions); a leaf is anything that is not a resolvable local name."""
        _busy = set() if _busy is None else _busy
        e = strip_cast(e)
        if isinstance(e, ast.IfExp):
            return self.alts(f, e.body, _busy) + self.alts(f, e.orelse, _busy)
        if isinstance(e, ast.Name):
            sc = self.an.scope(f)
            if e.id in _busy:
                return []
            bs = self.bindings(f, e.id)
            if bs is None:
                return [e]
            out: List[ast.AST] = [e] if e.id in sc.params else []
            _busy = _busy | {e.id}
            for b in bs:
                out += self.alts(f, b, _busy)
            return out or [e]
        return [e]

    def resolve(self, f: FuncInfo, e: ast.AST) -> ast.AST:
        """The single expression `e` stands for (follows once-bound locals), else e itself."""
        e = strip_cast(e)
        seen = set()
        while isinstance(e, ast.Name) and e.id not in seen:
            seen.add(e.id)
            sc = self.an.scope(f)
            if e.id in sc.params:
                break
            bs = self.bindings(f, e.id)
            if bs is None or len(bs) != 1:
                break
            e = strip_cast(bs[0])
        return e

    def trace(self, f: FuncInfo, env, e: ast.AST, _depth: int = 0):
        """Follow a value to where it comes from, across frames of spliced helpers: once-bound locals to their value,
        a helper's parameter to the caller's argument, a call of a spliced helper to what all its returns return.
        Returns (frame function, frame env, leaf expression); two expressions denote the same value when their leaves
        are the same AST node."""
        if id(e) in self.an.syn_arg_frame:
            f, env = self.an.syn_arg_frame[id(e)]
        from ..cfg import bind_args

        e = strip_cast(e)
        if _depth > 16:
            return f, env, e
        if isinstance(e, ast.Name):
            sc = self.an.scope(f)
            bs = self.bindings(f, e.id)
            if e.id in sc.params:
                if not sc.defs.get(e.id) and e.id not in self._augmented(f) and env and e.id in env:
                    caller, arg, cenv = env[e.id]
                    return self.trace(caller, cenv, arg, _depth + 1)
                return f, env, e
            hows = sc.defs.get(e.id, [])
            if len(hows) == 1 and hows[0][0] == "iter" and e.id not in self._augmented(f):
                # `for x in (y,)`: the loop variable is y
                fr2, env2, it = self.trace(f, env, hows[0][1], _depth + 1)
                if isinstance(it, (ast.Tuple, ast.List)) and len(it.elts) == 1 and not isinstance(it.elts[0], ast.Starred):
                    return self.trace(fr2, env2, it.elts[0], _depth + 1)
            if bs is not None:
                # `x = None` placeholders before the real binding do not count
                real = [b for b in bs if not (isinstance(b, ast.Constant) and b.value is None)]
                if len(real) == 1:
                    if self.keep_fresh and isinstance(strip_cast(real[0]), (ast.List, ast.Dict, ast.Set, ast.Tuple, ast.Constant, ast.ListComp, ast.DictComp, ast.SetComp)):
                        return f, env, e  # the variable that holds a value created here
                    return self.trace(f, env, real[0], _depth + 1)
            if len(hows) == 1 and hows[0][0] == "elt" and hows[0][1][0] == "assign" and isinstance(hows[0][2], int) and e.id not in self._augmented(f) \
                    and isinstance(strip_cast(hows[0][1][1]), (ast.Call, ast.Await, ast.Name, ast.Attribute)):
                # `a, b = <tuple / record built elsewhere>`
                fr2, env2, rec = self.trace(f, env, hows[0][1][1], _depth + 1)
                comp = self._component(fr2, rec, hows[0][2])
                if comp is not None:
                    return self.trace(fr2, env2, comp, _depth + 1)
            return f, env, e
        if isinstance(e, ast.Await) and isinstance(strip_cast(e.value), ast.Call) and id(strip_cast(e.value)) in self.an.spliced_at:
            # awaiting a coroutine helper that is spliced in: what it returns
            return self.trace(f, env, strip_cast(e.value), _depth + 1)
        if isinstance(e, ast.Call):
            t = self.an.spliced_at.get(id(e))
            if t is not None:
                rets = self._live_returns(e, t)
                sub = bind_args(e, t, f, env)
                leaves = [self.trace(t, sub, r, _depth + 1) for r in rets]
                if leaves and all(x[2] is leaves[0][2] for x in leaves):
                    return leaves[0]
            return f, env, e
        if isinstance(e, ast.Attribute) or (isinstance(e, ast.Subscript) and isinstance(e.slice, ast.Constant) and isinstance(e.slice.value, int)):
            # a component of a record / tuple built elsewhere: `positional.normal`, `pair[0]`
            fr2, env2, rec = self.trace(f, env, e.value, _depth + 1)
            if isinstance(rec, ast.Name):
                # a module-level record constant: `_MAP = _MapVariant(prefix="map", arg_stars=0)`
                mv = self.module_value(fr2, rec)
                if mv is not None:
                    rec = mv
            comp = self._component(fr2, rec, e.attr if isinstance(e, ast.Attribute) else e.slice.value)
            if comp is not None:
                return self.trace(fr2, env2, comp, _depth + 1)
            return f, env, e
        return f, env, e

    def record_fields(self, f: FuncInfo, call: ast.AST) -> Optional[List[str]]:
        """field names, in order, when `call` constructs a NamedTuple / dataclass of the package"""
        if not isinstance(call, ast.Call):
            return None
        try:
            cal = self.an.scope(f).callee(call)
        except Exception:
            return None
        cls = getattr(cal, "cls", None)
        if cls is None:
            return None
        is_rec = any(ast.unparse(b).rpartition(".")[2] == "NamedTuple" for b in cls.base_exprs) or \
            any(ast.unparse(d.func if isinstance(d, ast.Call) else d).rpartition(".")[2] == "dataclass" for d in cls.node.decorator_list)
        if not is_rec:
            return None
        return [st.target.id for st in cls.node.body if isinstance(st, ast.AnnAssign) and isinstance(st.target, ast.Name)]

    def _component(self, f: FuncInfo, rec: ast.AST, which) -> Optional[ast.AST]:
        """the expression filed as component `which` (field name or position) of the tuple display / record construction rec"""
        rec = strip_cast(rec)
        if isinstance(rec, (ast.Tuple, ast.List)) and isinstance(which, int):
            if any(isinstance(x, ast.Starred) for x in rec.elts) or not -len(rec.elts) <= which < len(rec.elts):
                return None
            return rec.elts[which]
        fields = self.record_fields(f, rec)
        if fields is None:
            return None
        if isinstance(which, int):
            if not 0 <= which < len(fields):
                return None
            which = fields[which]
        if which not in fields or any(isinstance(a, ast.Starred) for a in rec.args) or any(k.arg is None for k in rec.keywords):
            return None
        i = fields.index(which)
        if i < len(rec.args):
            return rec.args[i]
        for k in rec.keywords:
            if k.arg == which:
                return k.value
        return None

    def leaves(self, f: FuncInfo, env, e: ast.AST, _depth: int = 0, _busy: Optional[frozenset] = None):
        """Every leaf expression `e` may evaluate to, across frames: all plain bindings of a local, both arms of a conditional
        expression, the caller's argument for a helper's parameter, every `return` of a spliced helper.
        -> [(frame function, frame env, leaf expression)]"""
        if id(e) in self.an.syn_arg_frame:
            f, env = self.an.syn_arg_frame[id(e)]
        from ..cfg import bind_args

        _busy = _busy or frozenset()
        e = strip_cast(e)
        if _depth > 12:
            return [(f, env, e)]
        if isinstance(e, ast.IfExp):
            return self.leaves(f, env, e.body, _depth + 1, _busy) + self.leaves(f, env, e.orelse, _depth + 1, _busy)
        if isinstance(e, ast.Name):
            sc = self.an.scope(f)
            key = (f.qual, e.id)
            if key in _busy:
                return []
            if self._assume and key in self._assume:
                # the step asked about was built for one particular value the helper returned into this local
                t_, tenv_, v_ = self._assume[key]
                return self.leaves(t_, tenv_, v_, _depth + 1, _busy | {key})
            out = []
            if e.id in sc.params:
                if env and e.id in env and e.id not in self._augmented(f):
                    caller, arg, cenv = env[e.id]
                    out += self.leaves(caller, cenv, arg, _depth + 1, _busy)
                else:
                    out.append((f, env, e))
                if not sc.defs.get(e.id):
                    return out
            if e.id in self._augmented(f):
                return out or [(f, env, e)]
            for h in sc.defs.get(e.id, []):
                if h[0] == "assign":
                    out += self.leaves(f, env, h[1], _depth + 1, _busy | {key})
                elif h[0] == "ann":
                    out += self.leaves(f, env, h[2], _depth + 1, _busy | {key})
                elif h[0] == "elt" and h[1][0] == "assign" and isinstance(h[2], int):
                    # `a, b = <tuple / record built elsewhere>`: the component, for every alternative of the right-hand side
                    got = False
                    for fr2, env2, rec in self.leaves(f, env, h[1][1], _depth + 1, _busy | {key}):
                        comp = self._component(fr2, rec, h[2])
                        if comp is not None:
                            out += self.leaves(fr2, env2, comp, _depth + 1, _busy | {key})
                            got = True
                    if not got:
                        out.append((f, env, e))
                else:
                    out.append((f, env, e))
            return out or [(f, env, e)]
        if isinstance(e, ast.Await) and isinstance(strip_cast(e.value), ast.Call) and id(strip_cast(e.value)) in self.an.spliced_at:
            return self.leaves(f, env, strip_cast(e.value), _depth + 1, _busy)
        if isinstance(e, ast.Attribute) or (isinstance(e, ast.Subscript) and isinstance(e.slice, ast.Constant) and isinstance(e.slice.value, int)):
            out = []
            for fr2, env2, rec in self.leaves(f, env, e.value, _depth + 1, _busy):
                comp = self._component(fr2, rec, e.attr if isinstance(e, ast.Attribute) else e.slice.value)
                if comp is None:
                    return [(f, env, e)]
                out += self.leaves(fr2, env2, comp, _depth + 1, _busy)
            return out or [(f, env, e)]
        if isinstance(e, ast.Call):
            t = self.an.spliced_at.get(id(e))
            if t is not None:
                rets = self._live_returns(e, t)
                sub = bind_args(e, t, f, env)
                out = []
                for r in rets:
                    out += self.leaves(t, sub, r, _depth + 1, _busy)
                if out:
                    return out
        return [(f, env, e)]

    def _live_returns(self, call: ast.AST, t: FuncInfo) -> List[ast.AST]:
        """values of the `return`s of helper t that can be reached from this call site (arms ruled out by the literal flags the call
        passes were never built into the caller's flow graph)"""
        rs = [r for r in _own_nodes(t.node) if isinstance(r, ast.Return) and r.value is not None]
        live = self.an.live_returns.get(id(call))
        if live:
            kept = [r for r in rs if id(r) in live]
            if kept:
                rs = kept
        return [r.value for r in rs]

    def leaves_at(self, node, e: ast.AST):
        """leaves(...) of an expression evaluated at a CFG step, honouring the return-value assumptions the step was built under"""
        self._assume = getattr(node, "assume", None)
        try:
            return self.leaves(node.func, node.env, e)
        finally:
            self._assume = None

    def trace_var(self, f: FuncInfo, env, e: ast.AST):
        """trace(), but a value created on the spot (a display, a constant) is represented by the variable that holds it"""
        saved, self.keep_fresh = self.keep_fresh, True
        try:
            return self.trace(f, env, e)
        finally:
            self.keep_fresh = saved

    def canon_at(self, f: FuncInfo, env, e: ast.AST, _depth: int = 0) -> str:
        """canon() seen from the root function: parameters of a spliced helper are replaced by what the caller passed."""
        txt = self.canon(f, e)
        if not env or _depth > 6:
            return txt
        sc = self.an.scope(f)
        tree = ast.parse(txt, mode="eval").body
        vals = self

        class Sub(ast.NodeTransformer):
            def visit_Name(self, n: ast.Name):
                if isinstance(n.ctx, ast.Load) and n.id in env and n.id in sc.params and not sc.defs.get(n.id):
                    caller, arg, cenv = env[n.id]
                    return ast.parse(vals.canon_at(caller, cenv, arg, _depth + 1), mode="eval").body
                return n

        return " ".join(ast.unparse(Sub().visit(tree)).split())

    def canon_call(self, f: FuncInfo, env, e: ast.AST, _depth: int = 0) -> str:
        """canon_at, with every call of a spliced helper that consists of a single `return <expr>` replaced by that expression
        (also when the call is an operand of a larger expression: `f"--{_dashed(parameter.name)}"`)"""
        from ..cfg import bind_args

        e = strip_cast(e)
        if isinstance(e, ast.Name):
            e = self.resolve(f, e)
        t = self.an.spliced_at.get(id(e)) if isinstance(e, ast.Call) else None
        if t is not None and _depth < 6:
            body = [st for st in t.node.body if not (isinstance(st, ast.Expr) and isinstance(st.value, ast.Constant))]
            if len(body) == 1 and isinstance(body[0], ast.Return) and body[0].value is not None:
                return self.canon_call(t, bind_args(e, t, f, env), body[0].value, _depth + 1)
        # nested helper calls: substitute their expansion, keyed by a placeholder name
        subs = {}
        if _depth < 6:
            for x in ast.walk(e):
                if x is not e and isinstance(x, ast.Call) and id(x) in self.an.spliced_at:
                    tt = self.an.spliced_at[id(x)]
                    body = [st for st in tt.node.body if not (isinstance(st, ast.Expr) and isinstance(st.value, ast.Constant))]
                    if len(body) == 1 and isinstance(body[0], ast.Return) and body[0].value is not None:
                        subs[id(x)] = self.canon_call(tt, bind_args(x, tt, f, env), body[0].value, _depth + 1)
        if not subs:
            return self.canon_at(f, env, e)
        import copy

        ph = {}
        class Mark(ast.NodeTransformer):
            def visit_Call(self, n):
                if getattr(n, "_tpsa_orig", None) in subs:
                    nm = f"__h{len(ph)}__"
                    ph[nm] = subs[n._tpsa_orig]
                    return ast.copy_location(ast.Name(id=nm, ctx=ast.Load()), n)
                return self.generic_visit(n)
        for x in ast.walk(e):
            if isinstance(x, ast.Call):
                x._tpsa_orig = id(x)
        e2 = Mark().visit(copy.deepcopy(e))
        txt = self.canon_at(f, env, e2)
        for nm, rep_ in ph.items():
            txt = txt.replace(nm, "(" + rep_ + ")" if not rep_.replace("_", "").replace(".", "").isalnum() and not rep_.endswith(")") else rep_)
        try:
            return " ".join(ast.unparse(ast.parse(txt, mode="eval").body).split())
        except SyntaxError:
            return txt

    def tuple_return_var(self, f: FuncInfo, env, name: str):
        """`a, b = helper(...)` with a spliced helper ending in `return x, y`: for name `a` the helper's frame and its
        variable x -> (helper, helper env, 'x'); None when the name is not bound that way."""
        from ..cfg import bind_args

        sc = self.an.scope(f)
        hows = sc.defs.get(name, [])
        if len(hows) != 1 or hows[0][0] != "elt" or hows[0][1][0] != "assign":
            return None
        call, idx = strip_cast(hows[0][1][1]), hows[0][2]
        if isinstance(call, ast.Await):
            call = strip_cast(call.value)
        t = self.an.spliced_at.get(id(call))
        if t is None:
            return None
        rets = self._live_returns(call, t)
        names = set()
        for r in rets:
            if not (isinstance(r, ast.Tuple) and idx < len(r.elts) and isinstance(r.elts[idx], ast.Name)):
                return None
            names.add(r.elts[idx].id)
        if len(names) != 1:
            return None
        return t, bind_args(call, t, f, env), names.pop()

    def same(self, a, b) -> bool:
        """Do two (function, env, expression) triples denote the same value?"""
        ta, tb = self.trace(*a), self.trace(*b)
        if ta[2] is tb[2]:
            return True
        return ta[0] is tb[0] and isinstance(ta[2], ast.Name) and isinstance(tb[2], ast.Name) and ta[2].id == tb[2].id

    def module_value(self, f: FuncInfo, e: ast.Name) -> Optional[ast.AST]:
        """the value of a module-level name that is assigned exactly once in f's module (and is no local of f)"""
        sc = self.an.scope(f)
        if e.id in sc.params or e.id in sc.defs:
            return None
        m = f.module
        v = m.assigns.get(e.id)
        name = e.id
        hops = 0
        while v is None and name in m.imports and hops < 4:
            # `from ..internals.constants import NAME`: the one assignment of NAME in that module of the package
            target = m.imports[name]
            modname, _, name = target.rpartition(".")
            m2 = next((x for x in self.an.prog.modules.values() if x.name == modname or modname.endswith("." + x.name) or x.name.endswith("." + modname)), None)
            if m2 is None:
                return None
            m, hops = m2, hops + 1
            v = m.assigns.get(name)
            e = ast.Name(id=name, ctx=ast.Load())
        if v is None:
            return None
        n_assign = sum(1 for st in ast.walk(m.tree) if isinstance(st, (ast.Assign, ast.AnnAssign, ast.AugAssign))
                       for t in (st.targets if isinstance(st, ast.Assign) else [st.target]) if isinstance(t, ast.Name) and t.id == e.id)
        return v if n_assign <= 1 else None

    def const(self, f: FuncInfo, e: ast.AST) -> Optional[ast.Constant]:
        """The constant an expression stands for: a literal, a once-bound local or a module-level NAME = <literal>
        (also imported from another module of the package)."""
        e = self.resolve(f, e)
        if isinstance(e, ast.Constant):
            return e
        if isinstance(e, ast.Name):
            sc = self.an.scope(f)
            if e.id in sc.params or e.id in sc.defs:
                return None
            m = f.module
            v = m.assigns.get(e.id)
            if v is None and e.id in m.imports:
                q = m.imports[e.id]
                modname, _, nm = q.rpartition(".")
                for cand in self.an.prog.modules.values():
                    if modname.endswith(cand.name) and nm in cand.assigns:
                        v = cand.assigns[nm]
            if isinstance(v, ast.Constant):
                n_assign = sum(1 for st in ast.walk(m.tree) if isinstance(st, (ast.Assign, ast.AnnAssign, ast.AugAssign))
                               for t in (st.targets if isinstance(st, ast.Assign) else [st.target]) if isinstance(t, ast.Name) and t.id == e.id)
                if n_assign <= 1:
                    return v
        return None

    def canon(self, f: FuncInfo, e: ast.AST) -> str:
        """Source text of e with once-bound locals replaced by what they stand for and `x if x else y` written `x or y`."""
        vals = self

        class Sub(ast.NodeTransformer):
            def __init__(self):
                self.busy = set()

            def visit_Name(self, n: ast.Name):
                if not isinstance(n.ctx, ast.Load) or n.id in self.busy:
                    return n
                sc = vals.an.scope(f)
                if n.id in sc.params:
                    return n
                if n.id not in sc.defs and n.id in f.module.assigns and n.id.upper() == n.id:
                    # a module-level constant (tuple of kinds, message text ...)
                    mv = f.module.assigns[n.id]
                    if not any(isinstance(x, (ast.Call, ast.Await, ast.Lambda)) for x in ast.walk(mv)):
                        return copy.deepcopy(mv)
                bs = vals.bindings(f, n.id)
                if bs is not None and len(bs) == 1 and not any(
                        isinstance(x, ast.Await) or (isinstance(x, ast.Call) and not (isinstance(x.func, ast.Name) and x.func.id in ("len", "str", "int", "type", "repr", "cast")))
                        for x in ast.walk(bs[0])):
                    self.busy.add(n.id)
                    try:
                        return self.visit(copy.deepcopy(strip_cast(bs[0])))
                    finally:
                        self.busy.discard(n.id)
                return n

            def visit_IfExp(self, n: ast.IfExp):
                n = self.generic_visit(n)
                if ast.unparse(n.test) == ast.unparse(n.body):
                    return ast.BoolOp(op=ast.Or(), values=[n.body, n.orelse])
                return n

        out = Sub().visit(copy.deepcopy(strip_cast(e)))
        return " ".join(ast.unparse(ast.fix_missing_locations(out)).split())

    def is_param(self, f: FuncInfo, e: ast.AST, param: str) -> bool:
        """`e` certainly denotes the (never re-bound) parameter `param`."""
        e = self.resolve(f, e)
        sc = self.an.scope(f)
        return isinstance(e, ast.Name) and e.id == param and param in sc.params and not sc.defs.get(param) and param not in self._augmented(f)

    def dict_literal(self, f: FuncInfo, e: ast.AST) -> Optional[Dict[str, ast.AST]]:
        """For `**e`: the keyword arguments it expands to when e is (a once-bound local standing for) a dict display with
        constant string keys that the function never mutates afterwards; else None."""
        name = e.id if isinstance(e, ast.Name) else None
        v = self.resolve(f, e)
        if not isinstance(v, ast.Dict) or any(k is None or not (isinstance(k, ast.Constant) and isinstance(k.value, str)) for k in v.keys):
            return None
        if name is not None:
            for n in _own_nodes(f.node):
                # any other use than `**name` in a call could mutate it
                if isinstance(n, ast.Name) and n.id == name and isinstance(n.ctx, ast.Load):
                    if not self._is_dstar_use(f, n):
                        return None
        return {k.value: val for k, val in zip(v.keys, v.values)}

    def _is_dstar_use(self, f: FuncInfo, name_node: ast.Name) -> bool:
        for n in _own_nodes(f.node):
            if isinstance(n, ast.Call):
                for kw in n.keywords:
                    if kw.arg is None and kw.value is name_node:
                        return True
        return False
