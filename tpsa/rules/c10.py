"""C10 — groups partition the tasks; names are unique and fresh."""
from .lib import Ctx
from . import shared as S
from . import naming as N
from . import accept as A
from .c07 import r_group_table_who
from . import spawner as SP


def check(ctx: Ctx) -> None:
    N.r_register_membership(ctx, "R10.1")
    # a group leaves the table only together with the cancellation of its spawners and members: a cancel_group that fails
    # half-way leaves running tasks that belong to no live group (premise shared with C07)
    from . import cancel as K
    K.r_cancel_group_entry(ctx, "R10.7")
    r_group_table_who(ctx, "R10.1w")
    S.r_wiring(ctx, "R10.2", {"GROUP"}, 8, "group name role")
    A.r_one_spawner_per_request(ctx, "R10.2r")
    SP.r_spawner_group(ctx, "R10.2s")
    SP.r_map_returns_name(ctx, "R10.2m")
    N.r_group_name_generator(ctx, "R10.3")
    A.r_raise_inventory(ctx, "R10.4", classes={"TaskGroupAlreadyExists"}, guards={"dup"})
    N.r_get_group_ids(ctx, "R10.4g")
    S.r_atomic_slot_registry(ctx, "R10.5")
    # live groups never share an id only if ids are unique: shared obligation with C11
    N.r_id_discipline(ctx, "R10.6")
    # a cancelled group is gone only if its spawners were found and cancelled: a spawner dropped from the table while it is still
    # running keeps creating tasks under the cancelled name and re-creates the group (shared with C04/C07/C08)
    S.r_spawner_registry_who(ctx, "R10.8")
    # what get_group_ids reports is what the register's set interface shows
    N.r_register_faithful(ctx, "R10.9")
    # ... and only if the group helper reaches the spawners at all: an empty register (nothing started yet) is no reason to skip them
    from . import cancel as K
    K.r_group_helper(ctx, "R10.10")
