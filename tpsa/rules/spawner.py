"""Per-iteration typestate of the three spawner loops, constant propagation of literal arguments
(UNREACHABLE-RAISE) and the map-specific rules."""
from __future__ import annotations

import ast
from typing import Dict, FrozenSet, List, Optional, Set, Tuple

from ..absint import AbsInt, RET
from ..cfg import NORMAL_KINDS, Label, Node, strip_cast
from ..exc import CANCELLED, EXCEPTION
from ..model import FuncInfo
from ..queries import between, can_follow, count_paths, reach
from .lib import SLOT, Ctx, dominated_by_completion, field_of
from .shared import expr_role

SPAWNERS = ("_apply_spawner", "_arg_consumer", "_start_num")


def spawner_loop(ctx: Ctx, f: FuncInfo) -> Optional[Node]:
    """The loop header whose body (transitively) awaits _start_task."""
    heads = ctx.nodes(f, lambda n: n.op in ("iter", "loophead"))
    starts = ctx.nodes(f, lambda n: ctx.is_await_of(n, "_start_task"))
    best = None
    for h in ctx.distinct_sites(heads):
        loop = h.ast
        if any(loop in s.loops for s in starts):
            if best is None or len(h.loops) > len(best.loops):
                best = h
    return best


def is_user_step(n: Node) -> bool:
    """A step at which the user's function is called to create the coroutine."""
    if n.op != "call" or n.callee is None:
        return False
    if n.callee.kind == "user":
        return True
    return n.callee.kind == "pkg" and any(t.name == "star_function" for t in n.callee.targets)


class IterState:
    pass


def run_iteration_typestate(ctx: Ctx, f: FuncInfo, head: Node, is_map: bool):
    """state = (in_iter, u, uok, acq, rel, s, cancelled, uexc)"""
    loop = head.ast
    events: List[Tuple[Node, str, tuple, List[str]]] = []

    def ev(ai: AbsInt, n: Node, msg: str, st):
        ai.event(n, msg, st)

    def at_node(ai: AbsInt, n: Node, st):
        in_iter, u, uok, acq, rel, s, canc, uexc = st
        if n is head and in_iter:
            # an iteration has just ended by coming back to the header
            if canc:
                ev(ai, n, "after a cancellation the spawner goes on to the next iteration (CANCEL-STOPS)", st)
            if u != 1:
                ev(ai, n, f"user function called {u} times in one iteration (expected exactly once)", st)
            if uok and s != 1 and not canc:
                ev(ai, n, f"an invocation whose call succeeded was started {s} times (expected exactly once)", st)
            if not uok and s != 0:
                ev(ai, n, "a task is started although the call of the user function raised", st)
            if is_map and rel and not canc:
                ev(ai, n, "the map concurrency slot is released inside the loop outside the cancellation path", st)
        if n.op == "exit" and in_iter and not canc:
            ev(ai, n, "the spawner leaves its loop early without having been cancelled (remaining invocations lost)", st)
        if n.op == "raise_exit" and in_iter and uexc == "value":
            ev(ai, n, "an exception raised by an operation on a user-supplied value (iterating it, calling a method of it, %-formatting it) inside an iteration escapes "
                      "the spawner (remaining invocations lost)", st)
        elif n.op == "raise_exit" and in_iter and uexc:
            ev(ai, n, "an exception raised by the user's function at call time escapes the spawner (remaining invocations lost)", st)

    def transfer(ai: AbsInt, n: Node, lab: Label, st):
        in_iter, u, uok, acq, rel, s, canc, uexc = st
        normal = lab[0] in NORMAL_KINDS
        if n is head:
            if lab[0] == "T":
                return [(True, 0, False, 0, 0, 0, False, False)]
            if lab[0] == "F":
                return [(False, 0, False, 0, 0, 0, False, False)]
        if not in_iter:
            return [st]
        if is_user_step(n) and not n.cond:
            u = min(2, u + 1)
            uok = normal
            if lab[0] == "x":
                uexc = True
        elif n is not head and n.user and lab[0] == "x" and lab[1] is not None and lab[1][0] == EXCEPTION and not uexc and (
                n.op == "comp" or n.op == "iter" or (n.op == "call" and n.callee is not None and n.callee.kind == "unknown")):
            # an operation on a value the user handed in (not the call that creates the coroutine)
            uexc = "value"
        elif n.op == "format" and lab[0] == "x" and not uexc:
            uexc = "value"  # "<template>" % <user value>: TypeError when the value is a tuple that does not fit the template
        if n.op == "handler" and uexc:
            # the exception of the user call was caught by this handler
            if any(ctx.hier.is_sub(EXCEPTION, t) for t in n.types):
                uexc = False
        if ctx.is_await_of(n, "_start_task"):
            if normal:
                if is_map and acq != 1:
                    ev(ai, n, f"_start_task awaited with {acq} completed acquires of the map semaphore in this iteration (expected 1)", st)
                if not uok:
                    ev(ai, n, "_start_task awaited without a successfully created coroutine", st)
                s = min(2, s + 1)
        if n.op == "await" and n.awaited is not None and n.awaited.kind == "ext" and n.awaited.name == "Semaphore.acquire" and n.awaited.recv_path != SLOT:
            if normal:
                acq = min(2, acq + 1)
        if normal and any(e.kind == "release" and e.container == "Semaphore" and e.path != SLOT for e in ctx.eff.of_node(n)):
            rel = min(2, rel + 1)
        if lab[0] == "c" or (lab[0] == "x" and lab[1] is not None and lab[1][0] == CANCELLED):
            canc = True
        return [(in_iter, u, uok, acq, rel, s, canc, uexc)]

    ai = AbsInt(ctx.an, transfer, at_node=at_node)
    exits = ai.run(f, (False, 0, False, 0, 0, 0, False, False))
    return ai, exits


def r_spawner_iterations(ctx: Ctx, rule: str, names=SPAWNERS):
    rep = ctx.rep
    rep.rule(rule, "per-iteration typestate of the spawner loops over all edge kinds: exactly one call of the user function per iteration; "
                   "a successfully created coroutine is handed to exactly one completed `await _start_task`; a raising call is skipped "
                   "(caught as Exception, loop continues); the loop is left early only through a cancellation edge; after a cancellation no "
                   "further iteration starts; (map) the private semaphore is acquired exactly once before _start_task and not released in the loop")
    n = 0
    for name in names:
        for f in ctx.pool_funcs(name, required=False):
            head = spawner_loop(ctx, f)
            if head is None:
                rep.ob(rule, "spawner loop found", None, func=f, construct="(no loop awaiting _start_task)")
                continue
            n += 1
            is_map = name == "_arg_consumer"
            # the typestate speaks about the iterations of the loop: nothing of the request is done outside it (a fast path that calls
            # the function or starts a task next to the loop has none of the loop's handlers around it)
            g_ = ctx.an.cfg(f)
            for m_ in ctx.distinct_sites([x for x in g_.nodes if x.pred and ((x.op == "call" and x.callee is not None and x.callee.kind == "user") or
                                                                             (x.op == "call" and ctx.is_call_to(x, "star_function")) or ctx.is_await_of(x, "_start_task"))]):
                rep.ob(rule, "the user function is called, and tasks are started, only inside the spawner's loop", bool(m_.loops), node=m_,
                       detail="" if m_.loops else "outside the loop none of its handlers apply: a raising call escapes the spawner (and surfaces from flush()/gather_and_close() "
                                                  "although no task failed), a cancellation is not the loop's orderly way out")
            ai, exits = run_iteration_typestate(ctx, f, head, is_map)
            rep.analysed.setdefault("spawner_typestate", {})[f.qual] = {"product_states": ai.product_states, "product_edges": ai.product_edges,
                                                                         "exits": sorted(str(k[0]) + ":" + (k[1][0].rpartition(".")[2] if k[1] else "") for k in exits)}
            if ctx.tier == "thorough":
                from ..absint import enumerate_paths
                ai2, _ = run_iteration_typestate(ctx, f, head, is_map)
                ai2.events.clear()
                ends, n_paths, trunc = enumerate_paths(ai2, f, (False, 0, False, 0, 0, 0, False, False))
                fix = {(k, s) for k, v in exits.items() for s in v}
                got = set(ends)
                agree = got <= fix and (trunc or fix <= got) and {(e.node.id, e.msg) for e in ai2.events} == {(e.node.id, e.msg) for e in ai.events}
                rep.analysed["spawner_typestate"][f.qual].update({"paths_enumerated": n_paths, "path_end_states": len(got), "enumeration_truncated": trunc})
                rep.ob(rule + ".paths", "explicit enumeration of every acyclic path of the spawner (exception injected at every user-code call, cancellation at every "
                       "suspension step) reaches exactly the end states and events of the fixpoint analysis", True if agree else None, func=f,
                       construct=f"{n_paths} paths, {len(got)} distinct end states")
            for e in ai.events:
                rep.ob(rule, e.msg, False, node=e.node, path=e.trace,
                       detail=f"state (in_iter, user_calls, call_ok, map_acquires, map_releases, starts, cancelled, user_exc) = {e.state}")
            rep.ob(rule, f"iteration typestate of {f.short} holds on every path", not ai.events, func=f, construct=f"loop at line {head.line}: {head.text(60)}",
                   detail=f"{ai.product_states} product states explored")
    rep.floor(rule, "spawner loops analysed", n, len(names) if len(names) < 3 else 3)


def r_spawner_shape(ctx: Ctx, rule: str, names=("_apply_spawner", "_start_num")):
    """R04.1 structural part: range(num), argument forwarding, the coroutine handed on is the one just created."""
    rep = ctx.rep
    rep.rule(rule, "the apply/start spawners iterate `range(num)` over the requested number, call the user function with exactly "
                   "*args, **kwargs of the request and pass the coroutine just created to _start_task")
    for name in names:
        for f in ctx.pool_funcs(name):
            sc = ctx.an.scope(f)
            head = spawner_loop(ctx, f)
            if head is None or not isinstance(head.ast, ast.For):
                rep.ob(rule, "spawner is a for-loop over range(num)", None, func=f, construct=head or "(none)")
                continue
            it = head.ast.iter
            ok = None
            # `enumerate(X[, start])` / `reversed(X)` yield exactly as many items as X
            while isinstance(it, ast.Call) and sc.callee(it).name in ("builtins.enumerate", "builtins.reversed") and it.args and not any(isinstance(a, ast.Starred) for a in it.args) \
                    and all(k.arg == "start" for k in it.keywords):
                it = it.args[0]
            if isinstance(it, ast.Call) and sc.callee(it).name == "builtins.range":
                if len(it.args) == 1 and not it.keywords and expr_role(ctx, f, it.args[0]) == "NUM":
                    ok = True
                else:
                    ok = False
            rep.ob(rule, "the loop runs exactly `num` iterations (for ... in range(num))", ok, func=f, construct=head)
            ucalls = ctx.distinct_sites(ctx.nodes(f, lambda n: is_user_step(n) and head.ast in n.loops))
            for u in ucalls:
                c: ast.Call = u.ast

                def role_at(x: ast.AST, u=u) -> Optional[str]:
                    # (the call may sit in a helper spliced into the spawner: names are followed to the spawner's own)
                    fr_, _env, leaf = ctx.vals.trace(u.func, u.env, x)
                    return expr_role(ctx, fr_, leaf)

                callee_role = role_at(c.func)
                fwd = (len(c.args) == 1 and isinstance(c.args[0], ast.Starred) and role_at(c.args[0].value) == "ARGS"
                       and len(c.keywords) == 1 and c.keywords[0].arg is None and role_at(c.keywords[0].value) == "KWARGS")
                rep.ob(rule, "the invocation is func(*args, **kwargs) with the request's function and arguments", fwd and callee_role == "FUNC", node=u,
                       detail=f"callee role {callee_role}")
            _coroutine_handed_on(ctx, rule, f, head)


def _coroutine_handed_on(ctx: Ctx, rule: str, f: FuncInfo, head: Node):
    rep = ctx.rep
    sc = ctx.an.scope(f)
    for s in ctx.distinct_sites(ctx.nodes(f, lambda n: ctx.is_call_to(n, "_start_task") and head.ast in n.loops)):
        call: ast.Call = s.ast
        t = s.callee.targets[0]
        arg = ctx.call_arg(call, t, t.param_names()[1] if t.param_names()[0] in ("self",) else t.param_names()[0])
        ok = None
        if isinstance(arg, ast.Name):
            # every value the argument may stand for (through helper parameters and the returns of spliced helpers; a marker
            # object a helper returns instead of a coroutine is a value too, and not one to start)
            vals = [(fr_, v) for fr_, _e, v in ctx.vals.leaves_at(s, arg)]
            if not (len(vals) == 1 and vals[0][1] is arg):
                ok = bool(vals) and all(isinstance(v, ast.Call) and (ctx.an.scope(fr_).callee(v).kind == "user" or any(t.name == "star_function" for t in ctx.an.scope(fr_).callee(v).targets))
                                        for fr_, v in vals)
        rep.ob(rule, "the coroutine handed to _start_task is the one created by this iteration's call", ok, node=s)
        g = expr_role(ctx, f, ctx.call_arg(call, t, "group_name"))
        rep.ob(rule, "the task is started in the spawner's own group", g == "GROUP", node=s, detail=f"group_name role {g}")


# --------------------------------------------------------------- constant propagation
def eval3(e: ast.AST, env: Dict[str, object]):
    """Three-valued evaluation of a test over literal bindings; returns True/False/None(unknown)."""
    if isinstance(e, ast.Constant):
        return bool(e.value)
    if isinstance(e, ast.Name):
        if e.id in env:
            return bool(env[e.id])
        return None
    if isinstance(e, ast.UnaryOp) and isinstance(e.op, ast.Not):
        v = eval3(e.operand, env)
        return None if v is None else not v
    if isinstance(e, ast.BoolOp):
        vals = [eval3(v, env) for v in e.values]
        if isinstance(e.op, ast.And):
            if any(v is False for v in vals):
                return False
            return True if all(v is True for v in vals) else None
        if any(v is True for v in vals):
            return True
        return False if all(v is False for v in vals) else None
    if isinstance(e, ast.Compare) and len(e.ops) == 1:
        l, r = e.left, e.comparators[0]

        def val(x):
            if isinstance(x, ast.Constant):
                return ("c", x.value)
            if isinstance(x, ast.Name) and x.id in env:
                return ("c", env[x.id])
            return None
        a, b = val(l), val(r)
        if a is not None and b is not None:
            op = e.ops[0]
            try:
                if isinstance(op, (ast.Eq, ast.Is)):
                    return a[1] == b[1] if isinstance(op, ast.Eq) else a[1] is b[1]
                if isinstance(op, (ast.NotEq, ast.IsNot)):
                    return a[1] != b[1] if isinstance(op, ast.NotEq) else a[1] is not b[1]
                if isinstance(op, ast.Lt):
                    return a[1] < b[1]
                if isinstance(op, ast.Gt):
                    return a[1] > b[1]
                if isinstance(op, ast.LtE):
                    return a[1] <= b[1]
                if isinstance(op, ast.GtE):
                    return a[1] >= b[1]
            except TypeError:
                return None
        return None
    return None


def const_reach(ctx: Ctx, f: FuncInfo, env0: Dict[str, object], on_node, start: Optional[Node] = None) -> AbsInt:
    """Context-sensitive reachability: literal arguments (explicit or defaulted) are propagated into callees and branch
    conditions are evaluated three-valued; on_node(ai, node, env) is called for every reachable (node, env)."""

    def lit(x: Optional[ast.AST], env: Dict[str, object]):
        if isinstance(x, ast.Constant):
            return True, x.value
        if isinstance(x, ast.Name) and x.id in env:
            return True, env[x.id]
        if isinstance(x, ast.UnaryOp) and isinstance(x.op, ast.Not):
            ok, v = lit(x.operand, env)
            return (ok, (not v) if ok else None)
        return False, None

    # variables of a spliced helper's frame are kept apart from the caller's by a frame prefix
    def prefix(fenv) -> str:
        return "" if fenv is None else f"{id(fenv)}:"

    _mod_consts: Dict[str, Dict[str, object]] = {}

    def module_constants(fn: FuncInfo) -> Dict[str, object]:
        """NAME = <literal> at module level, assigned once (e.g. the codes compared against a parameter)"""
        m = fn.module
        if m.name not in _mod_consts:
            counts: Dict[str, int] = {}
            for st_ in ast.walk(m.tree):
                if isinstance(st_, (ast.Assign, ast.AnnAssign, ast.AugAssign)):
                    for t in (st_.targets if isinstance(st_, ast.Assign) else [st_.target]):
                        if isinstance(t, ast.Name):
                            counts[t.id] = counts.get(t.id, 0) + 1
            _mod_consts[m.name] = {k: v.value for k, v in m.assigns.items() if isinstance(v, ast.Constant) and counts.get(k, 0) == 1
                                   and isinstance(v.value, (int, str, bool, type(None)))}
            # names imported from a sibling module of the package that are literal constants there (`from .constants import NO_STARS`)
            for alias in m.imports:
                if alias in _mod_consts[m.name] or alias in counts:
                    continue
                v = ctx.vals.module_value(fn, ast.Name(id=alias, ctx=ast.Load()))
                if isinstance(v, ast.Constant) and isinstance(v.value, (int, str, bool, type(None))):
                    _mod_consts[m.name][alias] = v.value
        return _mod_consts[m.name]

    def view(fenv, st, fn: Optional[FuncInfo] = None) -> Dict[str, object]:
        p = prefix(fenv)
        base = dict(module_constants(fn)) if fn is not None else {}
        if fn is not None:
            sc = ctx.an.scope(fn)
            base = {k: v for k, v in base.items() if k not in sc.params and k not in sc.defs}
        if not p:
            base.update({k: v for k, v in st if ":" not in k})
        else:
            base.update({k[len(p):]: v for k, v in st if k.startswith(p)})
        return base

    def bind_params(call: ast.Call, callee: FuncInfo, arg_of, caller_view) -> Dict[str, object]:
        new: Dict[str, object] = {}
        own = ctx.owner(call)
        has_star = any(isinstance(a, ast.Starred) for a in call.args) or \
            any(k.arg is None and (own is None or ctx.vals.dict_literal(own, k.value) is None) for k in call.keywords)
        for pname in callee.param_names():
            a = arg_of(pname)
            if a is None:
                d = callee.param_default(pname)
                if d is not None and not has_star:
                    ok, v = lit(d, {})
                    if ok:
                        new[pname] = v
                continue
            ok, v = lit(a, caller_view(a) if callable(caller_view) else caller_view)
            if ok:
                new[pname] = v
        return new

    def enter(ai: AbsInt, n: Node, callee: FuncInfo, st):
        call = strip_cast(n.ast.value if isinstance(n.ast, ast.Await) else n.ast)
        new: Dict[str, object] = {}
        if isinstance(call, ast.Call):
            syn = ctx.an.partial_syn.get((id(call), id(n.env)))
            if syn is not None:
                # a call through a callable value: the stand-in spells out the arguments, each read in the frame that wrote it
                def view_of(a_):
                    fe = ctx.an.syn_arg_frame.get(id(a_))
                    return view(fe[1] if fe is not None else n.env, st)
                new = bind_params(syn, callee, lambda pname: Ctx.call_arg(ctx, syn, callee, pname), view_of)
            else:
                new = bind_params(call, callee, lambda pname: ctx.call_arg(call, callee, pname), view(n.env, st))
        return frozenset(new.items())

    def leave(ai, n, callee, before, after):
        return before

    def transfer(ai: AbsInt, n: Node, lab: Label, st):
        env = dict(st)
        p = prefix(n.env)
        if n.inlined is not None and n.benv is not None and n.op in ("call", "await") and lab[0] in NORMAL_KINDS:
            call = strip_cast(n.ast.value if isinstance(n.ast, ast.Await) else n.ast)
            new = bind_params(call, n.inlined, lambda pname: ctx.call_arg(call, n.inlined, pname), view(n.env, st))
            q = prefix(n.benv)
            env = {k: v for k, v in env.items() if not k.startswith(q)}
            for k, v in new.items():
                env[q + k] = v
            return [frozenset(env.items())]
        if n.op == "test" and lab[0] in ("T", "F"):
            v = eval3(n.ast, view(n.env, st, n.func))
            if v is not None and v != (lab[0] == "T"):
                return []
        if n.op == "assign" and lab[0] in NORMAL_KINDS:
            tgts = n.ast.targets if isinstance(n.ast, ast.Assign) else [n.ast.target]
            for t in tgts:
                if isinstance(t, ast.Name):
                    ok, v = lit(getattr(n.ast, "value", None), view(n.env, st))
                    if ok:
                        env[p + t.id] = v
                    else:
                        env.pop(p + t.id, None)
            return [frozenset(env.items())]
        if n.op == "aug" and isinstance(n.ast.target, ast.Name):
            env.pop(p + n.ast.target.id, None)
            return [frozenset(env.items())]
        return [st]

    def at_node(ai: AbsInt, n: Node, st):
        on_node(ai, n, dict(st))

    ai = AbsInt(ctx.an, transfer, enter=enter, leave=leave, at_node=at_node)
    try:
        ai.run(f, frozenset(env0.items()), start)
    except TypeError:
        # unhashable literal in an environment: give up precision, not soundness
        pass
    return ai


def r_unreachable_lock_raise(ctx: Ctx, rule: str):
    rep = ctx.rep
    rep.rule(rule, "UNREACHABLE-RAISE(raise PoolIsLocked, every `_start_task` call made by a spawner): with the literal arguments of the call "
                   "(explicit or defaulted, here ignore_lock) propagated through _start_task into _check_start's guards, `raise PoolIsLocked` "
                   "cannot be reached (a request accepted before lock() is carried out in full)")
    n = 0
    for name in SPAWNERS:
        for f in ctx.pool_funcs(name, required=False):
            hits: List[Tuple[Node, List[str]]] = []

            def on_node(ai: AbsInt, node: Node, env, hits=hits):
                if node.op == "raise" and node.ast.exc is not None:
                    for cls in ctx.hier.resolve(node.func.module, node.ast.exc):
                        if cls.endswith("PoolIsLocked"):
                            hits.append((node, ai.trace(node, frozenset(env.items()))))

            sites = ctx.distinct_sites(ctx.nodes(f, lambda m: ctx.is_await_of(m, "_start_task")))
            n += len(sites)
            const_reach(ctx, f, {}, on_node)
            for s in sites:
                rep.ob(rule, "`raise PoolIsLocked` is unreachable from this spawner's _start_task call", not hits, node=s,
                       detail="" if not hits else f"reaches {hits[0][0].where()} `{hits[0][0].text(40)}` (ignore_lock is not the constant True on this path)")
    rep.floor(rule, "_start_task calls in spawners", n, 3)


def r_no_fake_cancellation(ctx: Ctx, rule: str):
    """A spawner reads a CancelledError coming out of `_start_task` as "my group was cancelled" and abandons the rest of the
    request.  So the pool itself must never raise CancelledError: the only source is a real cancellation delivered at a
    suspension step (bare re-raises inside a handler that caught one are fine)."""
    rep = ctx.rep
    rep.rule(rule, "WHO(raise CancelledError in the pool classes and their helpers) is empty: CancelledError reaches a spawner only as a real "
                   "cancellation of the spawner task (positive control: the spawners' `except CancelledError` handlers are found)")
    bad = []
    for f in [x for x in ctx.prog.all_functions() if ctx.in_pool(x) or x.module.name == "pool"]:
        for n in ctx.distinct_sites(ctx.nodes(f, lambda n: n.op == "raise" and isinstance(n.ast, ast.Raise) and n.ast.exc is not None)):
            classes = ctx.hier.resolve(n.func.module, n.ast.exc)
            if any(c == CANCELLED or ctx.hier.is_sub(c, CANCELLED) for c in classes):
                bad.append(n)
    for n in bad:
        rep.ob(rule, "the pool never raises CancelledError itself (a spawner would take it for the cancellation of its group and drop the rest of the request)",
               False, node=n)
    handlers = [h for name in SPAWNERS for f in ctx.pool_funcs(name, required=False)
                for h in ctx.distinct_sites(ctx.nodes(f, lambda n: n.op == "handler" and any(t == CANCELLED for t in n.types)))]
    rep.floor(rule, "positive control: `except CancelledError` handlers of the spawners", len(handlers), 3)
    rep.ob(rule, "no explicit raise of CancelledError in the pool module", not bad, construct="raise CancelledError sites = %d" % len(bad))


def r_spawner_group(ctx: Ctx, rule: str):
    rep = ctx.rep
    rep.rule(rule, "every task a spawner starts goes into the spawner's own group: the group_name handed to _start_task is the spawner's group_name parameter")
    n = 0
    for name in SPAWNERS:
        for f in ctx.pool_funcs(name, required=False):
            for s in ctx.distinct_sites(ctx.nodes(f, lambda m: ctx.is_call_to(m, "_start_task"))):
                n += 1
                t = s.callee.targets[0]
                g = expr_role(ctx, f, ctx.call_arg(s.ast, t, "group_name"))
                rep.ob(rule, "the task is started in the spawner's own group", g == "GROUP", node=s, detail=f"group_name role {g}")
    rep.floor(rule, "_start_task calls in spawners", n, 3)


def r_map_returns_name(ctx: Ctx, rule: str):
    rep = ctx.rep
    rep.rule(rule, "map/starmap/doublestarmap return exactly the group name they hand to _map")
    for name in ("map", "starmap", "doublestarmap"):
        for f in ctx.pool_funcs(name):
            calls = ctx.distinct_sites(ctx.nodes(f, lambda m: ctx.is_call_to(m, "_map")))
            rets = ctx.distinct_sites(ctx.nodes(f, lambda m: m.op == "return"))
            for c in calls:
                a = ctx.call_arg(c.ast, c.callee.targets[0], "group_name")
                for r in rets:
                    same = a is not None and r.ast.value is not None and (
                        (ast.unparse(a) == ast.unparse(r.ast.value) and isinstance(a, ast.Name) and c.func is r.func)
                        or ctx.vals.same((c.func, c.env, a), (r.func, r.env, r.ast.value)))
                    rep.ob(rule, f"{name} returns the name under which the group was created", same, node=r, detail=f"_map gets {ast.unparse(a) if a is not None else None}")
            # the name is either the caller's or a generated one; it is not modified between the call and the return
            for r in rets:
                if isinstance(r.ast.value, ast.Name):
                    nm = r.ast.value.id
                    for c in calls:
                        mid = between([c], [r])
                        reb = [m for m in mid if m.op in ("assign", "aug") and any(isinstance(t, ast.Name) and t.id == nm for t in ast.walk(m.ast) if isinstance(t, ast.Name) and isinstance(t.ctx, ast.Store))]
                        rep.ob(rule, "the name is not rebound between creating the group and returning it", not reb, node=r)
