"""C17 — a command does exactly what the method call would do (dispatch structure)."""
from .lib import Ctx
from . import control as CT


def check(ctx: Ctx) -> None:
    CT.r_dispatch(ctx, "R17.1")
    CT.r_arg_mapping(ctx, "R17.3")
    CT.r_return_or_exception(ctx, "R17.4")
    CT.r_tokens(ctx, "R17.5")
    CT.r_fresh_conversion(ctx, "R17.6")
    CT.r_async_declared(ctx, "R17.7")
    # the reply line is what the command wrote, nothing substituted on the way out (an empty str() stays empty)
    CT.r_listen_loop(ctx, "R17.8")
    CT.r_annotation_kinds(ctx, "R16.3")
    CT.r_ok_constant(ctx, "R17.9")
    CT.r_omitted_params(ctx, "R17.10")
    CT.r_conversion_sites(ctx, "R17.11")
    CT.r_parser_config(ctx, "R17.12")
    # the reply is exactly the text the command wrote: the buffer starts every command empty and rewound
    CT.r_buffer(ctx, "R17.13")
    # the command line the session parses is the text the client typed: one codec on both sides of the wire
    CT.r_wire_codec(ctx, "R17.14")
    CT.r_dispatch_names(ctx, "R17.15")
    CT.r_dispatch_kind(ctx, "R17.16")
    # "sending a well-formed command has the effect of calling the method": it is called when the command arrives - not held back behind
    # a synchronisation object another session keeps while its own command (until-closed, flush, gather-and-close) waits
    from .c19 import r_no_shared_lock
    r_no_shared_lock(ctx, "R17.17")
    # "the reply is ...": of the command just sent - no side gives up waiting and leaves a reply behind for the next command to pick up
    CT.r_no_timeouts(ctx, "R17.18")
