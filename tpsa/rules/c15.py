"""C15 — pool_size reports and enforces the configured maximum when changed."""
import ast
import re

from ..queries import reach
from .lib import SLOT, Ctx, field_of
from . import accept as A


def occupancy_writers(ctx: Ctx, path: str):
    """functions other than the constructor/the setter that write this access path (task start/end paths)"""
    out = []
    for e in ctx.eff.all():
        hosts = ctx.hosts_of(e.node) if ctx.in_pool(e.node.func) else {"<outside>"}
        if hosts <= {"__init__", "pool_size.setter"}:
            continue
        if e.kind in ("acquire", "release") and path == e.path + "._value":
            out.append(e)
        elif e.kind in ("assign", "aug", "insert", "remove", "clear") and e.path == path:
            out.append(e)
    return out


def check(ctx: Ctx) -> None:
    rep = ctx.rep
    # "never more than pool_size ... and as many as pool_size when there is demand": a slot is lost for good when a task is forgotten
    # while it still runs (its ending finds it in no registry and raises before the release) - the close forgets only what it waited for
    from . import close as _CL
    _CL.r_forget_only_gathered(ctx, "R15.10")
    rep.rule("R15.1", "the pool_size getter is configuration-only: every access path it reads may be written only by __init__ / the setter. "
                      "Returning exactly an occupancy-dependent path (the semaphore counter, moved by acquire/release on the task start/end "
                      "paths) is a violation; mixed arithmetic is inconclusive")
    rep.rule("R15.2", "the setter does not store a value that depends only on its parameter into the occupancy-dependent counter")
    rep.rule("R15.3", "raising the limit reaches a wake-up of the semaphore's waiters (release / _wake_up_next)")
    rep.rule("R15.4", "VALIDATE-FIRST(setter): value < 0 -> ValueError precedes every write")
    getters = [c.methods["pool_size"] for c in ctx.pool_classes if "pool_size" in c.methods and c.methods["pool_size"].kind == "property"]
    rep.floor("R15.1", "pool_size getter", len(getters), 1)
    for f in getters:
        rets = [n for n in ast.walk(f.node) if isinstance(n, ast.Return) and n.value is not None]
        P = ctx.eff.paths(f)
        ctx.an.cfg(f)
        for r in rets:
            v = r.value
            p = P.of(v)
            if isinstance(v, ast.Call):
                # the value may come out of a helper spliced into the getter (`return self._room()`): judged on what the helper returns
                lv = ctx.vals.leaves(f, None, v)
                if len(lv) == 1 and lv[0][0] is not f and isinstance(lv[0][2], (ast.Attribute, ast.Name)):
                    fr_, env_, leaf_ = lv[0]
                    p_ = ctx.eff.paths(fr_).of(leaf_)
                    p_ = ctx.eff.rebase(p_, fr_, env_) if p_ is not None else None
                    if p_ is not None:
                        p, v = p_, leaf_
            if p is not None and isinstance(v, (ast.Attribute, ast.Name)):
                w = occupancy_writers(ctx, p)
                rep.ob("R15.1", "pool_size reports the configured maximum, independent of how many tasks are running", not w, func=f,
                       construct=f"return {p}" if w else r,
                       detail="" if not w else f"the getter returns {p}, which is moved by {sorted({ctx.fname(e.node.func) for e in w})} "
                                               f"(e.g. {w[0].node.where()} `{w[0].node.text(40)}`): it is the free room, not the maximum")
            else:
                reads = sorted({pp for pp, _ in ctx.eff.attr_reads(f)})
                # keep only maximal paths (self._a._b subsumes self._a)
                reads = [pp for pp in reads if not any(q != pp and q.startswith(pp + ".") for q in reads)]
                dep = [pp for pp in reads if occupancy_writers(ctx, pp)]
                conf = [pp for pp in reads if pp not in dep]
                verdict = True if not dep else (False if not conf else None)
                rep.ob("R15.1", "pool_size reports the configured maximum, independent of how many tasks are running", verdict, func=f, construct=r,
                       detail="" if not dep else (f"computed only from occupancy-dependent state {dep}" if not conf else f"arithmetic over occupancy-dependent paths {dep} and {conf}: cannot decide"))
    setters = ctx.pool_setters("pool_size")
    rep.floor("R15.2", "pool_size setter", len(setters), 1)
    for f in setters:
        vp = [p for p in f.param_names() if p != "self"][0]
        g = ctx.an.cfg(f)
        writes = [e for e in ctx.eff.of_func(f) if e.kind in ("assign", "aug")]
        rep.floor("R15.2", "stores in the setter", len(writes), 1)
        for e in writes:
            w = occupancy_writers(ctx, e.path)
            val = getattr(e.node.ast, "value", None)
            names = {n.id for n in ast.walk(val) if isinstance(n, ast.Name)} if val is not None else set()
            reads_self = any(isinstance(n, ast.Attribute) for n in ast.walk(val)) if val is not None else False
            only_param = names <= {vp} and not reads_self and e.kind == "assign"
            if w and only_param:
                # judged on the setter itself (the store may sit in a helper spliced into it)
                rep.ob("R15.2", "the new maximum is not stored into the free-room counter", False, node=e.node, func=f, construct=f"{e.path} = value",
                       detail=f"{e.path} counts the free room (moved by {sorted({ctx.fname(x.node.func) for x in w})}); overwriting it with the new maximum "
                              "forgets the tasks that are running (limit becomes running + value)")
            elif w:
                rep.ob("R15.2", "the occupancy-dependent counter is adjusted relative to the running tasks", None, node=e.node, detail="cannot decide the arithmetic")
            else:
                rep.ob("R15.2", "the setter stores the configured maximum in a configuration-only field", True, node=e.node)
        # R15.3 wake-up
        wake = [n for n in ctx.nodes(f, lambda n: n.op == "call" and isinstance(n.ast.func, ast.Attribute) and n.ast.func.attr in ("release", "_wake_up_next")
                                     and (ctx.eff.paths(f).of(n.ast.func.value) or "").startswith(SLOT))]
        waiters_exist = bool([e for e in ctx.effects(fields=["_enough_room"], kinds=["acquire"])])
        rep.ob("R15.3", "raising the limit wakes tasks waiting for room", bool(wake) if waiters_exist else True, func=f, construct=wake[0] if wake else "pool_size.setter: no wake-up of waiters",
               detail="" if wake else "spawners blocked in `await self._enough_room.acquire()` are only woken by release(); the setter changes the counter without waking them")
        g = ctx.an.cfg(f)
        for wk in ctx.distinct_sites(wake):
            guards = [t for t in ctx.nodes(f, lambda n: n.op == "test" and (any(isinstance(x, ast.Name) and x.id == vp for x in ast.walk(n.ast)) or "_value" in ast.unparse(n.ast)
                                                                              or "locked" in ast.unparse(n.ast)))
                      if not (isinstance(t.ast, ast.Compare) and len(t.ast.ops) == 1 and isinstance(t.ast.comparators[0], ast.Constant) and t.ast.comparators[0].value == 0
                              and isinstance(t.ast.ops[0], ast.Lt))]
            guarded = any(wk not in reach([g.entry], avoid={t}) for t in guards)
            rep.ob("R15.3", "waiters are woken only when the new limit actually leaves room (a lowered or unchanged limit admits nobody)", guarded, node=wk,
                   detail="" if guarded else "the wake-up is unconditional: a task waiting for room is admitted even when the limit was lowered below the number of running tasks")
    A.r_validate_first(ctx, "R15.4", ("pool_size.setter",), floor=1)
    A.r_raise_inventory(ctx, "R15.4i", entries={"pool_size.setter"}, guards={"size"})
    # the limit in force after an assignment is only as good as the slot discipline (shared with C01)
    from . import shared as S
    S.r_who_release(ctx, "R15.6")
    S.r_who_write_semaphore(ctx, "R15.7")
    S.r_acquire_dominates_create(ctx, "R15.8")
    S.r_limit_is_assigned_value(ctx, "R15.9")
    # ... and as the registries: a task forgotten by flush() while it is still inside a callback ends with a KeyError before its slot is released
    S.r_snapshot_forget(ctx, "R13.1")
    # constructor goes through the setter
    for f in ctx.pool_funcs("__init__"):
        if f.cls is not ctx.base:
            continue
        st = ctx.nodes(f, lambda n: n.op == "assign" and any(e.path == "self.pool_size" for e in ctx.eff.of_node(n)))
        rep.ob("R15.5", "the constructor sets the initial size through the validated setter", bool(st), func=f, construct=st[0] if st else "(pool_size not assigned)")
        for n in ctx.distinct_sites(st):
            from ..cfg import strip_cast as _sc
            v_ = _sc(n.ast.value)  # (`cast(int, pool_size)` is pool_size)
            rep.ob("R15.5", "the initial size is the constructor's pool_size argument", isinstance(v_, ast.Name) and v_.id == "pool_size", node=n)
    rep.rule("R15.5", "the constructor installs its pool_size argument through the setter")
