"""C04 — apply/start run exactly the requested invocations."""
from .lib import Ctx
from . import shared as S
from . import spawner as SP
from . import accept as A


def check(ctx: Ctx) -> None:
    rep = ctx.rep
    SP.r_spawner_iterations(ctx, "R04.1", ("_apply_spawner", "_start_num"))
    SP.r_spawner_shape(ctx, "R04.1s")
    SP.r_unreachable_lock_raise(ctx, "R04.2")
    A.r_one_spawner_per_request(ctx, "R04.3", ("apply", "start"))
    SP.r_no_fake_cancellation(ctx, "R04.8")
    S.r_spawner_registry_who(ctx, "R04.5")
    # "... even if gather_and_close() is called after the request was accepted": the close must wait for every spawner
    from . import close as CL
    CL.r_gather_complete(ctx, "R04.7", ("gather_and_close",))
    CL.r_fresh_members(ctx, "R04.12", clauses=("copy",))
    from .elemtrack import r_spawner_kept
    r_spawner_kept(ctx, "R04.6")
    S.r_wiring(ctx, "R04.3w", {"GROUP", "FUNC", "ARGS", "KWARGS", "NUM"}, 10, "group/func/args/kwargs/num roles")
    # "however long it has to wait for room": a waiting request gets its room only if every task that ends gives its slot back,
    # on every way it can end (a slot lost in a raising / cancelled end callback starves the spawner of an accepted request)
    S.r_who_release(ctx, "R04.9")
    # no time-outs anywhere on the spawning path ("however long it has to wait")
    rep.rule("R04.4", "WHO(wait_for / timeout in the pool classes) is empty; positive control: gather calls of the same module are resolved")
    bad = ctx.all_nodes(lambda n: n.op == "call" and n.callee is not None and n.callee.kind == "ext" and
                        n.callee.name.startswith("asyncio") and n.callee.name.rpartition(".")[2] in ("wait_for", "timeout", "timeout_at"), ctx.pool_functions())
    for n in bad:
        rep.ob("R04.4", "no time-out bounds the wait for room", False, node=n)
    ctl = ctx.all_nodes(lambda n: ctx.is_ext_call(n, "asyncio.tasks.gather", "asyncio.gather"), ctx.pool_functions())
    rep.floor("R04.4", "positive control: resolved gather calls in the pool classes", len(ctx.distinct_sites(ctl)), 2)
    rep.ob("R04.4", "no wait_for/timeout call in the pool classes", not bad, construct="pool classes: wait_for/timeout sites = %d" % len(bad))
    # the slot of a task whose id was given twice is never released (see C02), so the rest of an accepted request never starts (id discipline shared with C11)
    from . import naming as _N
    _N.r_id_discipline(ctx, "R04.11")
    # "however long it has to wait": the room a waiting request needs comes back only if every ending task finds itself in a registry
    # (else its ending raises before the release) - the registry-integrity premises shared with C02/C03/C05
    S.r_snapshot_forget(ctx, "R13.1")
    S.r_registry_who(ctx, "R03.1")
    # "no invocation is lost": the spawner re-checks every coroutine it is about to start (`_check_start(awaitable=...)`) - with a
    # predicate stricter than asyncio's, a coroutine the loop would run kills the spawner of an accepted request
    A.r_external_predicates(ctx, "R04.13")
