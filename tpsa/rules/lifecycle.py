"""E8 — life-cycle typestate of one pool task through _task_wrapper and everything it runs.

Abstract state: (loc, slot, ccb, ecb, via_cancel, env)
  loc  in {'R','C','E','-'}   registry in which the task's id is filed ('-' = in none)
  slot in {'held','free','over'}
  ccb/ecb in {0,1,2}           executions begun of the cancel / end callback role (2 = two or more)
  via_cancel                   the path left `await <the user coroutine>` by cancellation
  env                          frozenset of (local parameter name, role) with roles ID, END, CANCEL, CORO
All edge kinds are followed: normal, exception (at user-code steps and may-raise steps) and
cancellation (at every suspension step).
"""
from __future__ import annotations

import ast
from typing import Dict, FrozenSet, List, Optional, Set, Tuple

from ..absint import AbsInt, RET, Event
from ..cfg import NORMAL_KINDS, Label, Node, strip_cast
from ..exc import KEYERROR
from ..model import FuncInfo
from .lib import CAN, END, RUN, SLOT, Ctx, field_of

REG_OF_FIELD = {"_tasks_running": "R", "_tasks_cancelled": "C", "_tasks_ended": "E"}


class Lifecycle:
    def __init__(self, ctx: Ctx, wrapper: FuncInfo):
        self.ctx = ctx
        self.wrapper = wrapper
        self.ai = AbsInt(ctx.an, self.transfer, enter=self.enter, leave=self.leave, at_node=self.at_node)
        self.exits: Dict[Tuple, Set] = {}
        self.cb_sites: List[Tuple[Node, str]] = []

    # ------------------------------------------------------------------ roles
    @staticmethod
    def role(env: FrozenSet, e: Optional[ast.AST]) -> Optional[str]:
        if isinstance(e, ast.Name):
            for k, r in env:
                if k == e.id:
                    return r
        return None

    def init_state(self):
        names = self.wrapper.param_names()
        env = set()
        for nm, role in (("task_id", "ID"), ("end_callback", "END"), ("cancel_callback", "CANCEL"), ("awaitable", "CORO")):
            if nm in names:
                env.add((nm, role))
        return ("R", "held", 0, 0, False, frozenset(env))

    def init_states(self):
        """One start state per combination of 'end callback given' x 'cancel callback given'."""
        base = self.init_state()
        out = []
        for has_end in (True, False):
            for has_cancel in (True, False):
                env = set(base[5])
                env.add(("<has>", (has_end, has_cancel)))
                out.append(base[:5] + (frozenset(env),))
        return out

    @staticmethod
    def has(env: FrozenSet) -> Tuple[bool, bool]:
        for k, r in env:
            if k == "<has>":
                return r
        return (True, True)

    def exists_test(self, env: FrozenSet, e: ast.AST) -> Optional[bool]:
        """Truth value of a test that only asks whether an END/CANCEL-role callback was supplied."""
        he, hc = self.has(env)

        def given(x: ast.AST) -> Optional[bool]:
            r = self.role_at(self._cur, env, x) if getattr(self, "_cur", None) is not None else self.role(env, x)
            return he if r == "END" else hc if r == "CANCEL" else None

        if isinstance(e, ast.UnaryOp) and isinstance(e.op, ast.Not):
            v = self.exists_test(env, e.operand)
            return None if v is None else not v
        if isinstance(e, ast.Call) and isinstance(e.func, ast.Name) and e.func.id == "callable" and len(e.args) == 1:
            return given(e.args[0])
        if isinstance(e, ast.Name):
            # the truth value of a callback that was NOT supplied (None) is False; that of a supplied one is the object's own
            # business (a callable with __bool__ / __len__ may be falsy): both branches stay possible
            return False if given(e) is False else None
        if isinstance(e, ast.Compare) and len(e.ops) == 1 and isinstance(e.comparators[0], ast.Constant) and e.comparators[0].value is None:
            v = given(e.left)
            if v is None:
                return None
            if isinstance(e.ops[0], ast.Is):
                return not v
            if isinstance(e.ops[0], ast.IsNot):
                return v
            # `== None` / `!= None` ask the supplied object (its __eq__): decided only for the callback that was not supplied
            if isinstance(e.ops[0], ast.Eq):
                return True if v is False else None
            if isinstance(e.ops[0], ast.NotEq):
                return False if v is False else None
        return None

    def enter(self, ai: AbsInt, n: Node, callee: FuncInfo, st):
        loc, slot, ccb, ecb, via, env = st
        call = n.ast.value if isinstance(n.ast, ast.Await) else n.ast
        call = strip_cast(call)
        new_env = {(k, r) for k, r in env if k == "<has>"}
        if isinstance(call, ast.Call):
            for pname in callee.param_names():
                a = self.ctx.call_arg(call, callee, pname)
                r = self.role_at(n, env, a)
                if r is not None:
                    new_env.add((pname, r))
                elif isinstance(a, ast.Tuple) and len(a.elts) == 1 and self.role_at(n, env, a.elts[0]) == "ID":
                    new_env.add((pname, "IDARGS"))
        # closure variables of nested functions keep their roles (e.g. release_callback(task_id))
        return (loc, slot, ccb, ecb, via, frozenset(new_env))

    def leave(self, ai: AbsInt, n: Node, callee: FuncInfo, before, after):
        return after[:5] + (before[5],)

    # --------------------------------------------------------------- transfer
    def _reg(self, n: Node, e: Optional[ast.AST]) -> Optional[str]:
        p = self.ctx.path_at(n, e)  # in the caller's terms inside a spliced helper
        if p is None or "[" in p or p.count(".") != 1:
            return None
        return REG_OF_FIELD.get(field_of(p))

    def role_at(self, n: Node, env: FrozenSet, e: Optional[ast.AST]) -> Optional[str]:
        """role of expression e at step n: directly, or - for a once-bound local or a parameter of a spliced helper -
        the role of what it stands for in the function being interpreted"""
        if e is None:
            return None
        if n.env is None:
            r = self.role(env, e)
            if r is not None or not isinstance(e, ast.Name):
                return r
        fr, fenv, leaf = self.ctx.vals.trace(n.func, n.env, e)
        if fenv is None and fr is n.root:
            if isinstance(leaf, ast.Tuple) and len(leaf.elts) == 1 and self.role(env, leaf.elts[0]) == "ID":
                return "IDARGS"
            return self.role(env, leaf)
        return None

    def at_node(self, ai: AbsInt, n: Node, st) -> None:
        loc = st[0]
        if (self.ctx.effective(n) or n.user) and loc == "-" and n.op not in ("exit", "raise_exit"):
            ai.event(n, "the task is filed in no registry at a suspension / user-code step", st)

    def transfer(self, ai: AbsInt, n: Node, lab: Label, st):
        loc, slot, ccb, ecb, via, env = st
        f = n.func
        a = n.ast
        self._cur = n
        normal = lab[0] in NORMAL_KINDS
        # a name that is bound again (assignment, loop target, with-target) no longer stands for what it was handed in for: `for task_id in
        # ...` inside _task_ending makes the `task_id` passed to the callback afterwards some other id
        if normal and env and n.env is None:
            tg: list = []
            if n.op in ("assign", "aug") and isinstance(a, (ast.Assign, ast.AnnAssign, ast.AugAssign)):
                tg = list(a.targets) if isinstance(a, ast.Assign) else [a.target]
                val = getattr(a, "value", None)
                if isinstance(a, ast.Assign) and len(tg) == 1 and isinstance(tg[0], ast.Name) and isinstance(val, ast.Name) and self.role(env, val) == self.role(env, tg[0]):
                    tg = []  # (`x = x`-style re-binding to the same thing)
            elif n.op == "iter" and lab[0] == "T" and isinstance(a, (ast.For, ast.AsyncFor)):
                tg = [a.target]
            bound = {x.id for t in tg for x in ast.walk(t) if isinstance(x, ast.Name) and isinstance(x.ctx, ast.Store)}
            if bound and any(k in bound for k, _r in env if k != "<has>"):
                env = frozenset((k, r) for k, r in env if k == "<has>" or k not in bound)
        # --- registry moves keyed by the task id
        if n.op == "call" and isinstance(a, ast.Call) and isinstance(a.func, ast.Attribute) and a.func.attr == "pop" and a.args \
                and self.role_at(n, env, a.args[0]) == "ID":
            r = self._reg(n, a.func.value)
            if r is not None:
                has_default = len(a.args) > 1
                if lab == ("x", (KEYERROR, True)):
                    return [] if loc == r else [st]
                if normal:
                    if loc == r:
                        return [("-", slot, ccb, ecb, via, env)]
                    return [st] if has_default else []
        if n.op == "subscript" and isinstance(a, ast.Subscript) and self.role_at(n, env, a.slice) == "ID":
            r = self._reg(n, a.value)
            if r is not None:
                if lab == ("x", (KEYERROR, True)):
                    return [] if loc == r else [st]
                if normal and loc != r:
                    return []
        if n.op == "del" and normal:
            for t in a.targets:
                if isinstance(t, ast.Subscript) and self.role_at(n, env, t.slice) == "ID":
                    r = self._reg(n, t.value)
                    if r is not None and loc == r:
                        loc = "-"
        if n.op == "assign" and normal:
            targets = a.targets if isinstance(a, ast.Assign) else [a.target]
            for t in targets:
                if isinstance(t, ast.Subscript) and self.role_at(n, env, t.slice) == "ID":
                    r = self._reg(n, t.value)
                    if r is not None:
                        if loc != "-":
                            ai.event(n, f"the task is filed under {r} while still filed under {loc} (two registries at once)", st)
                        loc = r
        if n.op == "test" and isinstance(a, ast.Compare) and len(a.ops) == 1 and isinstance(a.ops[0], (ast.In, ast.NotIn)) \
                and self.role_at(n, env, a.left) == "ID" and lab[0] in ("T", "F"):
            r = self._reg(n, a.comparators[0])
            if r is not None:
                positive = (lab[0] == "T") == isinstance(a.ops[0], ast.In)
                if positive != (loc == r):
                    return []
        if n.op == "test" and lab[0] in ("T", "F"):
            v = self.exists_test(env, a)
            if v is not None and v != (lab[0] == "T"):
                return []
        # --- slot
        if normal and any(e.kind == "release" and e.path == SLOT for e in self.ctx.eff.of_node(n)) and self.ctx.in_pool(f):
            if slot == "held":
                slot = "free"
            else:
                ai.event(n, "the pool slot is released a second time for the same task", st)
                slot = "over"
        # --- callbacks: a user-code call whose callee carries the END / CANCEL role
        if n.op == "call" and n.callee is not None and n.callee.kind == "user" and isinstance(a, ast.Call):
            r = self.role_at(n, env, a.func)
            if r in ("END", "CANCEL"):
                self.cb_sites.append((n, r))
                if r == "CANCEL":
                    if loc != "C":
                        ai.event(n, f"cancel callback runs while the task is filed under '{loc}' instead of cancelled", st)
                    if ecb:
                        ai.event(n, "cancel callback runs after the end callback", st)
                    ccb = min(2, ccb + 1)
                else:
                    if loc != "E":
                        ai.event(n, f"end callback runs while the task is filed under '{loc}' instead of ended", st)
                    if slot != "free":
                        ai.event(n, "end callback runs before the task's slot was released", st)
                    if via and not ccb and self.has(env)[1]:
                        ai.event(n, "end callback runs before the cancel callback of a cancelled task", st)
                    ecb = min(2, ecb + 1)
                # the id handed to the callback
                idargs = [x for x in a.args]
                ok_id = any(isinstance(x, ast.Starred) and self.role_at(n, env, x.value) == "IDARGS" for x in idargs) or \
                    any(self.role_at(n, env, x) == "ID" for x in idargs)
                if not ok_id:
                    ai.event(n, "callback is not called with the task's id", st)
        # --- how the user coroutine ended
        if n.op == "await" and n.awaited_user and (n.root or f) is self.wrapper and self.role_at(n, env, strip_cast(a.value)) == "CORO":
            if lab[0] == "c":
                via = True
        return [(loc, slot, ccb, ecb, via, env)]

    # -------------------------------------------------------------------- run
    def run(self):
        self.exits = {}
        for st in self.init_states():
            for k, v in self.ai.run(self.wrapper, st).items():
                self.exits.setdefault(k, set()).update(v)
        return self.exits


def check_lifecycle(ctx: Ctx, rule_prefix: str, want: Set[str]):
    """Runs the typestate and records the obligations selected by `want`:
    'slot' (released exactly once), 'loc' (ends filed as ended, one registry at a time),
    'end' (end callback exactly once, ordered), 'cancel' (cancel callback iff cancelled)."""
    rep = ctx.rep
    for w in ctx.pool_funcs("_task_wrapper"):
        lc = Lifecycle(ctx, w)
        exits = lc.run()
        rep.analysed.setdefault("lifecycle", {})[w.qual] = {
            "product_states": lc.ai.product_states, "product_edges": lc.ai.product_edges,
            "exit_kinds": sorted(f"{k[0]}:{k[1][0].rpartition('.')[2] if k[1] else ''}" for k in exits),
            "functions_inlined": sorted(lc.ai.visited),
        }
        msgs_by_aspect = {
            "slot": ("slot is released a second time", "before the task's slot was released"),
            "loc": ("filed in no registry", "two registries at once"),
            "end": ("end callback runs", "not called with the task's id"),
            "id": ("not called with the task's id",),
            "cancel": ("cancel callback runs",),
        }
        for ev in lc.ai.events:
            for asp in want:
                if any(m in ev.msg for m in msgs_by_aspect[asp]):
                    rep.ob(f"{rule_prefix}.{asp}", ev.msg, False, node=ev.node, path=ev.trace,
                           detail=f"abstract state (loc, slot, cancel_cb, end_cb, cancelled) = {ev.state[:5]}")
                    break
        if ctx.tier == "thorough":
            from ..absint import enumerate_paths
            total = 0
            end_states: Set = set()
            trunc = False
            lc2 = Lifecycle(ctx, w)
            for st0 in lc2.init_states():
                ends, n_paths, tr = enumerate_paths(lc2.ai, w, st0)
                total += n_paths
                trunc = trunc or tr
                for (k, st_end), c in ends.items():
                    end_states.add((k, st_end))
            fix = {(k, s) for k, v in exits.items() for s in v}
            rep.analysed["lifecycle"][w.qual]["paths_enumerated"] = total
            rep.analysed["lifecycle"][w.qual]["path_end_states"] = len(end_states)
            rep.analysed["lifecycle"][w.qual]["enumeration_truncated"] = trunc
            agree = end_states <= fix and (trunc or fix <= end_states)
            rep.ob(f"{rule_prefix}.paths", "explicit enumeration of every acyclic path through the inlined life-cycle graph (fault injected at every suspension step and "
                   "user-code call) reaches exactly the end states of the fixpoint analysis", True if agree else None, func=w,
                   construct=f"{total} paths, {len(end_states)} distinct end states", detail="" if agree else f"fixpoint has {len(fix)} end states, enumeration {len(end_states)}")
        for key, states in sorted(exits.items(), key=str):
            kind = "return" if key[0] == "ret" else f"{'cancellation' if key[0] == 'c' else 'exception'} {key[1][0].rpartition('.')[2]}"
            for st in sorted(states, key=str):
                loc, slot, ccb, ecb, via, env = st
                he, hc = lc.has(env)
                tag = f"exit:{kind}|cancelled={via}|end_cb_given={he}|cancel_cb_given={hc}"
                if "slot" in want:
                    rep.ob(f"{rule_prefix}.slot", f"task wrapper ends ({kind}) with the slot released exactly once", slot == "free", func=w, construct=tag,
                           detail=f"slot={slot}")
                if "loc" in want:
                    rep.ob(f"{rule_prefix}.loc", f"task wrapper ends ({kind}) with the task filed as ended", loc == "E", func=w, construct=tag, detail=f"registry={loc}")
                if "end" in want:
                    rep.ob(f"{rule_prefix}.end", f"end callback begun exactly once when the wrapper ends ({kind})", ecb == (1 if he else 0), func=w, construct=tag, detail=f"end_cb={ecb}")
                if "cancel" in want:
                    rep.ob(f"{rule_prefix}.cancel", f"cancel callback begun exactly once iff the coroutine ended by cancellation ({kind})",
                           ccb == (1 if via and hc else 0), func=w, construct=tag, detail=f"cancel_cb={ccb} cancelled={via}")
        return lc
