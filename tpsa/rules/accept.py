"""Acceptance rules: VALIDATE-FIRST, check precedence, raise inventory, lock flag, one spawner per accepted request."""
from __future__ import annotations

import ast
import re
from typing import Dict, List, Optional, Set, Tuple

from ..cfg import NORMAL_KINDS, Label, Node
from ..model import FuncInfo
from ..queries import between, can_follow, count_paths, reach, reach_back
from .lib import CREATE_TASK, Ctx, dominated_by_completion, field_of
from .shared import create_sites, expr_role, is_spawner
from .spawner import const_reach

TRACE_FIELDS = ("_task_groups", "_group_meta_tasks_running", "_meta_tasks_cancelled", "_tasks_running", "_tasks_cancelled", "_tasks_ended",
                "_start_calls", "_num_started", "_enough_room", "_locked", "_closed")
WRITE_KINDS = ("insert", "remove", "clear", "assign", "aug", "release", "acquire", "set", "cancel")

ENTRY_POINTS = ("apply", "_map", "map", "starmap", "doublestarmap", "start")


def _is_partial_of_pkg(ctx: Ctx, n: Node) -> bool:
    """functools.partial(<package function>, ...): freezing arguments runs nothing and consumes nothing (the iterable is only stored)"""
    if not (n.callee.name.rpartition(".")[2] == "partial" and n.ast.args):
        return False
    cal = ctx.an.scope(n.func).callee(ast.Call(func=n.ast.args[0], args=[], keywords=[]))
    return cal.kind == "pkg"


def trace_nodes(ctx: Ctx, f: FuncInfo) -> List[Tuple[Node, str]]:
    out = []
    for n in ctx.nodes(f, lambda n: True):
        why = None
        for e in ctx.trans_effects(n):
            names = re.findall(r"\.([A-Za-z_0-9]+)", e.path)
            if e.kind in WRITE_KINDS and any(x in TRACE_FIELDS for x in names) and e.path.startswith("self"):
                why = f"{e.kind} {e.path}"
                break
        if why is None and ctx.is_ext_call(n, *CREATE_TASK):
            why = "create_task"
        if why is None and n.user:
            why = "user code runs"
        if why is None and n.op == "call" and n.callee is not None and n.callee.kind != "pkg" and isinstance(n.ast, ast.Call) \
                and not _is_partial_of_pkg(ctx, n):
            for a in list(n.ast.args) + [k.value for k in n.ast.keywords]:
                a = a.value if isinstance(a, ast.Starred) else a
                if isinstance(a, ast.Name) and a.id in f.param_names() and expr_role(ctx, f, a) == "ITER":
                    why = "the argument iterable is handed to " + n.callee.name
        if why is not None:
            out.append((n, why))
    return out


def r_validate_first(ctx: Ctx, rule: str, names=ENTRY_POINTS + ("pool_size.setter",), floor: int = 0):
    rep = ctx.rep
    rep.rule(rule, "VALIDATE-FIRST: on every path of a spawning method (or the pool_size setter) that ends in a raise, none of the traces the "
                   "property enumerates has occurred before: no write to the group table, spawner sets, registries, counters or the semaphore, "
                   "no create_task, no call of user code")
    n_exits = 0
    for name in names:
        funcs = ctx.pool_setters(name.split(".")[0]) if name.endswith(".setter") else ctx.pool_funcs(name, required=name in ("apply", "_map", "start"))
        for f in funcs:
            g = ctx.an.cfg(f)
            tn = trace_nodes(ctx, f)
            rexits = [x for x in g.raise_exits.values() if x.pred]
            n_exits += len(rexits)
            for x in rexits:
                bad = None
                for n, why in tn:
                    # the trace must have completed (normal edge out of n) before the raising exit is reached
                    after = reach([s for s, lab in n.succ if lab[0] in NORMAL_KINDS])
                    if x in after:
                        bad = (n, why)
                        break
                rep.ob(rule, f"a request rejected with {x.tok[0].rpartition('.')[2]} leaves no trace", bad is None, func=f,
                       construct=(bad[0] if bad else f"raise exit {x.tok[0].rpartition('.')[2]}"),
                       detail="" if bad is None else f"{bad[1]} at {bad[0].where()} happens before the request is rejected with {x.tok[0].rpartition('.')[2]}")
    rep.floor(rule, "raising exits of the entry points", n_exits, floor or 3 * len(names))
    # the name generator that runs before validation is effect-free
    for f in (ctx.pool_funcs("_generate_group_name", required=False) if any(n in names for n in ("map", "starmap", "doublestarmap")) else []):
        eff = [e for e in ctx.func_trans_effects(f) if e.kind in WRITE_KINDS and e.path.startswith("self")]
        users = ctx.nodes(f, lambda n: n.user)
        rep.ob(rule, "_generate_group_name (runs before validation in map/starmap/doublestarmap) has no effect on the pool and runs no user code",
               not eff and not users, func=f, construct=eff[0].node if eff else "pure")
    # arg_iter untouched by the synchronous part
    for name in [x for x in ("_map", "map", "starmap", "doublestarmap") if x in names]:
        for f in ctx.pool_funcs(name, required=False):
            for n in ctx.nodes(f, lambda n: n.op == "iter" and n.user):
                rep.ob(rule, "the argument iterable is not iterated by the synchronous part of the request", False, node=n)


def r_simple_init(ctx: Ctx, rule: str):
    rep = ctx.rep
    for c in ctx.pool_classes:
        if c.name != "SimpleTaskPool" or "__init__" not in c.methods:
            continue
        f = c.methods["__init__"]
        g = ctx.an.cfg(f)
        raises = ctx.nodes(f, lambda n: n.op == "raise" and any(cls.endswith("NotCoroutineFunction") for cls in ctx.hier.resolve(f.module, n.ast.exc)))
        rep.floor(rule, "NotCoroutineFunction raise in SimpleTaskPool.__init__", len(raises), 1)
        stores = ctx.nodes(f, lambda n: n.op == "assign" and any(e.kind == "assign" and e.path == "self._func" for e in ctx.eff.of_node(n)))
        users = ctx.nodes(f, lambda n: n.user)
        for r in raises:
            bad = [m for m in stores + users if can_follow(m, r)]
            rep.ob(rule, "SimpleTaskPool(func) rejects a non-coroutine function before storing or calling it", not bad, node=r)


def r_check_precedence(ctx: Ctx, rule: str):
    rep = ctx.rep
    rep.rule(rule, "precedence inside _check_start: type check, then closed, then locked (a closed pool is also locked; it must answer PoolIsClosed)")
    for f in ctx.pool_funcs("_check_start"):
        g = ctx.an.cfg(f)

        def raises_of(suffix: str) -> List[Node]:
            return ctx.nodes(f, lambda n: n.op == "raise" and n.ast.exc is not None and any(c.endswith(suffix) for c in ctx.hier.resolve(f.module, n.ast.exc)))

        closed_tests = ctx.nodes(f, lambda n: n.op == "test" and any(isinstance(x, ast.Attribute) and x.attr == "_closed" for x in ast.walk(n.ast)))
        type_tests = ctx.nodes(f, lambda n: n.op == "test" and any(isinstance(x, ast.Name) and x.id in ("iscoroutinefunction", "iscoroutine") for x in ast.walk(n.ast)))
        locked, closed = raises_of("PoolIsLocked"), raises_of("PoolIsClosed")
        rep.floor(rule, "raise PoolIsLocked / PoolIsClosed sites", min(len(locked), len(closed)), 1)
        for r in locked:
            ok = bool(closed_tests) and all(_passes_false_branch(g, closed_tests, r))
            rep.ob(rule, "PoolIsLocked is raised only after the closed-check came out negative", ok, node=r)
        type_raises = raises_of("NotCoroutineFunction") + raises_of("NotCoroutine")
        for r in closed:
            ok = bool(type_tests) and r not in reach([g.entry], avoid=set(type_tests))
            if not ok and type_tests and type_raises:
                # the type tests may be split (`if function:` / `if not iscoroutinefunction(function):`): what matters is the order -
                # once the closed flag has been looked at no type rejection can follow, and the type tests come first
                ok = not any(can_follow(ct, tr) for ct in closed_tests for tr in type_raises) and all(any(can_follow(tt, ct) for tt in type_tests) for ct in closed_tests)
            rep.ob(rule, "PoolIsClosed is raised only after the coroutine-function type check", ok, node=r)
            tests_here = [t for t in closed_tests if can_follow(t, r)]
            rep.ob(rule, "PoolIsClosed is guarded by a test of the closed flag", bool(tests_here), node=r)


def _passes_false_branch(g, tests: List[Node], target: Node):
    """For each path entry->target: it must take the 'not closed' outcome of a closed-test.  Decided by removing those edges."""
    def positive_is_closed(t: Node) -> bool:
        e = t.ast
        neg = isinstance(e, ast.UnaryOp) and isinstance(e.op, ast.Not)
        return not neg

    def ef(a: Node, b: Node, lab: Label) -> bool:
        if a in tests and lab[0] in ("T", "F"):
            closed_outcome = "T" if positive_is_closed(a) else "F"
            # drop the 'not closed' edge: if the target is still reachable some path avoids it
            return lab[0] == closed_outcome
        return True

    # target must be unreachable when only 'closed' outcomes may be taken at those tests ...
    r1 = target not in reach([g.entry], ef)
    # ... and unreachable when the tests are bypassed entirely
    r2 = target not in reach([g.entry], avoid=set(tests))
    return [r1, r2]


def r_raise_inventory(ctx: Ctx, rule: str, classes: Optional[Set[str]] = None, entries: Optional[Set[str]] = None, guards: Optional[Set[str]] = None):
    """classes / entries restrict the inventory; guards subset of {"nconc", "size", "dup"} selects the guard-shape checks (default: all)"""
    rep = ctx.rep
    rep.rule(rule, "raise inventory by constant propagation from each entry point: apply/_map/start can reach NotCoroutineFunction, PoolIsClosed, "
                   "PoolIsLocked; apply/_map also TaskGroupAlreadyExists; _map ValueError (num_concurrent < 1); the pool_size setter ValueError")
    want = {
        "apply": {"NotCoroutineFunction", "PoolIsClosed", "PoolIsLocked", "TaskGroupAlreadyExists"},
        "_map": {"NotCoroutineFunction", "PoolIsClosed", "PoolIsLocked", "TaskGroupAlreadyExists", "ValueError"},
        "map": {"NotCoroutineFunction", "PoolIsClosed", "PoolIsLocked", "TaskGroupAlreadyExists", "ValueError"},
        "starmap": {"NotCoroutineFunction", "PoolIsClosed", "PoolIsLocked", "TaskGroupAlreadyExists", "ValueError"},
        "doublestarmap": {"NotCoroutineFunction", "PoolIsClosed", "PoolIsLocked", "TaskGroupAlreadyExists", "ValueError"},
        "start": {"NotCoroutineFunction", "PoolIsClosed", "PoolIsLocked"},
        "pool_size.setter": {"ValueError"},
    }
    guards = {"nconc", "size", "dup"} if guards is None else guards
    for name, need in want.items():
        if entries is not None and name not in entries:
            continue
        if classes is not None:
            need = need & classes
        funcs = ctx.pool_setters("pool_size") if name.endswith(".setter") else ctx.pool_funcs(name, required=name in ("apply", "_map", "start"))
        for f in funcs:
            got: Set[str] = set()
            sites: Dict[str, Node] = {}

            def on_node(ai, node: Node, env):
                if node.op == "raise" and node.ast.exc is not None:
                    for cls in ctx.hier.resolve(node.func.module, node.ast.exc):
                        got.add(cls.rpartition(".")[2])
                        sites.setdefault(cls.rpartition(".")[2], node)

            const_reach(ctx, f, {}, on_node)
            for cls in sorted(need):
                rep.ob(rule, f"{name} can reject with {cls}", cls in got, func=f, construct=f"{name}: raise {cls}",
                       detail="" if cls in got else "no reachable raise of this class from the entry point with its literal/default arguments")
    # the guards themselves
    for f in (ctx.pool_funcs("_map") if "nconc" in guards else []):
        tests = ctx.nodes(f, lambda n: n.op == "test" and isinstance(n.ast, ast.Compare) and expr_role(ctx, f, n.ast.left) == "NCONC")
        ok = None
        for t in tests:
            c = n_cmp(t.ast)
            if c is not None:
                ok = c == ("<", 1) or c == ("<=", 0)
        rep.ob(rule, "_map rejects exactly num_concurrent < 1", ok, func=f, construct=tests[0] if tests else "(no comparison of num_concurrent)")
    for f in (ctx.pool_setters("pool_size") if "size" in guards else []):
        def is_value_param(n: Node) -> bool:
            # the setter's own parameter - also when the test sits in a helper (spliced in) that was handed the value
            fr_, env_, leaf = ctx.vals.trace(n.func, n.env, n.ast.left)
            return fr_ is f and not env_ and isinstance(leaf, ast.Name) and leaf.id in f.param_names()

        tests = ctx.nodes(f, lambda n: n.op == "test" and isinstance(n.ast, ast.Compare) and isinstance(n.ast.left, ast.Name) and is_value_param(n))
        ok = None
        for t in tests:
            c = n_cmp(t.ast)
            if c is not None:
                ok = c == ("<", 0) or c == ("<=", -1)
        rep.ob(rule, "the pool_size setter rejects exactly value < 0", ok, func=f, construct=tests[0] if tests else "(no comparison)")
    n_dup = 0
    for f in (ctx.pool_functions() if "dup" in guards else []):
        rs = ctx.distinct_sites(ctx.nodes(f, lambda n: n.op == "raise" and n.ast.exc is not None and any(c.endswith("TaskGroupAlreadyExists") for c in ctx.hier.resolve(f.module, n.ast.exc))))
        for r in rs:
            n_dup += 1
            g = ctx.an.cfg(f)
            P = ctx.eff.paths(f)

            def is_membership(t: Node) -> Optional[bool]:
                """True: proper membership test of the requested name in the group table; False: a test of the table that is not a membership test"""
                e = t.ast
                # (the test may sit in a helper spliced into f: paths and names are read in its frame and put in f's terms)
                Pt = ctx.eff.paths(t.func)

                def path_of(x):
                    p_ = Pt.of(x)
                    return ctx.eff.rebase(p_, t.func, t.env) if p_ else None

                def role_of(x):
                    fr_, _env, leaf = ctx.vals.trace(t.func, t.env, x)
                    return expr_role(ctx, fr_, leaf) or expr_role(ctx, t.func, x)

                if isinstance(e, ast.UnaryOp) and isinstance(e.op, ast.Not):
                    e = e.operand
                if isinstance(e, ast.Compare) and len(e.ops) == 1 and isinstance(e.ops[0], (ast.In, ast.NotIn)):
                    c = e.comparators[0]
                    if isinstance(c, ast.Call) and isinstance(c.func, ast.Attribute) and c.func.attr == "keys":
                        c = c.func.value
                    if path_of(c) == "self._task_groups" and role_of(e.left) == "GROUP":
                        return True
                if isinstance(e, ast.Compare) and len(e.ops) == 1 and isinstance(e.ops[0], (ast.Is, ast.IsNot)) and isinstance(e.comparators[0], ast.Constant) and e.comparators[0].value is None:
                    ls = ctx.vals.leaves_at(t, e.left.value if isinstance(e.left, ast.NamedExpr) else e.left)
                    if ls and all(isinstance(l, ast.Call) and isinstance(l.func, ast.Attribute) and l.func.attr == "get" and len(l.args) in (1, 2)
                                  and ctx.eff.rebase(ctx.eff.paths(fr_).of(l.func.value) or "", fr_, env_) == "self._task_groups" for fr_, env_, l in ls):
                        return True
                if any(isinstance(x, (ast.Attribute, ast.Name)) and path_of(x) == "self._task_groups" for x in ast.walk(t.ast)):
                    return False
                return None

            tests = ctx.nodes(f, lambda n: n.op == "test")
            proper = [t for t in tests if is_membership(t) is True]
            improper = [t for t in tests if is_membership(t) is False and r in reach([t])]
            ok = bool(proper) and r not in reach([g.entry], avoid=set(proper))
            rep.ob(rule, "TaskGroupAlreadyExists is raised exactly when the requested name is in the group table", ok, node=r,
                   detail="" if ok else ("the guard is not a membership test: " + improper[0].text(60) + " (an existing group whose register is still empty is falsy, so its name is accepted again)"
                                          if improper else "no membership test of the name in the group table dominates the raise"))
            # and the accepting path: registration only on the not-a-member outcome
    if "dup" in guards:
        rep.floor(rule, "raise TaskGroupAlreadyExists sites", n_dup, 1)


def n_cmp(c: ast.Compare) -> Optional[Tuple[str, int]]:
    if len(c.ops) != 1 or not isinstance(c.comparators[0], ast.Constant) and not (isinstance(c.comparators[0], ast.UnaryOp) and isinstance(c.comparators[0].operand, ast.Constant)):
        return None
    try:
        v = ast.literal_eval(c.comparators[0])
    except Exception:
        return None
    op = {ast.Lt: "<", ast.LtE: "<=", ast.Gt: ">", ast.GtE: ">="}.get(type(c.ops[0]))
    return (op, v) if op else None


def r_lock_flag(ctx: Ctx, rule: str):
    rep = ctx.rep
    rep.rule(rule, "WHO(write _locked) = {__init__, lock, unlock}; lock only stores True, unlock only False; is_locked returns the flag")
    effs = [e for e in ctx.effects(fields=["_locked"], kinds=["assign", "aug"]) if e.path.endswith("._locked")]
    rep.floor(rule, "writes of _locked", len(effs), 3)
    for e in effs:
        hosts = ctx.hosts_of(e.node)
        rep.ob(rule, "_locked written only by __init__, lock and unlock", hosts <= {"__init__", "lock", "unlock"} and ctx.in_pool(e.node.func), node=e.node)
        val = getattr(e.node.ast, "value", None)
        if val is not None:
            # through locals and the parameters of a helper spliced into lock()/unlock()
            val = ctx.vals.trace(e.node.func, e.node.env, val)[2]
        if hosts <= {"lock"}:
            rep.ob(rule, "lock() stores only True", isinstance(val, ast.Constant) and val.value is True, node=e.node)
        if hosts <= {"unlock"}:
            rep.ob(rule, "unlock() stores only False", isinstance(val, ast.Constant) and val.value is False, node=e.node)
    # the lock belongs to the user: the pool itself never unlocks, and locks only when it is asked to close
    callers = [n for fn in ctx.pool_functions() for n in ctx.distinct_sites(ctx.nodes(fn, lambda n: n.op == "call" and n.inlined is None and ctx.is_call_to(n, "lock", "unlock")))]
    for n in callers:
        nm = n.callee.targets[0].name
        hosts = ctx.hosts_of(n)
        if nm == "unlock":
            rep.ob(rule, "no method of the pool unlocks it (a lock() the user issued stays in force until the user calls unlock())", False, node=n,
                   detail=f"{sorted(hosts)} calls unlock(): a lock set by the user meanwhile is dropped and requests are accepted again")
        else:
            rep.ob(rule, "the pool locks itself only in gather_and_close", hosts <= {"gather_and_close"}, node=n, detail=f"called on behalf of {sorted(hosts)}")
    for name, const in (("lock", True), ("unlock", False)):
        for f in ctx.pool_funcs(name):
            # on every path to the normal exit the flag ends with the constant: either stored, or the guard showed it already had it
            stores = ctx.nodes(f, lambda n: n.op == "assign" and any(e.path.endswith("._locked") for e in ctx.eff.of_node(n)))
            rep.ob(rule, f"{name}() stores the flag", bool(stores), func=f, construct=stores[0] if stores else "(no store)")
            g = ctx.an.cfg(f)
            for path_ok, why in _flag_paths(ctx, f, const):
                rep.ob(rule, f"after {name}() the flag is {const} on every path (idempotent)", path_ok, func=f, construct=why)
            rep.ob(rule, f"{name}() cannot raise", not [x for x in g.raise_exits.values() if x.pred], func=f, construct=f"{name}: no raising exit")


def _flag_paths(ctx: Ctx, f: FuncInfo, const: bool):
    """Paths to the exit either store `const` or pass a test of self._locked whose outcome implies it."""
    g = ctx.an.cfg(f)
    V = ctx.vals

    def const_of(n: Node, e: Optional[ast.AST]):
        """the literal an expression stands for at step n (through locals and the parameters of spliced helpers)"""
        if e is None:
            return None
        leaf = V.trace(n.func, n.env, e)[2]
        return leaf if isinstance(leaf, ast.Constant) else None

    stores = set(ctx.nodes(f, lambda n: n.op == "assign" and any(e.path.endswith("._locked") for e in ctx.eff.of_node(n))
                           and const_of(n, getattr(n.ast, "value", None)) is not None and const_of(n, n.ast.value).value is const))
    tests = ctx.nodes(f, lambda n: n.op == "test" and any(isinstance(x, ast.Attribute) and x.attr == "_locked" for x in ast.walk(n.ast)))

    def flag(e: ast.AST) -> bool:
        if isinstance(e, ast.Call) and isinstance(e.func, ast.Name) and e.func.id == "bool" and len(e.args) == 1:
            e = e.args[0]
        return isinstance(e, ast.Attribute) and e.attr == "_locked"

    def says(n: Node, e: ast.AST) -> Optional[bool]:
        """the value of the flag that the test being TRUE implies (None: the test says nothing usable)"""
        if isinstance(e, ast.UnaryOp) and isinstance(e.op, ast.Not):
            v = says(n, e.operand)
            return None if v is None else not v
        if flag(e):
            return True
        if isinstance(e, ast.Compare) and len(e.ops) == 1:
            l, r = e.left, e.comparators[0]
            if flag(r) and not flag(l):
                l, r = r, l
            k = const_of(n, r)
            if flag(l) and k is not None and isinstance(k.value, bool):
                if isinstance(e.ops[0], (ast.Is, ast.Eq)):
                    return k.value
                if isinstance(e.ops[0], (ast.IsNot, ast.NotEq)):
                    return not k.value
        return None

    def ef(a: Node, b: Node, lab: Label) -> bool:
        if a in tests and lab[0] in ("T", "F"):
            v = says(a, a.ast)
            if v is None:
                return True
            implied = v if lab[0] == "T" else (not v)
            # outcome shows the flag already equals const: this path is fine, cut it
            return implied != const
        return True

    reachable = reach([g.entry], ef, avoid=stores)
    yield (g.exit not in reachable, "every path stores the constant or has observed it")


def r_one_spawner_per_request(ctx: Ctx, rule: str, names=("apply", "_map", "start")):
    rep = ctx.rep
    rep.rule(rule, "an accepted request creates exactly one spawner task, registers it under the request's group, and returns the group name "
                   "that was passed down")
    for name in names:
        for f in ctx.pool_funcs(name):
            sites = [n for n, arg, t in create_sites(ctx, [f]) if t and all(is_spawner(ctx, x) for x in t)]
            rep.floor(rule, f"spawner creation in {name}", len(sites), 1)
            g = ctx.an.cfg(f)
            res = count_paths(ctx.an, f, lambda n: any(n.ast is s.ast and n.op == "call" for s in sites), interproc=False)
            cnt = res.get(("ret", None), frozenset())
            rep.ob(rule, f"{name} creates exactly one spawner task per accepted request", cnt == frozenset({1}), func=f, construct=f"{name}: create_task(<spawner>) count",
                   detail=f"counts on normal return {sorted(cnt)}")
            for s in sites:
                # the created task is filed in the running-spawner set of the group
                stored = [m for m in g.nodes if m.pred and any(e.kind == "insert" and field_of(e.path) == "_group_meta_tasks_running" for e in ctx.eff.of_node(m))
                          and (any(x is s.ast for x in ast.walk(m.ast))
                               or any(isinstance(x, ast.Name) and ctx.vals.resolve(m.func, x) is s.ast for x in ast.walk(m.ast) if isinstance(x, ast.Name) and isinstance(x.ctx, ast.Load)))]
                rep.ob(rule, "the spawner task is registered among the group's running spawners (so cancel_group / gather_and_close can find it)", bool(stored), node=s)
            # group registration before the spawner exists
            regs = ctx.nodes(f, lambda n: any(e.kind == "insert" and e.path == "self._task_groups" for e in ctx.trans_effects(n)))
            rep.ob(rule, f"{name} registers the group", bool(regs), func=f, construct=regs[0] if regs else "(no registration)")
            # returned name == name passed to the spawner
            rets = [n for n in ctx.nodes(f, lambda n: n.op == "return") if n.ast.value is not None]
            for s in sites:
                arg = s.ast.args[0] if s.ast.args else None
                for kw in s.ast.keywords:
                    if kw.arg in ("coro",):
                        arg = kw.value
                if arg is not None:
                    arg = ctx.vals.resolve(s.func, arg)
                if not isinstance(arg, ast.Call):
                    continue
                gfr, genv = s.func, s.env
                if (id(arg), id(s.env)) in ctx.an.partial_syn:
                    # `factory()` with factory = partial(self._spawner, group_name, ...): the direct call it stands for, in its own frame
                    gfr, genv = ctx.an.partial_frame[(id(arg), id(s.env))]
                    arg = ctx.an.partial_syn[(id(arg), id(s.env))]
                tg_ = ctx.an.scope(gfr).callee(arg).targets
                if not tg_:
                    continue
                t = tg_[0]
                gexpr = ctx.call_arg(arg, t, "group_name")
                for r in rets:
                    same = gexpr is not None and (ast.unparse(gexpr) == ast.unparse(r.ast.value) or ctx.vals.same((gfr, genv, gexpr), (r.func, r.env, r.ast.value)))
                    rep.ob(rule, "the returned group name is the one handed to the spawner", same, node=r,
                           detail=f"spawner gets {ast.unparse(gexpr) if gexpr is not None else None}")


def r_function_predicate(ctx: Ctx, rule: str) -> None:
    """What is accepted as the function of a request is what asyncio's `iscoroutinefunction` accepts - nothing more.  Decided by
    evaluating the tests of `_check_start` (and of SimpleTaskPool.__init__) three-valued under the assumption "a function was
    passed and iscoroutinefunction(function) is false": the normal exit must be unreachable (the request is rejected)."""
    from ..cfg import bind_args, strip_cast

    rep = ctx.rep
    rep.rule(rule, "FUNCTION-PREDICATE: with a function given for which iscoroutinefunction(function) is false, neither _check_start nor "
                   "SimpleTaskPool.__init__ can return normally (a wider home-made predicate - callable objects, classes with an async "
                   "__call__ - lets requests through whose call never yields a coroutine)")
    targets = [(f, "function") for f in ctx.pool_funcs("_check_start")] + [(f, "func") for f in ctx.pool_funcs("__init__") if "func" in f.param_names()]
    rep.floor(rule, "functions validating the coroutine function", len(targets), 2)
    for f, pname in targets:
        g = ctx.an.cfg(f)

        def is_param(fr, env, e: ast.AST, which: Optional[str] = None) -> bool:
            which = which or pname
            fr2, env2, leaf = ctx.vals.trace(fr, env, e)
            return fr2 is f and isinstance(leaf, ast.Name) and leaf.id == which and not ctx.an.scope(f).defs.get(which)

        # the request under test passes the function and nothing else (`awaitable` and `function` exclude each other)
        absent = [p for p in f.param_names() if p == "awaitable"]

        def is_absent(fr, env, e: ast.AST) -> bool:
            return any(is_param(fr, env, e, a_) for a_ in absent)

        def ev(fr, env, e: ast.AST, depth: int = 0):
            """True / False / None (unknown) under the assumption"""
            e = strip_cast(e)
            if depth > 6:
                return None
            if isinstance(e, ast.UnaryOp) and isinstance(e.op, ast.Not):
                v = ev(fr, env, e.operand, depth + 1)
                return None if v is None else not v
            if isinstance(e, ast.BoolOp):
                vals = [ev(fr, env, x, depth + 1) for x in e.values]
                if isinstance(e.op, ast.And):
                    return False if any(v is False for v in vals) else (True if all(v is True for v in vals) else None)
                return True if any(v is True for v in vals) else (False if all(v is False for v in vals) else None)
            if isinstance(e, ast.Compare) and len(e.ops) == 1 and isinstance(e.comparators[0], ast.Constant) and e.comparators[0].value is None and is_param(fr, env, e.left):
                if isinstance(e.ops[0], ast.Is):
                    return False
                if isinstance(e.ops[0], ast.IsNot):
                    return True
            if isinstance(e, ast.Compare) and len(e.ops) == 1 and isinstance(e.comparators[0], ast.Constant) and e.comparators[0].value is None and is_absent(fr, env, e.left):
                if isinstance(e.ops[0], ast.Is):
                    return True
                if isinstance(e.ops[0], ast.IsNot):
                    return False
            if isinstance(e, ast.Constant) and isinstance(e.value, bool):
                return e.value
            if isinstance(e, ast.Call):
                if id(e) in ctx.an.spliced_at and depth < 4:
                    t = ctx.an.spliced_at[id(e)]
                    sub = bind_args(e, t, fr, env)
                    rets = [r.value for r in ctx.an.scope(t)._own_nodes() if isinstance(r, ast.Return) and r.value is not None]
                    vals = {ev(t, sub, r, depth + 1) for r in rets}
                    return vals.pop() if len(vals) == 1 else None
                nm = ctx.an.scope(fr).callee(e).name
                if nm.rpartition(".")[2] == "iscoroutinefunction" and len(e.args) == 1 and not e.keywords and is_param(fr, env, e.args[0]):
                    return False
                return None
            if isinstance(e, ast.Name):
                if is_param(fr, env, e):
                    return True
                if is_absent(fr, env, e):
                    return False
                hows = ctx.an.scope(fr).defs.get(e.id, [])
                if len(hows) == 1 and hows[0][0] in ("assign", "ann"):
                    return ev(fr, env, hows[0][1] if hows[0][0] == "assign" else hows[0][2], depth + 1)
            return None

        def ef(a: Node, b: Node, lab: Label) -> bool:
            if lab[0] not in NORMAL_KINDS:
                return False
            if a.op == "test" and lab[0] in ("T", "F"):
                v = ev(a.func, a.env, a.ast)
                if v is not None:
                    return (lab[0] == "T") == v
            return True

        accepted = g.exit in reach([g.entry], ef)
        rep.ob(rule, "a function that is no coroutine function cannot pass the check", not accepted, func=f, construct=f"{f.short}({pname}=<not a coroutine function>)",
               detail="" if not accepted else "some path returns normally although iscoroutinefunction(function) is false: the predicate in use accepts more than coroutine functions")


_PREDICATE_HOME = {"iscoroutine": "asyncio.coroutines.iscoroutine", "iscoroutinefunction": "asyncio.coroutines.iscoroutinefunction"}


def r_external_predicates(ctx: Ctx, rule: str):
    """EXTERNAL-PREDICATES.  What counts as a coroutine / a coroutine function is decided by asyncio's own predicates - the ones the
    event loop applies when it is handed the object: `inspect.iscoroutine` knows native coroutine objects only, so a coroutine the
    loop would run (a collections.abc.Coroutine, a generator-based one) is rejected - inside the spawner, after the request was
    accepted - and `inspect.iscoroutinefunction` / asyncio's differ on marked and wrapped functions."""
    rep = ctx.rep
    rep.rule(rule, "EXTERNAL-PREDICATES: every call of `iscoroutine` / `iscoroutinefunction` in the package resolves to asyncio.coroutines' function "
                   "(not inspect's, not a home-made one): acceptance (iscoroutinefunction at the entry point) and the check inside the spawner "
                   "(iscoroutine in _check_start) then agree with what create_task accepts")
    n = 0
    for f in ctx.prog.every_function():
        sc = ctx.an.scope(f)
        for x in sc._own_nodes():
            if not isinstance(x, ast.Call):
                continue
            nm = x.func.id if isinstance(x.func, ast.Name) else (x.func.attr if isinstance(x.func, ast.Attribute) else None)
            if nm not in _PREDICATE_HOME:
                continue
            try:
                cal = sc.callee(x)
            except Exception:
                cal = None
            q = getattr(cal, "name", None)
            n += 1
            ok = cal is not None and cal.kind == "ext" and ctx.prog.canon(q) in (_PREDICATE_HOME[nm], "asyncio." + nm)
            rep.ob(rule, f"`{nm}` is asyncio's predicate", ok, func=f, construct=x, detail=f"resolves to {q}")
    rep.floor(rule, "calls of the coroutine predicates", n, 4)
