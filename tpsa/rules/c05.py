"""C05 — map family: element-wise, ordered, bounded, lazy, work-conserving."""
import ast

from ..cfg import NORMAL_KINDS
from ..exc import CANCELLED
from ..queries import between, count_paths, reach
from .lib import SLOT, Ctx, dominated_by_completion, surplus_forwarded_only
from . import shared as S
from . import spawner as SP
from .shared import expr_role
from .lifecycle import check_lifecycle


def check(ctx: Ctx) -> None:
    rep = ctx.rep
    r_star_table(ctx, "R05.1")
    r_lazy_iter(ctx, "R05.2")
    SP.r_spawner_iterations(ctx, "R05.2i", ("_arg_consumer",))
    r_map_bound(ctx, "R05.3")
    r_map_end_wrapper(ctx, "R05.4")
    SP.r_unreachable_lock_raise(ctx, "R05.6")
    SP.r_no_fake_cancellation(ctx, "R05.10")
    S.r_spawner_registry_who(ctx, "R05.8")
    from .elemtrack import r_spawner_kept
    r_spawner_kept(ctx, "R05.9")
    S.r_wiring(ctx, "R05.w", {"ITER", "STARS", "NCONC", "FUNC", "GROUP", "END", "CANCEL", "MAPSEM"}, 20, "map roles")
    rep.rule("R05.7", "work-conserving: the map-concurrency slot comes back only through the task's end callback, so that callback must begin "
                      "exactly once on every way a task can end - return, exception, cancellation (life-cycle typestate, shared with C03)")
    check_lifecycle(ctx, "R05.7", {"end"})
    # premises of the registry-integrity lemma the typestate relies on (shared with C02/C03)
    S.r_snapshot_forget(ctx, "R13.1")
    S.r_registry_who(ctx, "R03.1")
    S.r_handoff(ctx, "R02.1")
    # ... and ids are unique: two running tasks filed under one id overwrite each other in the registry, the second one's ending
    # finds nothing to move, its end callback never begins and the map slot it held is never returned (shared with C11)
    from . import naming as N
    N.r_id_discipline(ctx, "R05.11")
    # the map slot comes back through the wrapped end callback, an `async def` run by execute_optional: it must be awaited there
    S.r_execute_optional(ctx, "R05.12")
    # "nothing skipped": a map still consuming when gather_and_close() is called loses its remaining elements if the close stops
    # waiting for its spawner and forgets the registries under it (the tasks it starts afterwards end with a KeyError, the map slot
    # never comes back, the spawner dies with PoolIsClosed) - the close waits for the spawners the registry holds when the wait starts
    from . import close as CL
    CL.r_gather_complete(ctx, "R05.13", ("gather_and_close",))
    CL.r_fresh_members(ctx, "R05.14", clauses=("copy",))


def r_star_table(ctx: Ctx, rule: str) -> None:
    rep = ctx.rep
    rep.rule(rule, "TABLE(map/starmap/doublestarmap == star_function): the constants 0/1/2 reach arg_stars; in star_function the branch for "
                   "0 is function(arg), for 1 function(*arg), for 2 function(**arg); group-name prefixes equal the method names")
    table = {"map": 0, "starmap": 1, "doublestarmap": 2}
    for m, k in table.items():
        for f in ctx.pool_funcs(m):
            sc = ctx.an.scope(f)
            calls = [n for n in ctx.distinct_sites(ctx.nodes(f, lambda n: ctx.is_call_to(n, "_map")))]
            rep.floor(rule, f"_map call in {m}", len(calls), 1)
            V = ctx.vals

            def origin(n, e):
                """where the argument comes from, seen from the public method (through helpers spliced into it)"""
                return V.trace(n.func, n.env, e) if e is not None else (n.func, n.env, None)

            for c in calls:
                a = origin(c, ctx.call_arg(c.ast, c.callee.targets[0], "arg_stars"))[2]
                a = V.const(f, a) if a is not None and not isinstance(a, ast.Constant) else a
                rep.ob(rule, f"{m} passes arg_stars={k}", isinstance(a, ast.Constant) and a.value == k and not isinstance(a.value, bool), node=c,
                       detail=f"arg_stars <- {ast.unparse(a) if a is not None else None}")
                fr, _, it = origin(c, ctx.call_arg(c.ast, c.callee.targets[0], "arg_iter"))
                rep.ob(rule, f"{m} hands its iterable parameter to _map", fr is f and expr_role(ctx, fr, it) == "ITER", node=c)
            gens = ctx.distinct_sites(ctx.nodes(f, lambda n: ctx.is_call_to(n, "_generate_group_name")))
            for gcall in gens:
                a = origin(gcall, ctx.call_arg(gcall.ast, gcall.callee.targets[0], "prefix"))[2]
                a = V.const(f, a) if a is not None and not isinstance(a, ast.Constant) else a
                rep.ob(rule, f"generated group names of {m} start with '{m}'", isinstance(a, ast.Constant) and a.value == m, node=gcall)
    sf = ctx.prog.func("internals.helpers.star_function")
    params = sf.param_names()
    pf, pa, ps = params[0], params[1], params[2]
    for k in (0, 1, 2):
        shapes = set()
        reached = set()
        ucalls = set()

        def on_node(ai, node, env, shapes=shapes, reached=reached, ucalls=ucalls):
            if node.func is sf or node.root is sf:
                reached.add(node)
            if (node.func is sf or node.root is sf) and node.op == "call" and node.callee is not None and node.callee.kind == "user":
                ucalls.add(node)
                c = node.ast

                def is_arg(e_) -> bool:
                    """the element itself: star_function's parameter, also seen through the parameter of a helper spliced in"""
                    if node.func is sf:
                        return isinstance(e_, ast.Name) and e_.id == pa
                    fr_, env_, leaf_ = ctx.vals.trace(node.func, node.env, e_)
                    return fr_ is sf and env_ is None and isinstance(leaf_, ast.Name) and leaf_.id == pa

                def is_func(e_) -> bool:
                    if node.func is sf:
                        return isinstance(e_, ast.Name) and e_.id == pf
                    fr_, env_, leaf_ = ctx.vals.trace(node.func, node.env, e_)
                    return fr_ is sf and env_ is None and isinstance(leaf_, ast.Name) and leaf_.id == pf

                if not is_func(c.func):
                    shapes.add("other:" + ast.unparse(c))
                elif len(c.args) == 1 and not c.keywords and not isinstance(c.args[0], ast.Starred) and is_arg(c.args[0]):
                    shapes.add(0)
                elif len(c.args) == 1 and not c.keywords and isinstance(c.args[0], ast.Starred) and is_arg(c.args[0].value):
                    shapes.add(1)
                elif not c.args and len(c.keywords) == 1 and c.keywords[0].arg is None and is_arg(c.keywords[0].value):
                    shapes.add(2)
                else:
                    shapes.add("other:" + ast.unparse(c))

        SP.const_reach(ctx, sf, {ps: k}, on_node)
        form = {0: "function(arg)", 1: "function(*arg)", 2: "function(**arg)"}[k]
        rep.ob(rule, f"star_function with arg_stars={k} calls {form} and nothing else", shapes == {k}, func=sf, construct=f"arg_stars={k}",
               detail=f"reachable call shapes {sorted(map(str, shapes))}")
        # ... for every element: no path for this arg_stars raises on its own account or returns without having made the call
        # (an element that star_function refuses is logged and skipped by the consumer although func(x) would not have raised)
        own_raises = [n for n in reached if n.op == "raise"]
        rep.ob(rule, f"star_function with arg_stars={k} raises nothing of its own: only the call {form} can fail", not own_raises, func=sf,
               construct=own_raises[0] if own_raises else f"arg_stars={k}: no raise statement reachable",
               detail="" if not own_raises else f"`{own_raises[0].text(70)}` is reachable with arg_stars={k}: the element is rejected before the function is even called")
        from ..queries import reach as _reach
        gsf = ctx.an.cfg(sf)
        skipping = gsf.exit in _reach([gsf.entry], lambda a, b, l: b in reached and l[0] in ("n", "T", "F"), avoid=ucalls) if gsf.entry in reached else False
        rep.ob(rule, f"star_function with arg_stars={k} never returns without having called the function", not skipping, func=sf,
               construct=f"arg_stars={k}: exit only through the call")
    # default of star_function is irrelevant as long as the consumer passes arg_stars explicitly
    for f in ctx.pool_funcs("_arg_consumer"):
        calls = ctx.distinct_sites(ctx.nodes(f, lambda n: ctx.is_call_to(n, "star_function")))
        rep.floor(rule, "star_function call in _arg_consumer", len(calls), 1)
        for c in calls:
            t = c.callee.targets[0]
            rep.ob(rule, "the consumer passes its arg_stars on to star_function", expr_role(ctx, f, ctx.call_arg(c.ast, t, ps)) == "STARS", node=c)
            rep.ob(rule, "the consumer calls the request's function", expr_role(ctx, f, ctx.call_arg(c.ast, t, pf)) == "FUNC", node=c)
            # the element passed is the loop variable of this iteration
            head = SP.spawner_loop(ctx, f)
            a = ctx.call_arg(c.ast, t, pa)
            if a is not None:
                fr_a, _env_a, a = ctx.vals.trace(c.func, c.env, a)  # (through the parameters of helpers spliced into the consumer)
                if fr_a is not f:
                    a = None
            ok = None
            if head is not None and isinstance(head.ast, ast.For) and isinstance(a, ast.Name):
                names = [x.id for x in ast.walk(head.ast.target) if isinstance(x, ast.Name)]
                ok = a.id in names
                if ok and isinstance(head.ast.iter, ast.Call) and isinstance(head.ast.iter.func, ast.Name) and head.ast.iter.func.id == "enumerate":
                    tg = head.ast.target
                    ok = isinstance(tg, ast.Tuple) and len(tg.elts) == 2 and isinstance(tg.elts[1], ast.Name) and tg.elts[1].id == a.id
            rep.ob(rule, "the element handed to the function is the one pulled in this iteration", ok, node=c)


def r_lazy_iter(ctx: Ctx, rule: str) -> None:
    rep = ctx.rep
    rep.rule(rule, "laziness/order: the iterable parameter flows from the public method to exactly one `for` header in _arg_consumer "
                   "(optionally through enumerate/iter) and into nothing else (no list()/tuple()/sorted()/next()/len())")
    from ..cfg import bind_args

    uses = [0]
    done = set()

    def forwards_only(t, benv, names) -> bool:
        return surplus_forwarded_only(ctx, t, benv, names, ("_map", "_arg_consumer"))

    def check(f, iters) -> None:
        key = (f.qual, tuple(sorted(iters)))
        if key in done or not iters:
            return
        done.add(key)
        sc = ctx.an.scope(f)
        parents = {}
        for node in sc._own_nodes():
            for ch in ast.iter_child_nodes(node):
                parents[id(ch)] = node
        for node in sc._own_nodes():
            if isinstance(node, ast.Name) and node.id in iters and isinstance(node.ctx, ast.Load):
                uses[0] += 1
                par = parents.get(id(node))
                ok = False
                what = type(par).__name__
                call = par if isinstance(par, ast.Call) else (parents.get(id(par)) if isinstance(par, ast.keyword) else None)
                if isinstance(call, ast.Call) and id(call) in ctx.an.spliced_at and (isinstance(par, ast.keyword) or node in call.args):
                    # handed to a helper that is spliced into this method: judged by what the helper does with it
                    t = ctx.an.spliced_at[id(call)]
                    benv = bind_args(call, t, f, None)
                    bound = {pn for pn, (_, arg, _e) in benv.items() if arg is node}
                    surplus = {pn for pn, (_, arg, _e) in benv.items() if isinstance(arg, ast.Tuple) and any(x is node for x in arg.elts)
                               or isinstance(arg, ast.Dict) and any(x is node for x in arg.values)}
                    if bound:
                        check(t, bound)
                        ok = True
                        what = t.qual
                    elif surplus:
                        # one of the helper's *args / **kwargs: fine when the helper only forwards them, starred, to the consumer it was handed
                        ok, what = forwards_only(t, benv, surplus), t.qual + " (*args)"
                elif isinstance(par, ast.Call):
                    cal = sc.callee(par)
                    what = cal.name
                    if cal.kind == "pkg" and all(t.name in ("_map", "_arg_consumer") for t in cal.targets):
                        ok = True
                    elif cal.name.rpartition(".")[2] == "partial" and par.args and node is not par.args[0]:
                        # partial(self._arg_consumer, ..., arg_iter, ...): the iterable is only stored for the consumer
                        pc = sc.callee(ast.Call(func=par.args[0], args=[], keywords=[]))
                        ok = pc.kind == "pkg" and bool(pc.targets) and all(t.name in ("_map", "_arg_consumer") for t in pc.targets)
                        what = "functools.partial of " + pc.name
                    elif cal.kind == "ext" and cal.name in ("builtins.enumerate", "builtins.iter"):
                        gp = parents.get(id(par))
                        ok = isinstance(gp, (ast.For,)) and gp.iter is par
                elif isinstance(par, ast.keyword):
                    if isinstance(call, ast.Call):
                        cal = sc.callee(call)
                        what = cal.name
                        ok = cal.kind == "pkg" and all(t.name in ("_map", "_arg_consumer") for t in cal.targets)
                elif isinstance(par, ast.For) and par.iter is node:
                    ok = True
                if isinstance(par, ast.Assign):
                    # rebinding the iterable (e.g. arg_iter = list(arg_iter)) is judged at the use inside the value
                    ok = False
                rep.ob(rule, "the iterable is only forwarded to the consumer or iterated by its single loop", ok, func=f, construct=par if par is not None else node,
                       detail=f"used by {what}")
        # no rebinding of the iterable parameter
        for p in iters:
            rep.ob(rule, "the iterable parameter is never rebound (e.g. materialised)", p not in sc.defs, func=f, construct=f"{f.name}: {p}")

    for name in ("map", "starmap", "doublestarmap", "_map", "_arg_consumer"):
        for f in ctx.pool_funcs(name):
            check(f, {p for p in f.param_names() if S.ROLE_BY_NAME.get(p) == "ITER"})
    uses = uses[0]
    rep.floor(rule, "uses of the iterable parameter", uses, 5)
    for f in ctx.pool_funcs("_arg_consumer"):
        heads = ctx.distinct_sites(ctx.nodes(f, lambda n: n.op == "iter" and n.user))
        rep.ob(rule, "exactly one loop pulls from the user's iterable", len(heads) == 1, func=f, construct=heads[0] if heads else "(none)")
        nexts = ctx.nodes(f, lambda n: ctx.is_ext_call(n, "builtins.next", "builtins.list", "builtins.tuple", "builtins.sorted", "builtins.len"))
        nexts = [n for n in nexts if any(isinstance(x, ast.Name) and S.ROLE_BY_NAME.get(x.id) == "ITER" for x in ast.walk(n.ast))]
        rep.ob(rule, "no element is pulled outside the loop header", not nexts, func=f, construct=nexts[0] if nexts else "no next()/list() on the iterable")


def r_map_bound(ctx: Ctx, rule: str) -> None:
    rep = ctx.rep
    rep.rule(rule, "bound: Semaphore(num_concurrent) is built from the parameter; DOM(await semaphore.acquire() -> _start_task) per iteration; "
                   "the end callback handed to _start_task is the wrapper from _get_map_end_callback for the same semaphore; WHO(release of "
                   "that semaphore) = {wrapper, the consumer's cancellation handler}")
    for f in ctx.pool_funcs("_arg_consumer"):
        sc = ctx.an.scope(f)
        ctors = [n for n in ctx.distinct_sites(ctx.nodes(f, lambda n: n.op == "call" and n.callee is not None and n.callee.kind == "ctor" and n.callee.name.endswith("Semaphore")))]
        rep.floor(rule, "map semaphore construction", len(ctors), 1)
        for c in ctors:
            a = c.ast.args[0] if c.ast.args else next((k.value for k in c.ast.keywords if k.arg == "value"), None)
            ok = isinstance(a, ast.Name) and expr_role(ctx, f, a) == "NCONC"
            # ... the request's own number: a parameter re-bound on the way (clamped to the pool size of the moment, say) is another quantity
            rebound = isinstance(a, ast.Name) and a.id in sc.params and bool(sc.defs.get(a.id))
            rep.ob(rule, "the map semaphore is created with exactly num_concurrent slots", ok and not rebound, node=c,
                   detail=f"Semaphore({ast.unparse(a) if a is not None else ''})" + (f": `{a.id}` is re-bound in {f.short} before it is used - the bound of the call is then "
                                                                                     "whatever that computation gave when the call started, not num_concurrent" if rebound else ""))
            rep.ob(rule, "the map semaphore is created once, outside the loop", not c.loops, node=c)
        # the wrapper is built for the same semaphore and the request's end callback
        wr = ctx.distinct_sites(ctx.nodes(f, lambda n: ctx.is_call_to(n, "_get_map_end_callback")))
        rep.floor(rule, "_get_map_end_callback call", len(wr), 1)
        for w in wr:
            t = w.callee.targets[0]
            rep.ob(rule, "the end-callback wrapper is built for the map semaphore", expr_role(ctx, f, ctx.call_arg(w.ast, t, "map_semaphore")) == "MAPSEM", node=w)
            rep.ob(rule, "the end-callback wrapper wraps the request's end callback", expr_role(ctx, f, ctx.call_arg(w.ast, t, "actual_end_callback")) == "END", node=w)
        for s in ctx.distinct_sites(ctx.nodes(f, lambda n: ctx.is_call_to(n, "_start_task"))):
            t = s.callee.targets[0]
            e = ctx.call_arg(s.ast, t, "end_callback")
            ok = False
            if isinstance(e, (ast.Name, ast.Attribute)):
                # (a local, or a field of a record built in the consumer: `callbacks.end_callback`)
                vals = [(fr_, v) for fr_, _e, v in ctx.vals.leaves_at(s, e)]
                ok = bool(vals) and all(isinstance(v, ast.Call) and any(x.name == "_get_map_end_callback" for x in ctx.an.scope(fr_).callee(v).targets) for fr_, v in vals)
            elif isinstance(e, ast.Call):
                ok = any(x.name == "_get_map_end_callback" for x in sc.callee(e).targets)
            rep.ob(rule, "the end callback handed to _start_task is the semaphore-releasing wrapper", ok, node=s)
        # who releases the map semaphore
        rels = [e for e in ctx.eff.of_func(f) if e.kind == "release" and e.container == "Semaphore" and e.path != SLOT]
        g = ctx.an.cfg(f)
        for e in rels:
            handlers = [h for h in ctx.nodes(f, lambda n: n.op == "handler" and all(ctx.hier.canon(t) == CANCELLED for t in n.types))]
            ok = any(e.node in reach([h], lambda a, b, lab: lab[0] in NORMAL_KINDS) for h in handlers) and \
                all(e.node not in reach([g.entry], avoid=set(handlers)) for _ in [0])
            rep.ob(rule, "inside the consumer the map semaphore is released only in the cancellation handler", ok, node=e.node)
    # the wrapper itself
    others = [e for e in ctx.effects(kinds=["release"]) if e.container == "Semaphore" and e.path != SLOT and ctx.in_pool(e.node.func)]
    for e in others:
        host = ctx.hosts_of(e.node)
        rep.ob(rule, "the map semaphore is released only by the end-callback wrapper and the consumer's cancellation handler",
               host <= {"_get_map_end_callback", "_arg_consumer"}, node=e.node, detail=f"on behalf of {sorted(host)}")
    rep.floor(rule, "release sites of the map semaphore", len(others), 1)


def r_map_end_wrapper(ctx: Ctx, rule: str) -> None:
    rep = ctx.rep
    rep.rule(rule, "in the end-callback wrapper the semaphore release comes first, exactly once, with no may-raise, suspending or user step "
                   "before it, and the user's end callback is then executed with the task id")
    from ..cfg import bind_args, strip_cast

    for outer in ctx.pool_funcs("_get_map_end_callback"):
        sc = ctx.an.scope(outer)
        inner = [(x, None, None) for x in sc.nested.values()]
        rets = [n for n in ast.walk(outer.node) if isinstance(n, ast.Return) and n.value is not None]
        if not inner:
            # the wrapper may be built by a helper spliced into the factory: `return helper(cb, sem.release)`
            for r in rets:
                v = ctx.vals.resolve(outer, r.value)
                t = ctx.an.spliced_at.get(id(v)) if isinstance(v, ast.Call) else None
                if t is not None:
                    env = bind_args(v, t, outer, None)
                    trets = [x.value for x in ctx.an.scope(t)._own_nodes() if isinstance(x, ast.Return) and x.value is not None]
                    for nf in ctx.an.scope(t).nested.values():
                        if any(isinstance(x, ast.Name) and x.id == nf.name for x in trets):
                            inner.append((nf, t, env))
        if not inner:
            # `return partial(<function of the package>, map_semaphore, actual_end_callback)`: the wrapper is that function with its
            # leading parameters bound to what the factory passes
            for r in rets:
                v = ctx.vals.resolve(outer, r.value)
                if isinstance(v, ast.Call) and v.args and not any(isinstance(a, ast.Starred) for a in v.args) and all(k.arg is not None for k in v.keywords):
                    cal = sc.callee(v)
                    if cal.kind == "ext" and cal.name in ("functools.partial", "partial"):
                        synth = ast.copy_location(ast.Call(func=v.args[0], args=list(v.args[1:]), keywords=list(v.keywords)), v)
                        tcal = sc.callee(synth)
                        if tcal.kind == "pkg" and len(tcal.targets) == 1:
                            t = tcal.targets[0]
                            inner.append((t, t, bind_args(synth, t, outer, None)))
        rep.floor(rule, "nested wrapper function", len(inner), 1)

        def through_helper(helper, env, e):
            """an expression of the helper's frame in the factory's terms (its parameters are what the factory passed)"""
            if helper is not None and isinstance(e, ast.Name) and e.id in env and e.id in ctx.an.scope(helper).params:
                return outer, env[e.id][1]
            return (helper or outer), e

        for f, helper, henv in inner:
            if helper is None:
                rep.ob(rule, "the factory returns the wrapper", any(isinstance(r.value, ast.Name) and r.value.id == f.name for r in rets), func=outer, construct=rets[0] if rets else "(no return)")
            g = ctx.an.cfg(f)

            def is_release(n, helper=helper, henv=henv) -> bool:
                bound_names = set(henv) if (helper is not None and henv and helper is f) else set()
                if any(e.kind == "release" and e.path == "<map_semaphore>" for e in ctx.eff.of_node(n)) and "map_semaphore" not in bound_names:
                    return True
                # released under the name of a parameter that the factory bound to its map semaphore (partial / helper)
                if helper is not None and henv:
                    for e in ctx.eff.of_node(n):
                        if e.kind == "release" and e.path.startswith("<") and e.path.endswith(">") and e.path[1:-1] in henv:
                            fr0, arg0 = henv[e.path[1:-1]][0], henv[e.path[1:-1]][1]
                            if fr0 is outer and ctx.eff.paths(outer).of(arg0) == "<map_semaphore>":
                                return True
                # a bound `map_semaphore.release` handed to the helper and called there under the parameter's name
                if helper is not None and n.op == "call" and isinstance(n.ast.func, ast.Name) and not n.ast.args and not n.ast.keywords:
                    fr, e = through_helper(helper, henv, n.ast.func)
                    e = strip_cast(e)
                    return fr is outer and isinstance(e, ast.Attribute) and e.attr == "release" and ctx.eff.paths(outer).of(e.value) == "<map_semaphore>"
                return False

            rel = ctx.nodes(f, is_release)
            rep.floor(rule, "release in the wrapper", len(ctx.distinct_sites(rel)), 1)
            res = count_paths(ctx.an, f, lambda n: n in rel, interproc=False)
            for key, counts in sorted(res.items(), key=str):
                rep.ob(rule, "the wrapper releases the map slot exactly once on every exit", counts == frozenset({1}), func=f, construct=f"exit {key[0]}",
                       detail=f"counts {sorted(counts)}")
            pre = set()
            for r in rel:
                pre |= between([g.entry], [r])
            bad = [m for m in pre if m.user or m.suspends or any(lab[0] in ("x", "c") for _, lab in m.succ)]
            rep.ob(rule, "nothing that can raise, suspend or run user code precedes the release", not bad, func=f, construct=bad[0] if bad else "entry .. release")
            cbs = ctx.nodes(f, lambda n: ctx.is_await_of(n, "execute_optional") or (n.op == "call" and n.callee is not None and n.callee.kind == "user"))
            rep.ob(rule, "the wrapper then executes the user's end callback", bool(cbs), func=f, construct=cbs[0] if cbs else "(no callback execution)")
            for c in ctx.distinct_sites(ctx.nodes(f, lambda n: ctx.is_call_to(n, "execute_optional"))):
                t = c.callee.targets[0]
                fn = ctx.call_arg(c.ast, t, t.param_names()[0])
                args = ctx.call_arg(c.ast, t, t.param_names()[1])
                args = ctx.vals.resolve(c.func, args) if args is not None else None
                ffr, fexpr = through_helper(helper, henv, fn) if isinstance(fn, ast.Name) else (f, fn)
                role = expr_role(ctx, f, fn) if helper is None else expr_role(ctx, ffr, fexpr)
                rep.ob(rule, "the wrapped callback is the request's end callback", role == "END", node=c)
                ok = isinstance(args, ast.Tuple) and len(args.elts) == 1 and expr_role(ctx, f, args.elts[0]) == "ID"
                rep.ob(rule, "the wrapped callback receives the task id", ok, node=c)
