"""C11 — task ids are dense, ordered, never reused, visible in task names."""
from .lib import Ctx
from . import shared as S
from . import naming as N
from .lifecycle import check_lifecycle


def check(ctx: Ctx) -> None:
    N.r_id_discipline(ctx, "R11.1")
    N.r_name_templates(ctx, "R11.2")
    N.r_instance_state(ctx, "R11.3")
    ctx.rep.rule("R11.4", "the id handed to both callbacks is the task's id (life-cycle typestate, role ID through every hop)")
    check_lifecycle(ctx, "R11.4", {"id"})
    S.r_wiring(ctx, "R11.5", {"ID"}, 4, "task id role")
    ok, why = ctx.llock()
    ctx.rep.ob("L-LOCK", "the group register lock is never held across a suspension (so `async with group_reg` never yields)", ok, detail=why, construct="async with <TaskGroupRegister>")
