"""Rules for the control server: parser hatches, session containment, dispatch, handshake, annotation kinds (C16-C18)."""
from __future__ import annotations

import ast
import re
from typing import Dict, List, Optional, Set, Tuple

from ..absint import AbsInt
from ..cfg import NORMAL_KINDS, Label, Node, strip_cast
from ..exc import CANCELLED, EXCEPTION
from ..model import AnalysisError, ClassInfo, FuncInfo
from ..queries import between, can_follow, count_paths, reach
from .lib import Ctx, dominated_by_completion

PARSER_MOD, SESSION_MOD, SERVER_MOD, CLIENT_MOD = "control.parser", "control.session", "control.server", "control.client"


def anchors(ctx: Ctx):
    prog = ctx.prog
    cp = prog.cls("control.parser.ControlParser")
    sess = prog.cls("control.session.ControlSession")
    return cp, sess


def enclosing_tries(f: FuncInfo, stmt: ast.AST) -> List[ast.Try]:
    """try statements whose *body* (not handlers) contains stmt, innermost first"""
    out: List[ast.Try] = []

    def rec(body, stack):
        for st in body:
            if st is stmt:
                out.extend(reversed(stack))
                return True
            if isinstance(st, ast.Try):
                if rec(st.body, stack + [st]):
                    return True
                for h in st.handlers:
                    if rec(h.body, stack):
                        return True
                if rec(st.orelse, stack) or rec(st.finalbody, stack):
                    return True
            else:
                for fld in ("body", "orelse"):
                    sub = getattr(st, fld, None)
                    if isinstance(sub, list) and rec(sub, stack):
                        return True
        return False

    rec(f.node.body, [])
    return out


# ---------------------------------------------------------------------- R18.1
BANNED_CALLS = ("builtins.print", "sys.exit", "os._exit", "builtins.exit", "builtins.quit", "builtins.input", "builtins.breakpoint", "os.abort")


def r_hatches(ctx: Ctx, rule: str):
    rep = ctx.rep
    cp, sess = anchors(ctx)
    rep.rule(rule, "HATCHES(ControlParser): the subclass overrides every escape hatch of argparse (_print_message, exit, error, print_help) so "
                   "that messages go to the session's stream and nothing exits or prints; no print / sys.stdout / sys.stderr / sys.exit / "
                   "os._exit in parser.py, session.py, server.py (positive control: client.py prints); sub-parsers are ControlParsers "
                   "receiving the same stream and width")
    rep.ob(rule, "ControlParser derives from argparse.ArgumentParser", any(b.endswith("ArgumentParser") for b in ctx.prog.external_bases(cp)), construct=f"class {cp.qual}")
    for nm in ("_print_message", "exit", "error", "print_help"):
        rep.ob(rule, f"ControlParser overrides {nm}", nm in cp.methods, construct=f"ControlParser.{nm}")
    mods = [m for m in (PARSER_MOD, SESSION_MOD, SERVER_MOD) if m in ctx.prog.modules]
    n_banned = 0
    for f in ctx.prog.every_function():
        if f.module.name not in mods:
            continue
        for n in ctx.distinct_sites(ctx.nodes(f, lambda n: n.op == "call" and n.callee is not None and n.callee.kind == "ext" and n.callee.name in BANNED_CALLS)):
            n_banned += 1
            rep.ob(rule, "the server side never prints, prompts or exits the process", False, node=n, detail=n.callee.name)
        for node in ctx.an.scope(f)._own_nodes():
            if isinstance(node, ast.Attribute) and node.attr in ("stdout", "stderr", "__stdout__", "__stderr__") and isinstance(node.value, ast.Name) and node.value.id in ("sys", "_sys"):
                n_banned += 1
                rep.ob(rule, "the server side never touches sys.stdout / sys.stderr", False, func=f, construct=node)
            if isinstance(node, ast.Raise) and node.exc is not None and any(c.endswith("SystemExit") or c.endswith("KeyboardInterrupt") for c in ctx.hier.resolve(f.module, node.exc)):
                n_banned += 1
                rep.ob(rule, "the server side never raises SystemExit", False, func=f, construct=node)
    rep.ob(rule, "no banned output/exit construct in parser.py, session.py, server.py", n_banned == 0, construct=f"banned constructs in {mods}: {n_banned}")
    ctl = [n for f in ctx.prog.all_functions() if f.module.name == CLIENT_MOD for n in ctx.nodes(f, lambda n: ctx.is_ext_call(n, "builtins.print"))]
    rep.floor(rule, "positive control: print calls found in client.py", len(ctx.distinct_sites(ctl)), 1)
    # _print_message
    f = cp.methods.get("_print_message")
    if f is not None:
        writes = ctx.nodes(f, lambda n: any(e.kind == "write" and e.path == "self._stream" for e in ctx.eff.of_node(n)))
        rep.ob(rule, "_print_message writes the message to the session's stream", bool(writes), func=f, construct=writes[0] if writes else "(no write to self._stream)")
        for w in ctx.distinct_sites(writes):
            a = w.ast.args[0] if w.ast.args else None
            rep.ob(rule, "what is written is the message itself", isinstance(a, ast.Name) and a.id == f.param_names()[1], node=w)
        sup = ctx.nodes(f, lambda n: n.op == "call" and n.callee is not None and n.callee.name.startswith("super("))
        rep.ob(rule, "_print_message does not fall back to argparse's own printing (which targets stderr)", not sup, func=f, construct=sup[0] if sup else "no super() call")
        other = [e for e in ctx.eff.of_func(f) if e.kind == "write" and e.path != "self._stream"]
        rep.ob(rule, "_print_message ignores the `file` it is given", not other, func=f, construct=other[0].node if other else "no other write")
        # a non-empty message is always written: the only way to skip the write is the emptiness test of the message
        g = ctx.an.cfg(f)
        tests = ctx.nodes(f, lambda n: n.op == "test")
        mp_ = f.param_names()[1]

        def truthy_message(a: Node, b: Node, lab: Label) -> bool:
            """edges possible when the message is non-empty: `if message` true, `if not message` false"""
            if lab[0] not in NORMAL_KINDS:
                return False
            if a.op == "test" and lab[0] in ("T", "F"):
                e, neg = a.ast, False
                while isinstance(e, ast.UnaryOp) and isinstance(e.op, ast.Not):
                    e, neg = e.operand, not neg
                if isinstance(e, ast.Name) and e.id == mp_:
                    return (lab[0] == "T") != neg
            return True

        dropped = g.exit in reach([g.entry], truthy_message, avoid=set(writes))
        rep.ob(rule, "a non-empty message is never dropped", bool(writes) and not dropped, func=f, construct=tests[0] if tests else "unconditional write")
    # exit
    f = cp.methods.get("exit")
    if f is not None:
        sup = ctx.nodes(f, lambda n: n.op == "call" and n.callee is not None and (n.callee.name.startswith("super(") or n.callee.name in BANNED_CALLS))
        rep.ob(rule, "ControlParser.exit never leaves the process (no super().exit / sys.exit)", not sup, func=f, construct=sup[0] if sup else "no exit call")
        g = ctx.an.cfg(f)
        rx = [x for x in g.raise_exits.values() if x.pred]
        rep.ob(rule, "ControlParser.exit does not raise", not rx, func=f, construct="raising exits", detail=str([x.tok[0] for x in rx]))
        msgs = ctx.nodes(f, lambda n: ctx.is_call_to(n, "_print_message"))
        rep.ob(rule, "an exit message is delivered through _print_message", bool(msgs), func=f, construct=msgs[0] if msgs else "(message dropped)")
    # error / print_help
    for nm, exc in (("error", "ParserError"), ("print_help", "HelpRequested")):
        f = cp.methods.get(nm)
        if f is None:
            continue
        g = ctx.an.cfg(f)
        rep.ob(rule, f"ControlParser.{nm} never returns normally: it ends in `raise {exc}` on every path", g.exit not in reach([g.entry]), func=f, construct=f"{nm}: normal exit")
        rx = {x.tok[0].rpartition(".")[2] for x in g.raise_exits.values() if x.pred}
        rep.ob(rule, f"ControlParser.{nm} raises {exc}", exc in rx, func=f, construct=f"{nm}: raising exits", detail=str(sorted(rx)))
        sup = ctx.nodes(f, lambda n: n.op == "call" and n.callee is not None and n.callee.name.startswith("super(") and n.callee.name.endswith("." + nm))
        rep.ob(rule, f"ControlParser.{nm} lets argparse format the message first (super().{nm})", bool(sup), func=f, construct=sup[0] if sup else f"(no super().{nm})")
        for s in ctx.distinct_sites(sup):
            raises = ctx.nodes(f, lambda n: n.op == "raise")
            rep.ob(rule, f"the message is produced before {exc} is raised", all(can_follow(s, r) for r in raises) and bool(raises), node=s)
    # constructor keeps the stream
    init = cp.methods.get("__init__")
    if init is not None:
        st = ctx.nodes(init, lambda n: n.op == "assign" and any(e.path == "self._stream" for e in ctx.eff.of_node(n)))
        ok = any(isinstance(n.ast.value, ast.Name) and n.ast.value.id == "stream" for n in st)
        rep.ob(rule, "the parser's stream is the one handed to its constructor", ok, func=init, construct=st[0] if st else "(self._stream not set)")
    # sub-parsers
    acc = cp.methods.get("add_class_commands")
    if acc is None:
        raise AnalysisError("anchor: ControlParser.add_class_commands missing")
    sc = ctx.an.scope(acc)
    ck = None
    ck_frame = (acc, None)
    ctx.an.cfg(acc)
    for nm, hows in sc.defs.items():
        for h in hows:
            v = h[1] if h[0] == "assign" else None
            fr_, env_ = acc, None
            if isinstance(v, ast.Call) and not {k.arg for k in v.keywords} >= {"stream", "terminal_width"}:
                # the record may be built by a helper spliced in (a private method / property of the parser returning it)
                lv = ctx.vals.leaves(acc, None, v)
                if len(lv) == 1 and lv[0][0] is not acc:
                    fr_, env_, v = lv[0]
            if isinstance(v, ast.Call) and {k.arg for k in v.keywords} >= {"stream", "terminal_width"}:
                ck, ck_frame = (nm, v), (fr_, env_)
            if isinstance(v, ast.Dict) and {getattr(k, "value", None) for k in v.keys} >= {"stream", "terminal_width"}:
                ck, ck_frame = (nm, v), (fr_, env_)
    if ck is None:
        rep.ob(rule, "sub-parsers receive the parent's stream and width", None, func=acc, construct="(common kwargs not found)")
    else:
        nm, v = ck
        vals = {k.arg: k.value for k in v.keywords} if isinstance(v, ast.Call) else {k.value: x for k, x in zip(v.keys, v.values)}
        def _path(e_):
            p_ = ctx.eff.paths(ck_frame[0]).of(e_)
            return ctx.eff.rebase(p_, ck_frame[0], ck_frame[1]) if (p_ is not None and ck_frame[0] is not acc) else p_

        rep.ob(rule, "sub-parsers write to the same stream as their parent", _path(vals["stream"]) == "self._stream", func=acc, construct=v)
        rep.ob(rule, "sub-parsers format for the same terminal width", _path(vals["terminal_width"]) == "self._terminal_width", func=acc, construct=v)
        adders = ctx.distinct_sites(ctx.nodes(acc, lambda n: ctx.is_call_to(n, "add_function_command", "add_property_command")))
        rep.floor(rule, "command adders called by add_class_commands", len(adders), 2)
        for a in adders:
            call_ = ctx.an.partial_syn.get((id(a.ast), id(a.env)), a.ast)  # (`adder = partial(self.add_function_command, **common)`: the call it stands for)
            ok = any(k.arg is None and isinstance(k.value, ast.Name) and k.value.id == nm for k in call_.keywords)
            rep.ob(rule, "every command sub-parser is created with the shared stream/width", ok, node=a)
    for nm in ("add_function_command", "add_property_command"):
        f = cp.methods.get(nm)
        if f is None:
            continue
        kw = f.node.args.kwarg.arg if f.node.args.kwarg else None
        adds = ctx.distinct_sites(ctx.nodes(f, lambda n: n.op == "call" and isinstance(n.ast.func, ast.Attribute) and n.ast.func.attr == "add_parser"))
        rep.floor(rule, f"add_parser call in {nm}", len(adds), 1)
        for a in adds:
            ok = kw is not None and any(k.arg is None and isinstance(k.value, ast.Name) and k.value.id == kw for k in a.ast.keywords)
            rep.ob(rule, f"{nm} forwards the stream/width keyword arguments to add_parser", ok, node=a)
            pc = any(k.arg == "parser_class" for k in a.ast.keywords)
            rep.ob(rule, "sub-parsers are created with argparse's default parser_class (type(self) == ControlParser)", not pc, node=a)
    f = cp.methods.get("add_subparsers")
    if f is not None:
        sup = ctx.distinct_sites(ctx.nodes(f, lambda n: n.op == "call" and n.callee is not None and n.callee.name.startswith("super(") and n.callee.name.endswith(".add_subparsers")))
        for s in sup:
            pc = any(k.arg == "parser_class" for k in s.ast.keywords)
            rep.ob(rule, "add_subparsers does not install another parser class", not pc, node=s)


# ---------------------------------------------------------------------- R18.2
def r_listen_loop(ctx: Ctx, rule: str):
    rep = ctx.rep
    cp, sess = anchors(ctx)
    rep.rule(rule, "listen: per iteration exactly one read; a command that was parsed is answered by exactly one writer.write followed by a "
                   "drain before the next read; the loop is left only before a command is executed (blank line / server stopped)")
    f = sess.methods.get("listen")
    if f is None:
        raise AnalysisError("anchor: ControlSession.listen missing")
    g = ctx.an.cfg(f)
    heads = [h for h in ctx.nodes(f, lambda n: n.op == "loophead")]
    reads = ctx.nodes(f, lambda n: n.op == "await" and n.awaited is not None and n.awaited.name.startswith("StreamReader."))
    rep.floor(rule, "reads in the listen loop", len(ctx.distinct_sites(reads)), 1)
    if not heads:
        rep.ob(rule, "listen is a loop", None, func=f, construct="(no while loop)")
        return
    head = heads[0]
    events: List[Tuple[Node, str]] = []

    def is_write(n):
        return any(e.kind == "write" and e.container == "StreamWriter" for e in ctx.eff.of_node(n))

    def is_drain(n):
        return n.op == "await" and n.awaited is not None and n.awaited.name == "StreamWriter.drain"

    def transfer(ai: AbsInt, n: Node, lab: Label, st):
        in_iter, r, p, w, d = st
        normal = lab[0] in NORMAL_KINDS
        if n is head:
            return [(True, 0, 0, 0, 0)]
        if not in_iter or not normal:
            return [st]
        if n in reads:
            r = min(2, r + 1)
        if ctx.is_await_of(n, "_parse_command"):
            p = min(2, p + 1)
        if is_write(n):
            if d != w:
                ai.event(n, "a second write before the previous one was drained", st)
            w = min(2, w + 1)
        if is_drain(n):
            d = min(2, d + 1)
        return [(in_iter, r, p, w, d)]

    def at_node(ai: AbsInt, n: Node, st):
        in_iter, r, p, w, d = st
        if n is head and in_iter and (r or p or w):
            if r != 1:
                ai.event(n, f"{r} reads in one iteration (expected exactly one)", st)
            if p != 1 or w != 1 or d != 1:
                ai.event(n, f"an iteration that goes on to the next read executed {p} command(s) and sent {w} reply(ies), {d} drained (expected 1/1/1)", st)
        if n.op == "exit" and in_iter and (p or w):
            if not (p == 1 and w == 1):
                ai.event(n, f"the loop is left after executing {p} command(s) with {w} reply(ies) written", st)

    ai = AbsInt(ctx.an, transfer, at_node=at_node)
    ai.run(f, (False, 0, 0, 0, 0))
    for e in ai.events:
        rep.ob(rule, e.msg, False, node=e.node, path=e.trace, detail=f"state (in_iter, reads, commands, writes, drains) = {e.state}")
    rep.ob(rule, "per-iteration protocol of listen holds on every normal path", not ai.events, func=f, construct=f"while loop at line {head.line}", detail=f"{ai.product_states} product states")
    # the reply is what the command put into the buffer
    for w in ctx.distinct_sites(ctx.nodes(f, is_write)):
        a = w.ast.args[0] if w.ast.args else None
        src = a
        if isinstance(a, ast.Call) and isinstance(a.func, ast.Attribute) and a.func.attr == "encode":
            src = a.func.value
        ok = False

        def has_content(fr, fenv, e_, depth=0) -> bool:
            """the text contains `<this session's buffer>.getvalue()` - directly, through locals, helper parameters (the text may be
            handed to a helper that sends it) or the result of a helper that takes the buffer's content"""
            if any(isinstance(x, ast.Call) and isinstance(x.func, ast.Attribute) and x.func.attr == "getvalue"
                   and ctx.eff.rebase(ctx.eff.paths(fr).of(x.func.value) or "", fr, fenv) == "self._response_buffer" for x in ast.walk(e_)):
                return True
            if depth > 6:
                return False
            for x in ast.walk(e_):
                if isinstance(x, ast.Name) and isinstance(x.ctx, ast.Load) or (isinstance(x, ast.Call) and id(x) in ctx.an.spliced_at):
                    ls_ = ctx.vals.leaves(fr, fenv, x)
                    ls_ = [l_ for l_ in ls_ if l_[2] is not x]
                    if ls_ and all(has_content(f2, e2, leaf, depth + 1) for f2, e2, leaf in ls_):
                        return True
            return False

        if src is not None:
            ok = has_content(w.func, w.env, src)
        rep.ob(rule, "the reply sent is the content of this session's response buffer", ok, node=w)


# ---------------------------------------------------------------------- R17.5
_REWRITERS = {"lower", "upper", "casefold", "title", "capitalize", "swapcase", "replace", "translate", "removeprefix", "removesuffix"}


def r_tokens(ctx: Ctx, rule: str):
    """What argparse (and through it literal_eval / the dotted-path resolver) receives are the words of the line, unchanged."""
    rep = ctx.rep
    cp, sess = anchors(ctx)
    rep.rule(rule, "TOKENS: every value that can reach parse_args(...) in _parse_command is the received line split at blanks "
                   "(str.split(' ') / str.split()), optionally filtered; a tokeniser that rewrites the words (shlex.split strips quotes and "
                   "backslashes, case folding, replace) changes the literal a converter gets, so the command no longer equals the method call")
    f = sess.methods.get("_parse_command")
    if f is None:
        raise AnalysisError("anchor: ControlSession._parse_command missing")
    parses = ctx.distinct_sites(ctx.nodes(f, lambda n: n.op == "call" and isinstance(n.ast.func, ast.Attribute) and n.ast.func.attr in ("parse_args", "parse_known_args")))
    rep.floor(rule, "parse_args call in _parse_command", len(parses), 1)

    def judge(fr, env, e, depth=0):
        """True ok / str violation / None unknown"""
        e = strip_cast(e)
        if depth > 6:
            return None
        if isinstance(e, ast.Call) and isinstance(e.func, ast.Attribute):
            if e.func.attr in ("split", "rsplit"):
                if ctx.an.scope(fr).callee(e).name.endswith("shlex.split"):
                    return "shlex.split removes quote characters and backslashes from the words: a literal like ['x','y'] reaches the converter as [x,y]"
                sep = e.args[0] if e.args else next((k.value for k in e.keywords if k.arg == "sep"), None)
                if len(e.args) > 1 or any(k.arg == "maxsplit" for k in e.keywords):
                    return "the split is limited (maxsplit): later words stay glued together"
                if sep is None or (isinstance(sep, ast.Constant) and sep.value in (None, " ")):
                    return base(fr, env, e.func.value, depth + 1)
                if isinstance(sep, ast.Constant):
                    return f"the line is split at {sep.value!r}, not at blanks"
                return None
            if e.func.attr == "copy" and not e.args:
                return judge_all(fr, env, e.func.value, depth + 1)
        if isinstance(e, ast.Call) and isinstance(e.func, ast.Name) and e.func.id in ("list", "tuple") and len(e.args) == 1:
            return judge_all(fr, env, e.args[0], depth + 1)
        if isinstance(e, ast.Call) and ctx.an.scope(fr).callee(e).name.endswith("shlex.split"):
            return "shlex.split removes quote characters and backslashes from the words: a literal like ['x','y'] reaches the converter as [x,y]"
        if isinstance(e, (ast.ListComp, ast.GeneratorExp)) and len(e.generators) == 1 and isinstance(e.generators[0].target, ast.Name):
            v = e.generators[0].target.id
            elt = strip_cast(e.elt)
            if isinstance(elt, ast.Name) and elt.id == v:
                return judge_all(fr, env, e.generators[0].iter, depth + 1)
            if isinstance(elt, ast.Call) and isinstance(elt.func, ast.Attribute) and isinstance(elt.func.value, ast.Name) and elt.func.value.id == v:
                if elt.func.attr in ("strip", "lstrip", "rstrip") and not elt.args:
                    return judge_all(fr, env, e.generators[0].iter, depth + 1)
                if elt.func.attr in _REWRITERS or elt.func.attr in ("strip", "lstrip", "rstrip"):
                    return f"each word is rewritten by .{elt.func.attr}(...) before it reaches its converter"
            return None
        return None

    def base(fr, env, e, depth):
        """the string that is split: the line (a parameter / read result), possibly stripped of surrounding blanks"""
        e = strip_cast(e)
        if isinstance(e, ast.Call) and isinstance(e.func, ast.Attribute):
            if e.func.attr in ("strip", "lstrip", "rstrip") and not e.args:
                return base(fr, env, e.func.value, depth + 1)
            if e.func.attr in _REWRITERS:
                return f"the line is rewritten by .{e.func.attr}(...) before it is split"
            if e.func.attr == "decode":
                return True  # the bytes as received
            return None
        if isinstance(e, ast.Name):
            ls = ctx.vals.leaves(fr, env, e)
            if len(ls) == 1 and ls[0][2] is e:
                return True  # a parameter of the root / an opaque local: the line as received
            vs = [base(a, b, c, depth + 1) for a, b, c in ls]
            bad = next((v for v in vs if isinstance(v, str)), None)
            return bad or (True if all(v is True for v in vs) else None)
        return None

    def judge_all(fr, env, e, depth=0):
        ls = ctx.vals.leaves(fr, env, e)
        vs = [judge(a, b, c, depth) for a, b, c in ls]
        bad = next((v for v in vs if isinstance(v, str)), None)
        return bad or (True if vs and all(v is True for v in vs) else None)

    # the line itself: what listen() passes to _parse_command is what was read, decoded and stripped of surrounding blanks
    sites = [n for fn in sess.methods.values() for n in ctx.distinct_sites(ctx.nodes(fn, lambda n: n.op == "call" and n.inlined is None and ctx.is_call_to(n, "_parse_command")))]
    rep.floor(rule, "calls of _parse_command", len(sites), 1)
    for c in sites:
        a = ctx.call_arg(c.ast, f, "msg") if "msg" in f.param_names() else (c.ast.args[0] if c.ast.args else None)
        v = base(c.func, c.env, a, 0) if a is not None else None
        rep.ob(rule, "the line parsed is the line received (decoded, surrounding blanks stripped)", True if v is True else (False if isinstance(v, str) else None), node=c,
               detail=v if isinstance(v, str) else ("" if v is True else "cannot classify how the line is computed"))
    for p in parses:
        call = p.ast
        arg = call.args[0] if call.args else next((k.value for k in call.keywords if k.arg == "args"), None)
        if arg is None:
            rep.ob(rule, "parse_args receives the words of the line", False, node=p, detail="parse_args() without arguments parses sys.argv, not the client's line")
            continue
        v = judge_all(p.func, p.env, arg)
        if v is True and isinstance(strip_cast(arg), ast.Name):
            # the list of words is bound to a local: nothing may rewrite it in place before it is parsed (`args[0] = args[0].lower()`)
            nm_ = strip_cast(arg).id
            for x in ctx.an.scope(p.func)._own_nodes():
                tgts_ = x.targets if isinstance(x, (ast.Assign, ast.Delete)) else ([x.target] if isinstance(x, (ast.AugAssign, ast.AnnAssign)) else [])
                if any(isinstance(t_, ast.Subscript) and isinstance(t_.value, ast.Name) and t_.value.id == nm_ for t_ in tgts_) or \
                        (isinstance(x, ast.AugAssign) and isinstance(x.target, ast.Name) and x.target.id == nm_):
                    v = f"the list of words `{nm_}` is rewritten in place (`{ast.unparse(x)[:60]}`) before it is parsed"
                if isinstance(x, ast.Call) and isinstance(x.func, ast.Attribute) and isinstance(x.func.value, ast.Name) and x.func.value.id == nm_ \
                        and x.func.attr in ("append", "insert", "extend", "pop", "remove", "sort", "reverse", "clear", "__setitem__", "__delitem__"):
                    v = f"the list of words `{nm_}` is modified by .{x.func.attr}(...) before it is parsed"
        rep.ob(rule, "the words handed to the parser are the blank-separated words of the line, unchanged", True if v is True else (False if isinstance(v, str) else None),
               node=p, detail=v if isinstance(v, str) else ("" if v is True else f"cannot classify how `{ast.unparse(arg)[:60]}` is computed"))


def _memoised_converter(ctx: Ctx, outer: FuncInfo, w: FuncInfo):
    """(step, explanation) when the wrapper applies a memoising stand-in (`lru_cache(...)(cls)`, `cache(cls)`) to the raw argument
    instead of the converter itself: a repeated argument text then yields the *same object* as before (a list a task has
    mutated, a stale module attribute) rather than the value of this command's own text"""
    p0 = w.param_names()[0] if w.param_names() else None
    for n in ctx.distinct_sites(ctx.nodes(w, lambda n: n.op == "call" and isinstance(n.ast.func, ast.Name) and len(n.ast.args) == 1
                                          and isinstance(n.ast.args[0], ast.Name) and n.ast.args[0].id == p0)):
        v = ctx.vals.resolve(outer, n.ast.func)
        if isinstance(v, ast.Call):
            names = {ctx.an.scope(outer).callee(x).name.rpartition(".")[2] for x in ast.walk(v) if isinstance(x, ast.Call)}
            if names & {"lru_cache", "cache", "cached", "memoize"}:
                return n, (f"`{ast.unparse(n.ast.func)}` is `{ast.unparse(v)[:60]}`: conversions are remembered per argument text, a repeated command receives the object "
                           "an earlier command's task may have mutated (or a stale resolved function), not the value of its own command line")
    return None


_AWAITABLE_EXT = ("Event.wait", "Semaphore.acquire", "Lock.acquire", "Condition.wait", "Queue.get", "Queue.put", "Queue.join", "gather", "sleep", "wait_for", "wait", "shield")


def r_async_declared(ctx: Ctx, rule: str):
    """The session awaits the result of a command only when `iscoroutinefunction(member)` says so: a pool member that waits must
    be an `async def` - a plain method handing back a coroutine is called, never awaited, and answered with the coroutine's repr."""
    rep = ctx.rep
    rep.rule(rule, "ASYNC-DECLARED: every public method of the pool classes that hands back an awaitable (returns the un-awaited call of a "
                   "coroutine function / of Event.wait, gather, ..., or is annotated Coroutine/Awaitable) is a coroutine function; the waiting "
                   "commands flush, gather_and_close and until_closed are coroutine functions")
    seen = 0
    for c in ctx.pool_classes:
        for nm, f in c.methods.items():
            if nm.startswith("_") or f.kind not in ("method", "function", None, "") and f.kind in ("property", "getter", "setter"):
                continue
            if nm in ("flush", "gather_and_close", "until_closed"):
                seen += 1
                rep.ob(rule, f"the waiting command {nm} is a coroutine function (the session awaits it)", f.is_async, func=f, construct=f"def {nm}",
                       detail="" if f.is_async else f"`{nm}` is a plain method now: return_or_exception calls it without awaiting and replies with the repr of the coroutine, at once")
            if f.is_async:
                continue
            sc = ctx.an.scope(f)
            bad = None
            ann = f.node.returns
            if ann is not None and any(isinstance(x, ast.Name) and x.id in ("Coroutine", "Awaitable", "Future", "Task") for x in ast.walk(ann)):
                bad = (f.node, f"annotated `{ast.unparse(ann)[:40]}`")
            for r in sc._own_nodes():
                if bad is not None or not isinstance(r, ast.Return) or r.value is None:
                    continue
                for _fr, _env, v in ctx.vals.leaves(f, None, r.value):
                    if isinstance(v, ast.Call):
                        cal = ctx.an.scope(_fr).callee(v)
                        if (cal.kind == "pkg" and cal.targets and all(t.is_async for t in cal.targets)) or \
                                (cal.kind == "ext" and cal.name.rpartition(".")[2] in {x.rpartition(".")[2] for x in _AWAITABLE_EXT} and
                                 any(cal.name.endswith(x) for x in _AWAITABLE_EXT)):
                            bad = (r, f"returns the un-awaited `{ast.unparse(v)[:50]}`")
            if bad is not None:
                rep.ob(rule, "a public pool method that hands back an awaitable is declared async", False, func=f, construct=bad[0],
                       detail=f"{f.short} {bad[1]}: over the control interface it is called but never awaited")
    rep.floor(rule, "waiting commands of the pool classes", seen, 3)


def r_fresh_conversion(ctx: Ctx, rule: str):
    rep = ctx.rep
    rep.rule(rule, "FRESH-CONVERSION: the argparse type wrapper applies the annotation's converter itself to the raw argument text of this "
                   "command (no memoising stand-in in between), so every command gets the value converted from its own command line")
    outer = ctx.prog.functions.get(f"{PARSER_MOD}._get_arg_type_wrapper")
    if outer is None:
        raise AnalysisError("anchor: control.parser._get_arg_type_wrapper missing")
    inner = list(ctx.an.scope(outer).nested.values())
    rep.floor(rule, "wrapper function inside _get_arg_type_wrapper", len(inner), 1)
    cls_p = outer.param_names()[0]
    for w in inner:
        memo = _memoised_converter(ctx, outer, w)
        if memo is not None:
            rep.ob(rule, "each argument text is converted afresh by the annotation's own converter", False, node=memo[0], detail=memo[1])
            continue
        p0 = w.param_names()[0]
        calls = ctx.distinct_sites(ctx.nodes(w, lambda n: n.op == "call" and len(n.ast.args) == 1 and isinstance(n.ast.args[0], ast.Name) and n.ast.args[0].id == p0
                                             and not n.ast.keywords and isinstance(n.ast.func, ast.Name)))
        direct = [c for c in calls if isinstance(ctx.vals.resolve(outer, c.ast.func), ast.Name) and ctx.vals.resolve(outer, c.ast.func).id == cls_p]
        rep.ob(rule, "each argument text is converted afresh by the annotation's own converter", True if direct else None, func=w,
               construct=direct[0] if direct else "(conversion call not found)")
        # the only thing handed back unconverted is argparse's SUPPRESS sentinel *object* (argparse itself tests `is not SUPPRESS`):
        # a client can send the text '==SUPPRESS==', which is equal to the sentinel but not identical with it
        gw = ctx.an.cfg(w)
        raw = [r for r in ctx.nodes(w, lambda n: n.op == "return" and n.ast.value is not None and isinstance(strip_cast(n.ast.value), ast.Name) and strip_cast(n.ast.value).id == p0)]
        ident = [t for t in ctx.nodes(w, lambda n: n.op == "test" and isinstance(n.ast, ast.Compare) and len(n.ast.ops) == 1 and isinstance(n.ast.ops[0], (ast.Is, ast.IsNot))
                                      and isinstance(n.ast.left, ast.Name) and n.ast.left.id == p0 and isinstance(n.ast.comparators[0], ast.Name) and n.ast.comparators[0].id == "SUPPRESS")]
        same = lambda t_: "T" if isinstance(t_.ast.ops[0], ast.Is) else "F"  # the branch on which the argument IS the sentinel
        for r in ctx.distinct_sites(raw):
            copies = [c for c in raw if c.ast is r.ast]
            free = reach([gw.entry], lambda a, b, lab: not (a in ident and lab[0] == same(a)))
            ok = bool(ident) and not any(c in free for c in copies)
            rep.ob(rule, "an argument is handed back unconverted only if it IS the SUPPRESS sentinel (identity, as argparse tests it)", ok, node=r,
                   detail="" if ok else "the raw argument can be returned without having been found identical with argparse.SUPPRESS: the text '==SUPPRESS==' sent by a "
                                        "client compares equal to the sentinel and reaches the pool method unconverted")


# ---------------------------------------------------------------------- R18.3
def r_containment(ctx: Ctx, rule: str):
    rep = ctx.rep
    cp, sess = anchors(ctx)
    rep.rule(rule, "containment, as three structural sub-rules: (i) the parse_args call lies in a try whose handlers cover ArgumentError, "
                   "HelpRequested and ParserError and whose handlers fall through; (ii) the argument type wrapper re-raises only "
                   "ArgumentTypeError/TypeError/ValueError (which argparse converts) and wraps every other Exception into ArgumentTypeError; "
                   "(iii) pool members are invoked from session.py only through return_or_exception, only after a successful parse, and "
                   "return_or_exception catches Exception around both its call forms")
    f = sess.methods.get("_parse_command")
    if f is None:
        raise AnalysisError("anchor: ControlSession._parse_command missing")
    g = ctx.an.cfg(f)
    parses = ctx.distinct_sites(ctx.nodes(f, lambda n: n.op == "call" and isinstance(n.ast.func, ast.Attribute) and n.ast.func.attr in ("parse_args", "parse_known_args")))
    rep.floor(rule, "parse_args call in _parse_command", len(parses), 1)
    # INPUT-SAFE: whatever else is done to the client's line on its way to the parser cannot raise past the session
    # (a tokeniser / converter applied to raw client text - shlex.split, int(), json.loads, literal_eval - rejects some lines)
    lp_ = sess.methods.get("listen")
    for root_f in [x for x in (f, lp_) if x is not None]:
        for n_ in ctx.distinct_sites(ctx.nodes(root_f, lambda n: n.op == "call" and n.callee is not None and n.callee.kind == "ext"
                                               and not (isinstance(n.ast.func, ast.Attribute) and n.ast.func.attr in ("parse_args", "parse_known_args")))):
            escapes = [lab for c_ in [x for x in ctx.an.cfg(root_f).nodes if x.ast is n_.ast and x.op == "call" and x.pred] for s_, lab in c_.succ
                       if lab[0] == "x" and s_.op not in ("handler", "suppressed")]
            if not escapes:
                continue
            # does it work on the line?
            def from_line(e_: ast.AST) -> bool:
                for fr_, env_, leaf in ctx.vals.leaves(n_.func, n_.env, e_):
                    for x in ast.walk(leaf):
                        if isinstance(x, ast.Name) and fr_ in (f, lp_) and x.id == "msg":
                            return True
                        if isinstance(x, ast.Attribute) and x.attr in ("readline", "read"):
                            return True
                return False
            if any(from_line(a_) for a_ in list(n_.ast.args) + [k.value for k in n_.ast.keywords]):
                rep.ob(rule, "no step applied to the client's line can raise out of the session (every line is answered, the session goes on)", False, node=n_,
                       detail=f"{n_.callee.name} may raise {escapes[0][1][0].rpartition('.')[2]} on some lines and nothing catches it here: the line gets no reply and the connection dies")
    need = {"argparse.ArgumentError": "ArgumentError", "exceptions.HelpRequested": "HelpRequested", "exceptions.ParserError": "ParserError"}
    for p in parses:
        copies = [n for n in g.nodes if n.ast is p.ast and n.op == "call" and n.pred]
        for cls, short in need.items():
            # where does this class go when parse_args raises it (in _parse_command or in a helper spliced into it)?
            tgts = [s2 for c_ in copies for s2, lab in c_.succ if lab == ("x", (cls, True))]
            hn = [t for t in tgts if t.op in ("handler", "suppressed")]
            caught = bool(tgts) and len(hn) == len(tgts)
            rep.ob(rule, f"{short} raised while parsing a line is caught in _parse_command", caught, node=p, detail="" if caught else f"no handler for {short} around parse_args")
            if caught:
                def body_raises(h: Node) -> bool:
                    """does a step of this handler's own body have an exceptional way out?"""
                    if h.op != "handler":
                        return False
                    inside = {id(x) for st_ in h.ast.body for x in ast.walk(st_)}
                    body = [m for m in reach([h], lambda a, b, lab: lab[0] in NORMAL_KINDS) if m.func is h.func and m.ast is not None and id(m.ast) in inside]
                    return any(lab[0] in ("x",) for m in body for _s, lab in m.succ) or any(isinstance(x, ast.Raise) for st_ in h.ast.body for x in ast.walk(st_))

                falls = all(g.exit in reach([h], lambda a, b, lab: lab[0] in NORMAL_KINDS) and not body_raises(h) for h in hn)
                rep.ob(rule, f"the handler for {short} answers and returns (it does not re-raise)", falls, func=f, construct=hn[0])
    for p in parses:
        recv = ctx.path_at(p, p.ast.func.value)
        rep.ob(rule, "the line is parsed by this session's ControlParser", recv == "self._parser", node=p, detail=str(recv))
    # (i') the hooks argparse calls while it parses (error -> exit -> _print_message, print_help) run inside parse_args: whatever
    # they raise besides the two classes made for it passes the handlers above
    hooks = [cp.methods[h] for h in ("error", "exit", "_print_message", "print_help", "print_usage", "format_help", "format_usage") if h in cp.methods]
    rep.floor(rule, "parser hooks that run inside parse_args", len(hooks), 3)
    own = ("exceptions.ParserError", "exceptions.HelpRequested")
    for h in hooks:
        hg = ctx.an.cfg(h)
        for x in [x for x in hg.raise_exits.values() if x.pred]:
            ok = any(ctx.hier.is_sub(x.tok[0], a) for a in own)
            src = next((m[0] if isinstance(m, tuple) else m for m in x.pred), None)
            rep.ob(rule, "a parser hook that runs inside parse_args (error / exit / _print_message / print_help) leaves exceptionally only as ParserError or "
                         "HelpRequested - the classes _parse_command answers", ok, func=h, construct=f"raise exit {x.tok[0].rpartition('.')[2]}",
                   detail="" if ok else f"`{src.text(60) if src is not None else '?'}` can raise {x.tok[0].rpartition('.')[2]}: it escapes parse_args past the handlers, the line "
                                        "gets no reply and the connection dies")
    # (ii) the type wrapper
    outer = ctx.prog.functions.get(f"{PARSER_MOD}._get_arg_type_wrapper")
    if outer is None:
        raise AnalysisError("anchor: control.parser._get_arg_type_wrapper missing")
    inner = list(ctx.an.scope(outer).nested.values())
    rep.floor(rule, "wrapper function inside _get_arg_type_wrapper", len(inner), 1)
    allowed = ("argparse.ArgumentTypeError", "builtins.TypeError", "builtins.ValueError")
    for w in inner:
        wg = ctx.an.cfg(w)
        conv = ctx.nodes(w, lambda n: n.op == "call" and n.callee is not None and n.callee.kind == "user")
        memo = _memoised_converter(ctx, outer, w)
        if memo is not None:
            rep.ob(rule, "each argument text is converted afresh by the annotation's own converter", False, node=memo[0], detail=memo[1])
            continue
        rep.floor(rule, "conversion call in the wrapper", len(ctx.distinct_sites(conv)), 1)
        for x in [x for x in wg.raise_exits.values() if x.pred]:
            ok = any(ctx.hier.is_sub(x.tok[0], a) for a in allowed)
            rep.ob(rule, "a failing conversion leaves the wrapper only as ArgumentTypeError / TypeError / ValueError (argparse turns these into an error message)", ok, func=w,
                   construct=f"raise exit {x.tok[0].rpartition('.')[2]}", detail="" if ok else "argparse does not catch this class: it would escape parse_args and kill the session")
        for c in ctx.distinct_sites(conv):
            a = c.ast.args
            rep.ob(rule, "the converter is applied to the raw argument", len(a) == 1 and isinstance(a[0], ast.Name) and a[0].id == w.param_names()[0], node=c)
    rets = [n for n in ast.walk(outer.node) if isinstance(n, ast.Return) and n.value is not None and n in outer.node.body]
    rep.ob(rule, "_get_arg_type_wrapper returns the wrapper", any(isinstance(r.value, ast.Name) and r.value.id in ctx.an.scope(outer).nested for r in rets), func=outer, construct=rets[0] if rets else "(no return)")
    gt = ctx.prog.functions.get(f"{PARSER_MOD}._get_type_from_annotation")
    if gt is not None:
        for r in [n for n in ast.walk(gt.node) if isinstance(n, ast.Return) and n.value is not None]:
            rv = ctx.vals.resolve(gt, r.value)
            ok = isinstance(rv, ast.Call) and any(t.name == "_get_arg_type_wrapper" for t in ctx.an.scope(gt).callee(rv).targets)
            rep.ob(rule, "every converter handed to argparse is wrapped by _get_arg_type_wrapper", ok, func=gt, construct=r)
    afa = cp.methods.get("add_function_arg")
    if afa is not None:
        for n in ctx.distinct_sites(ctx.nodes(afa, lambda n: n.op == "call" and isinstance(n.ast.func, ast.Attribute) and n.ast.func.attr == "setdefault" and n.ast.args
                                              and isinstance(n.ast.args[0], ast.Constant) and n.ast.args[0].value == "type")):
            v = n.ast.args[1] if len(n.ast.args) > 1 else None
            lv = [x[2] for x in ctx.vals.leaves(n.func, n.env, v)] if v is not None else []
            ok = bool(lv) and all(isinstance(x, ast.Call) and any(t.name in ("_get_type_from_annotation", "_get_arg_type_wrapper") for t in ctx.an.scope(afa).callee(x).targets) for x in lv)
            rep.ob(rule, "the argparse `type` of every command argument is a wrapped converter", ok, node=n)
    # (iii) who calls pool members
    n_roe = 0
    for fn in [x for x in ctx.prog.all_functions() if x.module.name == SESSION_MOD]:
        for u in ctx.distinct_sites(ctx.nodes(fn, lambda n: n.op == "call" and n.callee is not None and n.callee.kind == "user")):
            rep.ob(rule, "session.py never calls a pool member directly (only through return_or_exception)", False, node=u)
        for c in ctx.distinct_sites(ctx.nodes(fn, lambda n: ctx.is_call_to(n, "return_or_exception"))):
            n_roe += 1
            g2 = ctx.an.cfg(fn)
            awaited = any(m.op == "await" and strip_cast(m.ast.value) is c.ast for m in g2.nodes)
            rep.ob(rule, "the result of return_or_exception is awaited", awaited, node=c)
    rep.floor(rule, "return_or_exception call sites in session.py", n_roe, 3)
    execs = ctx.distinct_sites(ctx.nodes(f, lambda n: ctx.is_call_to(n, "_exec_method_and_respond", "_exec_property_and_respond")))
    exec_all = ctx.nodes(f, lambda n: ctx.is_call_to(n, "_exec_method_and_respond", "_exec_property_and_respond"))
    # (one call expression may stand for both executors when the callee is chosen by a helper: count what is called)
    rep.floor(rule, "dispatch calls in _parse_command", len({(id(n.ast), t.name) for n in exec_all for c_ in (n.callee, n.awaited) if c_ is not None for t in c_.targets}), 2)
    pnodes = [n for n in g.nodes if any(n.ast is p.ast for p in parses) and n.op == "call"]
    unparsed = reached_without(ctx, f, pnodes, [x for x in g.nodes if any(x.ast is e.ast and x.op == e.op for e in execs)])
    for e in execs:
        rep.ob(rule, "a pool member is invoked only after the line was parsed successfully", not any(x.ast is e.ast for x in unparsed), node=e)
    roe = ctx.prog.functions.get("internals.helpers.return_or_exception")
    if roe is None:
        raise AnalysisError("anchor: internals.helpers.return_or_exception missing")
    rg = ctx.an.cfg(roe)
    for x in [x for x in rg.raise_exits.values() if x.pred and x.kind == "x"]:
        rep.ob(rule, "no Exception of the called member escapes return_or_exception", False, func=roe, construct=f"raise exit {x.tok[0].rpartition('.')[2]}")
    rep.ob(rule, "return_or_exception contains every Exception of the member it runs", not [x for x in rg.raise_exits.values() if x.pred and x.kind == "x"], func=roe, construct="raising exits (cancellation aside)")


def reached_without(ctx: Ctx, f: FuncInfo, musts: List[Node], targets: List[Node]) -> List[Node]:
    """Targets that can be reached on a path on which none of `musts` completed normally.  Path-sensitive in one respect:
    whether a local is None - so that `x = helper(); if x is None: return` is understood when the helper (spliced in)
    returns None exactly on its failure paths."""
    NOT_NONE = ("vars", "dict", "list", "set", "tuple", "str", "int", "len", "repr", "sorted", "bool", "float", "frozenset")

    def status(e: Optional[ast.AST]) -> str:
        if e is None or (isinstance(e, ast.Constant) and e.value is None):
            return "N"
        if isinstance(e, (ast.Constant, ast.Dict, ast.List, ast.Tuple, ast.Set, ast.JoinedStr, ast.ListComp, ast.DictComp, ast.SetComp)):
            return "V"
        if isinstance(e, ast.Call) and isinstance(e.func, ast.Name) and e.func.id in NOT_NONE:
            return "V"
        return "?"

    def key(env, name: str) -> str:
        return f"{id(env) if env is not None else 0}:{name}"

    def test_none(e: ast.AST, n: Node, st: Dict[str, str]) -> Optional[bool]:
        """truth of the test if decided by None-ness"""
        if isinstance(e, ast.UnaryOp) and isinstance(e.op, ast.Not):
            v = test_none(e.operand, n, st)
            return None if v is None else not v
        if isinstance(e, ast.Name):
            s_ = st.get(key(n.env, e.id))
            return False if s_ == "N" else None
        if isinstance(e, ast.Compare) and len(e.ops) == 1 and isinstance(e.left, ast.Name) and isinstance(e.comparators[0], ast.Constant) and e.comparators[0].value is None:
            s_ = st.get(key(n.env, e.left.id))
            if s_ in ("N", "V"):
                isnone = s_ == "N"
                if isinstance(e.ops[0], (ast.Is, ast.Eq)):
                    return isnone
                if isinstance(e.ops[0], (ast.IsNot, ast.NotEq)):
                    return not isnone
        return None

    mustset = set(musts)

    def transfer(ai: AbsInt, n: Node, lab: Label, state):
        done, items = state
        st = dict(items)
        normal = lab[0] in NORMAL_KINDS
        if n in mustset and normal:
            done = True
        if normal and n.op == "ret_inl" and n.env is not None:
            st[f"ret:{ctx.an.env_site.get(id(n.env), 0)}"] = status(n.ast.value)
        elif normal and n.op == "assign" and isinstance(n.ast, (ast.Assign, ast.AnnAssign)) and getattr(n.ast, "value", None) is not None:
            v = strip_cast(n.ast.value)
            if isinstance(v, ast.Await):
                v = strip_cast(v.value)
            tg = n.ast.targets if isinstance(n.ast, ast.Assign) else [n.ast.target]
            for t in tg:
                if isinstance(t, ast.Name):
                    if isinstance(v, ast.Call) and id(v) in ctx.an.spliced_at:
                        st[key(n.env, t.id)] = st.get(f"ret:{id(v)}", "?")
                    else:
                        st[key(n.env, t.id)] = status(v) if not isinstance(v, ast.Name) else st.get(key(n.env, v.id), "?")
        elif n.op == "test" and lab[0] in ("T", "F"):
            v = test_none(n.ast, n, st)
            if v is not None and v != (lab[0] == "T"):
                return []
        return [(done, frozenset(st.items()))]

    hits: List[Node] = []

    def at_node(ai: AbsInt, n: Node, state):
        if n in targets and not state[0] and n not in hits:
            hits.append(n)

    AbsInt(ctx.an, transfer, at_node=at_node).run(f, (False, frozenset()))
    return hits


# ---------------------------------------------------------------------- R18.4
def r_buffer(ctx: Ctx, rule: str):
    rep = ctx.rep
    cp, sess = anchors(ctx)
    rep.rule(rule, "buffer isolation: the response buffer is an instance field created per session, the parser's stream is that same object, and "
                   "after every command the buffer is read (getvalue) and then reset (seek(0) + truncate()) on every path before the next read")
    fld = sess.fields.get("_response_buffer")
    rep.ob(rule, "the response buffer is an instance field set by the constructor", fld is not None and fld[2].name == "__init__" and "_response_buffer" not in sess.class_attrs,
           construct="ControlSession._response_buffer")
    if fld is not None:
        v = fld[1]
        ok = isinstance(v, ast.Call) and ctx.an.scope(fld[2]).callee(v).name.endswith("StringIO") and not v.args
        rep.ob(rule, "each session gets a fresh, empty StringIO", ok, func=fld[2], construct=v)
    w = [e for e in ctx.effects(fields=["_response_buffer"], kinds=["assign"]) if e.path.endswith("._response_buffer")]
    for e in w:
        rep.ob(rule, "the buffer object is never replaced after construction (the parser keeps writing to it)", ctx.fname(e.node.root or e.node.func) == "__init__", node=e.node)
    # a parser's stream is fixed at construction (its sub-parsers captured the same object)
    ws = [e for e in ctx.eff.all() if e.kind == "assign" and e.path == "self._stream" and ctx.prog.enclosing_class(e.node.func) is cp]
    rep.floor(rule, "assignments of the parser's stream", len(ws), 1)
    for e in ws:
        rep.ob(rule, "a parser's stream is set once, by its constructor (sub-parsers hold the same object; re-pointing only the top parser splits the output)",
               ctx.fname(e.node.root or e.node.func) == "__init__", node=e.node)
    # every session builds its own parser
    ps = [e for e in ctx.eff.all() if e.kind == "assign" and e.path == "self._parser" and ctx.prog.enclosing_class(e.node.func) is sess]
    rep.floor(rule, "assignments of the session's parser", len(ps), 2)
    for e in ps:
        v = getattr(e.node.ast, "value", None)
        v = ctx.vals.resolve(e.node.func, v) if v is not None else None
        fresh = (isinstance(v, ast.Constant) and v.value is None) or (isinstance(v, ast.Call) and ctx.an.scope(e.node.func).callee(v).kind == "ctor" and ctx.an.scope(e.node.func).callee(v).cls is cp)
        rep.ob(rule, "a session's parser is a ControlParser constructed for this session (never one shared with another session)", fresh, node=e.node,
               detail="" if fresh else f"assigned from {ast.unparse(v)[:60] if v is not None else None}")
    # no module-level mutable state written by the control modules' functions
    shared = []
    for fn in ctx.prog.all_functions():
        if fn.module.name not in (PARSER_MOD, SESSION_MOD, SERVER_MOD):
            continue
        sc2 = ctx.an.scope(fn)
        for e in ctx.eff.of_func(fn):
            root = e.path.split(".")[0].split("[")[0]
            if e.kind in ("insert", "remove", "clear", "assign", "aug") and root in fn.module.assigns and root not in sc2.defs and root not in sc2.params and root != "log":
                shared.append(e)
        for node in sc2._own_nodes():
            if isinstance(node, ast.Global):
                shared.append(type("E", (), {"node": None, "path": ",".join(node.names), "kind": "global", "fn": fn, "ast": node})())
    for e in shared:
        if getattr(e, "node", None) is not None:
            rep.ob(rule, "sessions share no mutable module-level state (each reply contains only the output of its own session)", False, node=e.node, detail=f"{e.kind} on module-level `{e.path}`")
        else:
            rep.ob(rule, "sessions share no mutable module-level state (each reply contains only the output of its own session)", False, func=e.fn, construct=e.ast)
    rep.ob(rule, "no function of parser.py / session.py / server.py writes module-level state", not shared, construct=f"module-level writes: {len(shared)}")
    hs = sess.methods.get("client_handshake")
    if hs is None:
        raise AnalysisError("anchor: ControlSession.client_handshake missing")
    sc = ctx.an.scope(hs)
    ctor = ctx.distinct_sites(ctx.nodes(hs, lambda n: n.op == "call" and n.callee is not None and n.callee.kind == "ctor" and n.callee.cls is cp))
    rep.floor(rule, "ControlParser construction in the handshake", len(ctor), 1)
    for c in ctor:
        stream = next((k.value for k in c.ast.keywords if k.arg == "stream"), None)
        if stream is None and c.ast.args:
            stream = c.ast.args[0]
        if stream is None:
            # ControlParser(**parser_kwargs) with a dictionary display built in the same frame (this function, or a helper spliced in)
            csc = ctx.an.scope(c.func)
            for k in c.ast.keywords:
                if k.arg is None and isinstance(k.value, ast.Name):
                    for h in csc.defs.get(k.value.id, []):
                        d = h[1] if h[0] == "assign" else (h[2] if h[0] == "ann" else None)
                        if isinstance(d, ast.Dict):
                            for kk, vv in zip(d.keys, d.values):
                                if kk is not None and ctx.vals.const(c.func, kk) is not None and ctx.vals.const(c.func, kk).value == "stream":
                                    stream = vv
        rep.ob(rule, "the parser's stream is this session's response buffer", stream is not None and ctx.path_at(c, stream) == "self._response_buffer", node=c,
               detail=f"stream <- {ast.unparse(stream) if stream is not None else None}")
    f = sess.methods.get("listen")
    g = ctx.an.cfg(f)
    heads = ctx.nodes(f, lambda n: n.op == "loophead")
    parse = ctx.nodes(f, lambda n: ctx.is_await_of(n, "_parse_command"))
    getv = ctx.nodes(f, lambda n: any(e.path == "self._response_buffer" and e.detail == "getvalue" for e in ctx.eff.of_node(n)))
    seeks = ctx.nodes(f, lambda n: any(e.path == "self._response_buffer" and e.kind == "seek" for e in ctx.eff.of_node(n)) and n.ast.args and isinstance(n.ast.args[0], ast.Constant) and n.ast.args[0].value == 0)
    truncs = ctx.nodes(f, lambda n: any(e.path == "self._response_buffer" and e.kind == "truncate" for e in ctx.eff.of_node(n)))
    rep.floor(rule, "getvalue / seek(0) / truncate in listen", min(len(getv), len(seeks), len(truncs)), 1)
    for p in ctx.distinct_sites(parse):
        after = [s for s, lab in p.succ if lab[0] in NORMAL_KINDS]
        nf = lambda a, b, lab: lab[0] in NORMAL_KINDS
        for what, nodes in (("read (getvalue)", getv), ("rewound (seek(0))", seeks), ("emptied (truncate)", truncs)):
            r = reach(after, nf, avoid=set(nodes))
            ok = not (set(heads) & r) and g.exit not in r
            rep.ob(rule, f"after a command the buffer is {what} on every path before the next read", ok, node=p)
        # order: getvalue before the reset; truncate() without size only after seek(0)
        for t in truncs:
            sized = bool(t.ast.args) and isinstance(t.ast.args[0], ast.Constant) and t.ast.args[0].value == 0
            if not sized:
                r = reach(after, nf, avoid=set(seeks))
                rep.ob(rule, "truncate() cuts at position 0 (it follows seek(0))", t not in r, node=t)
            r = reach(after, nf, avoid=set(getv))
            rep.ob(rule, "the buffer is emptied only after its content was taken", t not in r, node=t)


# ---------------------------------------------------------------------- R17.x
def r_dispatch(ctx: Ctx, rule: str):
    rep = ctx.rep
    cp, sess = anchors(ctx)
    rep.rule(rule, "_exec_method_and_respond: a parameter named self gets the pool; POSITIONAL_ONLY/POSITIONAL_OR_KEYWORD parameters are popped "
                   "into the positional list in signature order; VAR_POSITIONAL is unpacked after them; the rest goes by keyword; the call goes "
                   "through return_or_exception; the reply is 'ok' iff the result is None, else str(result)")
    f = sess.methods.get("_exec_method_and_respond")
    if f is None:
        raise AnalysisError("anchor: ControlSession._exec_method_and_respond missing")
    sc = ctx.an.scope(f)
    mp = f.param_names()[1]
    kw = f.node.args.kwarg.arg if f.node.args.kwarg else None
    kw_root = kw
    V = ctx.vals
    # the loop over the method's signature: in this function or in a helper spliced into it
    heads = ctx.distinct_sites(ctx.nodes(f, lambda n: n.op == "iter" and isinstance(n.ast, ast.For)))
    loops = [h.ast for h in heads]
    lp = None
    lp_node = None
    for h in heads:
        txt = V.canon_at(h.func, h.env, h.ast.iter).replace(" ", "")
        if txt in (f"signature({mp}).parameters.values()", f"inspect.signature({mp}).parameters.values()"):
            lp, lp_node = h.ast, h
    rep.ob(rule, "the arguments are arranged by walking the method's own signature in order", lp is not None, func=f, construct=loops[0] if loops else "(no loop)")
    calls = ctx.distinct_sites(ctx.nodes(f, lambda n: ctx.is_call_to(n, "return_or_exception")))
    rep.floor(rule, "return_or_exception call in _exec_method_and_respond", len(calls), 1)
    pos_name = var_name = None
    copy_local: List[Tuple[FuncInfo, str]] = []
    for c in calls:
        a = c.ast.args

        def is_kwargs(x: ast.AST) -> bool:
            # the session's own **kwargs dictionary - directly, or handed through a helper and back (as a component of its result),
            # or a copy of it (`dict(kwargs)`, `kwargs.copy()`, `{**kwargs}`) from which the positional ones are popped instead
            fr_, env_, leaf = V.trace(c.func, c.env, x)
            if fr_ is f and not env_ and isinstance(leaf, ast.Name) and leaf.id == kw:
                return True
            inner = None
            if isinstance(leaf, ast.Call) and isinstance(leaf.func, ast.Name) and leaf.func.id == "dict" and len(leaf.args) == 1 and not leaf.keywords:
                inner = leaf.args[0]
            elif isinstance(leaf, ast.Call) and isinstance(leaf.func, ast.Attribute) and leaf.func.attr == "copy" and not leaf.args:
                inner = leaf.func.value
            elif isinstance(leaf, ast.Dict) and len(leaf.keys) == 1 and leaf.keys[0] is None:
                inner = leaf.values[0]
            if inner is not None:
                fr2, env2, leaf2 = V.trace(fr_, env_, inner)
                if fr2 is f and not env2 and isinstance(leaf2, ast.Name) and leaf2.id == kw_root:
                    for nm_, hows_ in ctx.an.scope(fr_).defs.items():
                        if any((h_[0] == "assign" and h_[1] is leaf) or (h_[0] == "ann" and h_[2] is leaf) for h_ in hows_):
                            copy_local.append((fr_, nm_))
                    return True
            return False

        ok = len(a) == 3 and V.is_param(f, a[0], mp) and all(isinstance(x, ast.Starred) for x in a[1:]) \
            and len(c.ast.keywords) == 1 and c.ast.keywords[0].arg is None and is_kwargs(c.ast.keywords[0].value)
        srcs = [V.trace_var(c.func, c.env, x.value) for x in a[1:]] if ok else []
        ok = ok and all(isinstance(leaf, ast.Name) for _fr, _env, leaf in srcs)
        rep.ob(rule, "the member is called as method(*positional, *var_positional, **remaining keywords)", ok, node=c)
        if ok:
            (pf, penv, pl), (vf, venv, vl) = srcs
            if lp is not None and pf is lp_node.func and vf is lp_node.func:
                pos_name, var_name = pl.id, vl.id
                if pf is not f and penv:
                    # the keyword dictionary under the name the helper (which fills the lists and hands them back) has for it
                    kw = next((pn for pn, (_c, arg, _e) in penv.items() if isinstance(arg, ast.Name) and arg.id == kw), kw)
            elif lp is not None:
                rep.ob(rule, "the positional lists built by the loop over the signature are the ones unpacked into the call", None, func=f, construct="(lists not traced to the loop's function)")
    if lp is not None and pos_name and var_name and isinstance(lp.target, ast.Name):
        pv = lp.target.id
        lf = lp_node.func
        # classify the branches of the loop body
        facts = {"self": False, "pos": False, "var": False, "pos_kinds": set()}
        lenv = lp_node.env

        def in_root_terms(st_: ast.stmt) -> str:
            # the statement with the helper's parameters replaced by what the session passed for them (`pool` -> `self._pool`)
            class R(ast.NodeTransformer):
                def visit_Name(self, x):
                    if lenv and x.id in lenv and isinstance(x.ctx, ast.Load) and not ctx.an.scope(lf).defs.get(x.id):
                        fr_, _e, leaf = V.trace(lf, lenv, x)
                        if fr_ is f and isinstance(leaf, (ast.Name, ast.Attribute)):
                            return leaf
                    return x
            import copy
            return ast.unparse(R().visit(copy.deepcopy(st_)))

        kw_l = kw
        if lenv:
            kw_l = kw_root  # (after the substitution the dictionary is spelled as in the session's method again)
        for cf_, nm_ in copy_local:
            if cf_ is lf:
                kw_l = nm_  # the arguments are popped from the copy that is then unpacked as the remaining keywords
        for node in ast.walk(lp):
            if isinstance(node, ast.If):
                cond = V.canon(lf, node.test).replace(" ", "")
                body = " ".join(in_root_terms(s) for s in node.body).replace(" ", "")
                if cond in (f"{pv}.name=='self'", f"'self'=={pv}.name"):
                    facts["self"] = body == f"{pos_name}.append(self._pool)"
                elif "kind" in cond and ("POSITIONAL_OR_KEYWORD" in cond or "POSITIONAL_ONLY" in cond):
                    facts["pos_kinds"] = set(re.findall(r"(POSITIONAL_OR_KEYWORD|POSITIONAL_ONLY|VAR_POSITIONAL|KEYWORD_ONLY|VAR_KEYWORD)", cond))
                    facts["pos"] = body == f"{pos_name}.append({kw_l}.pop({pv}.name))"
                elif "VAR_POSITIONAL" in cond and "POSITIONAL_OR_KEYWORD" not in cond:
                    facts["var"] = body == f"{var_name}={kw_l}.pop({pv}.name)"
        rep.ob(rule, "a parameter named self receives the pool instance, first", facts["self"], func=f, construct="branch: param.name == 'self'")
        rep.ob(rule, "exactly the POSITIONAL_ONLY / POSITIONAL_OR_KEYWORD parameters are passed positionally, in signature order",
               facts["pos"] and facts["pos_kinds"] == {"POSITIONAL_OR_KEYWORD", "POSITIONAL_ONLY"}, func=f, construct="branch: positional kinds", detail=str(sorted(facts["pos_kinds"])))
        rep.ob(rule, "the VAR_POSITIONAL values are unpacked after the positional ones", facts["var"], func=f, construct="branch: VAR_POSITIONAL")
        # no early exit from the loop
        brk = [n for n in ast.walk(lp) if isinstance(n, (ast.Break, ast.Return))]
        rep.ob(rule, "every parameter of the signature is considered", not brk, func=f, construct=brk[0] if brk else "no break/return in the loop")
    r_reply_forms(ctx, rule)


def r_reply_forms(ctx: Ctx, rule: str):
    """RESULT-USED(return_or_exception -> response buffer)"""
    rep = ctx.rep
    cp, sess = anchors(ctx)
    rep.rule(rule + "r", "RESULT-USED: at each of the three call sites the value of return_or_exception (result or exception) flows into the "
                         "response buffer: 'ok' iff it is None (methods, setters), else its str(); for getters its str()")
    n = 0
    for nm in ("_exec_method_and_respond", "_exec_property_and_respond"):
        f = sess.methods.get(nm)
        if f is None:
            raise AnalysisError(f"anchor: ControlSession.{nm} missing")
        sc = ctx.an.scope(f)
        g = ctx.an.cfg(f)
        parents: Dict[int, ast.AST] = {}
        frames_seen: Set[str] = set()

        def add_parents(fn_: FuncInfo) -> None:
            # (the call may sit in a coroutine helper spliced into f: its own statements are its context)
            if fn_.qual in frames_seen:
                return
            frames_seen.add(fn_.qual)
            for node in ctx.an.scope(fn_)._own_nodes():
                for ch in ast.iter_child_nodes(node):
                    parents[id(ch)] = node

        add_parents(f)
        for c in ctx.distinct_sites(ctx.nodes(f, lambda n: ctx.is_call_to(n, "return_or_exception"))):
            n += 1
            add_parents(c.func)
            sc = ctx.an.scope(c.func)
            first = ctx.vals.resolve(c.func, c.ast.args[0]) if c.ast.args else None
            is_getter = isinstance(first, ast.Attribute) and first.attr == "fget"
            # the await of this call, every write to the response buffer that writes its value (in whatever frame: helpers of the
            # session and module-level helpers are spliced into f's flow graph), dominance, and the form of what is written
            aws = ctx.nodes(f, lambda m: m.op == "await" and isinstance(m.ast, ast.Await) and (strip_cast(m.ast.value) is c.ast or ctx.an.awaited_via.get(id(m.ast)) is c.ast))
            if not aws:
                rep.ob(rule + "r", "the outcome of the call is awaited and used", False, node=c)
                continue
            aw_asts = {id(m.ast) for m in aws} | {id(c.ast)}

            def denotes(at: Node, x: ast.AST, aw_asts=aw_asts) -> bool:
                """x, evaluated at step `at`, is the awaited outcome of this call (directly, through a local, or through parameters of
                helpers the value was handed to)"""
                if id(x) in aw_asts or (isinstance(x, ast.Await) and id(strip_cast(x.value)) in aw_asts):
                    return True
                if not isinstance(x, ast.Name):
                    return False
                ls = ctx.vals.leaves_at(at, x)
                return bool(ls) and all(id(v) in aw_asts or (isinstance(v, ast.Await) and id(strip_cast(v.value)) in aw_asts) for _f, _e, v in ls)

            all_writes = ctx.nodes(f, lambda m: m.op == "call" and isinstance(m.ast, ast.Call) and m.ast.args
                                   and any(e.kind == "write" and e.path == "self._response_buffer" for e in ctx.eff.of_node(m)))
            writes = [m for m in all_writes if any(denotes(m, x) for x in ast.walk(m.ast.args[0]))]
            # `if value is None: write(ok)` / `else: write(str(value))`: the constant reply of the None arm also answers for the value
            starts_ = [s_ for a_ in aws for s_, lab in a_.succ if lab[0] in NORMAL_KINDS]

            def none_edge(t_: Node) -> Optional[str]:
                e_ = t_.ast
                flip = False
                while isinstance(e_, ast.UnaryOp) and isinstance(e_.op, ast.Not):
                    e_, flip = e_.operand, not flip
                if isinstance(e_, ast.Compare) and len(e_.ops) == 1 and isinstance(e_.ops[0], (ast.Is, ast.IsNot)) and isinstance(e_.comparators[0], ast.Constant) \
                        and e_.comparators[0].value is None and denotes(t_, e_.left):
                    return "T" if isinstance(e_.ops[0], ast.Is) != flip else "F"
                return None

            none_tests = {t_: none_edge(t_) for t_ in ctx.nodes(f, lambda m: m.op == "test") if none_edge(t_) is not None}
            ok_writes = []
            for m in all_writes:
                if m in writes or not is_ok_text(ctx, m.func, m.ast.args[0]):
                    continue
                if any(m not in reach(starts_, lambda a, b, lab, t_=t_, lb=lb: not (a is t_ and lab[0] == lb)) and m in reach(starts_) for t_, lb in none_tests.items()):
                    ok_writes.append(m)
            str_only_when_not_none = bool(ok_writes) and all(
                any(m in reach(starts_) and m not in reach(starts_, lambda a, b, lab, t_=t_, lb=lb: not (a is t_ and lab[0] != lb and lab[0] in ("T", "F"))) for t_, lb in none_tests.items())
                for m in writes)
            writes_all = writes + ok_writes
            ok_dom = bool(writes) and all(g.exit not in reach([s_ for s_, lab in a_.succ if lab[0] in NORMAL_KINDS], lambda a, b, lab: lab[0] in NORMAL_KINDS, avoid=set(writes_all))
                                          for a_ in aws)
            rep.ob(rule + "r", "the outcome of the member call is written to the response buffer on every path", ok_dom, node=c,
                   detail="" if ok_dom else ("the awaited value is discarded: an exception returned by the member is answered as if the call had succeeded" if not writes
                                             else "on some path the value is dropped (an exception returned by the member would be answered as if it had succeeded)"))
            for w in ctx.distinct_sites(writes):
                copies = [m for m in writes if m.ast is w.ast]
                forms = {reply_form(m.ast.args[0], None, None, ctx, at=m, denotes=denotes) for m in copies}
                if forms == {"str"} and str_only_when_not_none:
                    forms = {"ok-or-str"}  # str(value) on the not-None arm, the constant ok on the None arm
                want = "str" if is_getter else "ok-or-str"
                ok = all(form == want or (is_getter and form == "ok-or-str") for form in forms)
                rep.ob(rule + "r", f"the reply has the form {'str(result)' if is_getter else 'ok if result is None else str(result)'}", ok, node=c,
                       detail=f"written: {ast.unparse(w.ast.args[0])[:80]} ({sorted(forms)}): a falsy result that is not None (0, False, [], set()) must still be reported as its str()")
    direct = 0
    for fn in [x for x in ctx.prog.all_functions() if x.module.name == SESSION_MOD]:
        for u in ctx.distinct_sites(ctx.nodes(fn, lambda n: n.op == "call" and n.callee is not None and n.callee.kind == "user")):
            direct += 1
            rep.ob(rule + "r", "every pool member is invoked through return_or_exception (so that an exception it raises becomes the reply)", False, node=u)
    rep.floor(rule + "r", "invocations of pool members (through return_or_exception or direct)", n + direct, 3)


def is_ok_text(ctx: Optional[Ctx], fr: Optional[FuncInfo], x: ast.AST, _depth: int = 0) -> bool:
    """the expression is the OK reply: `CMD_OK.decode()`, the literal 'ok', or a module-level / local name bound once to one of these"""
    t = ast.unparse(x).replace(" ", "")
    if t in ("CMD_OK.decode()", "'ok'", '"ok"', "CMD_OK.decode('utf-8')", "str(CMD_OK,'utf-8')"):
        return True
    if ctx is not None and fr is not None and isinstance(x, ast.Name) and _depth < 3:
        v = ctx.vals.resolve(fr, x)
        if v is not x:
            return is_ok_text(ctx, fr, v, _depth + 1)
        mv = ctx.vals.module_value(fr, x)
        if mv is not None:
            return is_ok_text(ctx, fr, mv, _depth + 1)
    return False


def reply_form(arg: ast.AST, var: Optional[str], aw: Optional[ast.AST], ctx: Optional[Ctx] = None, at: Optional[Node] = None, denotes=None) -> str:
    """form of the text written for the outcome: "str" | "ok-or-str" | "ok-always" | "other".  The outcome is the local `var` / the
    expression `aw`, or - with `at` and `denotes` - whatever denotes(at, x) says (values followed across spliced frames)."""
    def is_val(x: ast.AST) -> bool:
        if denotes is not None and at is not None:
            return denotes(at, x)
        return (var is not None and isinstance(x, ast.Name) and x.id == var) or (aw is not None and x is aw)

    def flag_value(x: ast.AST) -> Optional[bool]:
        """a flag parameter of the helper that writes, as this call site passes it (literal argument or literal default)"""
        neg = False
        while isinstance(x, ast.UnaryOp) and isinstance(x.op, ast.Not):
            x, neg = x.operand, not neg
        if isinstance(x, ast.Constant) and isinstance(x.value, bool):
            return x.value != neg
        if ctx is not None and at is not None and isinstance(x, ast.Name):
            _f, _e, leaf = ctx.vals.trace(at.func, at.env, x)
            if isinstance(leaf, ast.Constant) and isinstance(leaf.value, bool):
                return leaf.value != neg
        return None

    if isinstance(arg, ast.IfExp) and isinstance(arg.test, ast.BoolOp) and isinstance(arg.test.op, ast.And):
        # `ok if flag and value is None else str(value)`: read with the flag this call site passes
        vals = [(v, flag_value(v)) for v in arg.test.values]
        if any(fv is False for _v, fv in vals):
            return reply_form(arg.orelse, var, aw, ctx, at, denotes)
        rest = [v for v, fv in vals if fv is not True]
        if len(rest) == 1:
            return reply_form(ast.copy_location(ast.IfExp(test=rest[0], body=arg.body, orelse=arg.orelse), arg), var, aw, ctx, at, denotes)

    if ctx is not None and isinstance(arg, ast.Call) and id(arg) in ctx.an.spliced_at and len(arg.args) + len(arg.keywords) == 1:
        # self._format_output(value): a helper that only computes the text - judged by its single `return <expr>` over its parameter
        t = ctx.an.spliced_at[id(arg)]
        passed = arg.args[0] if arg.args else arg.keywords[0].value
        body = [st for st in t.node.body if not (isinstance(st, ast.Expr) and isinstance(st.value, ast.Constant))]
        params = [p_ for p_ in t.param_names() if p_ not in ("self", "cls")]
        if is_val(passed) and len(body) == 1 and isinstance(body[0], ast.Return) and body[0].value is not None and len(params) == 1:
            return reply_form(body[0].value, params[0], None, ctx)

    def is_str_of_val(x: ast.AST) -> bool:
        return isinstance(x, ast.Call) and isinstance(x.func, ast.Name) and x.func.id == "str" and len(x.args) == 1 and is_val(x.args[0])

    def is_ok(x: ast.AST) -> bool:
        return is_ok_text(ctx, at.func if at is not None else None, x)

    if is_str_of_val(arg):
        return "str"
    if isinstance(arg, ast.IfExp):
        t = arg.test
        if isinstance(t, ast.Compare) and len(t.ops) == 1 and is_val(t.left) and isinstance(t.comparators[0], ast.Constant) and t.comparators[0].value is None:
            if isinstance(t.ops[0], ast.Is) and is_ok(arg.body) and is_str_of_val(arg.orelse):
                return "ok-or-str"
            if isinstance(t.ops[0], ast.IsNot) and is_ok(arg.orelse) and is_str_of_val(arg.body):
                return "ok-or-str"
    if is_ok(arg):
        return "ok-always"
    return "other"


def r_return_or_exception(ctx: Ctx, rule: str):
    rep = ctx.rep
    rep.rule(rule, "return_or_exception: the function is called exactly once with *args, **kwargs, awaited under the iscoroutinefunction guard, "
                   "its value is returned, and an Exception it raises is returned - not raised")
    f = ctx.prog.func("internals.helpers.return_or_exception")
    g = ctx.an.cfg(f)
    fn = f.param_names()[0]
    va = f.node.args.vararg.arg if f.node.args.vararg else None
    kw = f.node.args.kwarg.arg if f.node.args.kwarg else None
    V = ctx.vals
    sc = ctx.an.scope(f)

    def is_root_param(n, e: ast.AST, pname: Optional[str]) -> bool:
        """e, evaluated at step n (possibly inside a helper spliced into f), is f's never re-bound parameter pname"""
        if pname is None:
            return False
        fr, env, leaf = V.trace(n.func, n.env, e)
        return fr is f and not env and V.is_param(f, leaf, pname)

    ucalls = ctx.nodes(f, lambda n: n.op == "call" and n.callee is not None and n.callee.kind == "user" and is_root_param(n, n.ast.func, fn))
    rep.floor(rule, "calls of the member", len(ctx.distinct_sites(ucalls)), 1)
    res = count_paths(ctx.an, f, lambda n: n in ucalls, interproc=False, started=True)
    for k, c in sorted(res.items(), key=str):
        rep.ob(rule, "the member is called exactly once", c == frozenset({1}), func=f, construct=f"exit {k[0]}", detail=str(sorted(c)))
    for u in ctx.distinct_sites(ucalls):
        c = u.ast
        fwd = len(c.args) == 1 and isinstance(c.args[0], ast.Starred) and is_root_param(u, c.args[0].value, va) and \
            len(c.keywords) == 1 and c.keywords[0].arg is None and is_root_param(u, c.keywords[0].value, kw)
        rep.ob(rule, "the member is called with exactly the converted arguments (*args, **kwargs)", fwd, node=u)

    def mentions(t: Node) -> bool:
        from types import SimpleNamespace
        e = t.ast
        inner = e.operand if isinstance(e, ast.UnaryOp) and isinstance(e.op, ast.Not) else e
        # also a flag: must_await = iscoroutinefunction(fn), possibly computed by a helper and handed back inside its result
        fr, env, leaf = V.trace(t.func, t.env, inner)
        at = SimpleNamespace(func=fr, env=env)
        return any(isinstance(c, ast.Call) and isinstance(c.func, ast.Name) and c.func.id == "iscoroutinefunction" and c.args and is_root_param(at, c.args[0], fn)
                   for c in ast.walk(leaf))

    tests = ctx.distinct_sites(ctx.nodes(f, lambda n: n.op == "test" and mentions(n)))
    rep.ob(rule, "coroutine functions are recognised", bool(tests), func=f, construct=tests[0] if tests else "(no iscoroutinefunction test)")

    def is_coro(a: Node, b: Node, lab: Label) -> bool:
        if lab[0] not in NORMAL_KINDS:
            return False
        if a.op == "test" and lab[0] in ("T", "F") and mentions(a):
            neg = isinstance(a.ast, ast.UnaryOp) and isinstance(a.ast.op, ast.Not)
            return (lab[0] == "T") != neg
        return True

    def value_leaves(n: Node, x_: ast.AST) -> List[ast.AST]:
        """what the expression may stand for, through locals, helper results and their components, and through `await`"""
        out: List[ast.AST] = []
        seen_ids: Set[int] = set()

        def flatten(fr, env, e_: ast.AST, depth: int = 0) -> None:
            for fr2, env2, x in V.leaves(fr, env, e_):
                if id(x) in seen_ids or depth > 6:
                    continue
                seen_ids.add(id(x))
                if isinstance(x, ast.Await):
                    flatten(fr2, env2, x.value, depth + 1)  # `output = await output`: what was awaited
                else:
                    out.append(x)
        flatten(n.func, n.env, x_)
        return out

    if tests:
        live = [u for u in ucalls if u in reach([g.entry], is_coro)]
        for u in ctx.distinct_sites(live):
            copies = [x for x in live if x.ast is u.ast]
            awaits = {m for m in g.nodes if m.op == "await" and any(x is u.ast for x in value_leaves(m, m.ast.value))}
            escaped = g.exit in reach(copies, is_coro, avoid=awaits)
            rep.ob(rule, "a coroutine method (gather-and-close, flush, until-closed) is awaited before replying", bool(awaits) and not escaped, node=u)
    # what is returned: the member's result (awaited or not), or - from the handler - the exception it raised
    excvars = {nm for nm, hows in sc.defs.items() if any(h[0] == "exc" for h in hows)}
    for r in ctx.distinct_sites(ctx.nodes(f, lambda n: n.op == "return")):
        v = r.ast.value
        leaves = value_leaves(r, v) if v is not None else []
        exc_leaves = [x for x in leaves if isinstance(x, ast.Name) and x.id in excvars]
        res_leaves = [x for x in leaves if x not in exc_leaves]
        in_handler = any(True for h in ctx.nodes(f, lambda n: n.op == "handler") if r in reach([h], lambda a, b, lab: lab[0] in NORMAL_KINDS))
        only_handler = in_handler and r not in reach([g.entry], lambda a, b, lab: lab[0] in NORMAL_KINDS)
        if exc_leaves or only_handler:
            rep.ob(rule, "the exception raised by the member is what is returned", bool(exc_leaves) and (not only_handler or not res_leaves), node=r)
        if res_leaves or not in_handler:
            ok = bool(res_leaves) and all(any(u.ast is x for u in ucalls) for x in res_leaves)
            rep.ob(rule, "the member's own result is returned", ok, node=r)
    # "an Exception it raises is returned - not raised" covers the call AND the await of a coroutine method: nothing but a
    # cancellation may leave return_or_exception by raising (else the command kills the session instead of being answered)
    escaping = [x for x in g.raise_exits.values() if x.pred and x.kind == "x"]
    rep.ob(rule, "every Exception of the member - raised by the call or while it is awaited - is returned, none escapes", not escaping, func=f,
           construct="raising exits (cancellation aside)", detail=", ".join(sorted({x.tok[0].rpartition(".")[2] for x in escaping})))
    hs = ctx.nodes(f, lambda n: n.op == "handler")
    ok = any(any(ctx.hier.canon(t) == EXCEPTION for t in h.types) for h in hs)
    rep.ob(rule, "Exception (and not BaseException / a narrower class) is what is converted into a reply", ok and all(all(ctx.hier.canon(t) == EXCEPTION for t in h.types) for h in hs),
           func=f, construct=hs[0] if hs else "(no handler)")


def conjuncts(e: ast.AST) -> List[ast.AST]:
    if isinstance(e, ast.BoolOp) and isinstance(e.op, ast.And):
        return [c for v in e.values for c in conjuncts(v)]
    return [e]


def dnf(ctx: Ctx, fr: FuncInfo, env, e: ast.AST, _depth: int = 0):
    """Disjunctive normal form of a condition as a set of conjunctions (sorted tuples of atom texts, `!` = negated), with
    locals/helper parameters resolved and calls of spliced boolean helpers expanded (`if c: return v` chains); None when the
    condition is not understood."""
    from ..cfg import bind_args

    e = strip_cast(e)
    if _depth > 6:
        return None
    if isinstance(e, ast.Constant):
        return {()} if e.value else set()
    if isinstance(e, ast.Call) and isinstance(e.func, ast.Name) and e.func.id == "bool" and len(e.args) == 1 and not e.keywords:
        return dnf(ctx, fr, env, e.args[0], _depth + 1)
    if isinstance(e, ast.BoolOp):
        parts = [dnf(ctx, fr, env, v, _depth + 1) for v in e.values]
        if any(p_ is None for p_ in parts):
            return None
        if isinstance(e.op, ast.Or):
            return set().union(*parts)
        out = {()}
        for p_ in parts:
            out = {tuple(sorted(set(a + b))) for a in out for b in p_}
        return out
    if isinstance(e, ast.UnaryOp) and isinstance(e.op, ast.Not):
        inner = dnf(ctx, fr, env, e.operand, _depth + 1)
        if inner is None:
            return None
        # negation of a disjunction of single atoms
        if all(len(c) == 1 for c in inner):
            return {tuple(sorted((a[1:] if a.startswith("!") else "!" + a) for (a,) in inner))} if inner else {()}
        return None
    if isinstance(e, ast.Name):
        r = ctx.vals.resolve(fr, e)
        if r is not e:
            return dnf(ctx, fr, env, r, _depth + 1)
    call = e.value if isinstance(e, ast.Await) else e
    call = strip_cast(call)
    if isinstance(call, ast.Call) and id(call) in ctx.an.spliced_at:
        t = ctx.an.spliced_at[id(call)]
        sub = bind_args(call, t, fr, env)
        out = set()
        pre = {()}
        body = [st for st in t.node.body if not (isinstance(st, ast.Expr) and isinstance(st.value, ast.Constant))]
        for st in body:
            if isinstance(st, ast.If) and not st.orelse and len(st.body) == 1 and isinstance(st.body[0], ast.Return):
                c_ = dnf(ctx, t, sub, st.test, _depth + 1)
                v_ = dnf(ctx, t, sub, st.body[0].value, _depth + 1) if st.body[0].value is not None else set()
                if c_ is None or v_ is None:
                    return None
                out |= {tuple(sorted(set(p_ + a + b))) for p_ in pre for a in c_ for b in v_}
                if not all(len(c) == 1 for c in c_):
                    return None
                neg = tuple(sorted((a[1:] if a.startswith("!") else "!" + a) for (a,) in c_))
                pre = {tuple(sorted(set(p_ + neg))) for p_ in pre}
            elif isinstance(st, ast.Return):
                v_ = dnf(ctx, t, sub, st.value, _depth + 1) if st.value is not None else set()
                if v_ is None:
                    return None
                out |= {tuple(sorted(set(p_ + b))) for p_ in pre for b in v_}
                break
            else:
                return None
        # absorption: A or (!A and B)  ==  A or B
        changed = True
        while changed:
            changed = False
            for c in list(out):
                for a in c:
                    if a.startswith("!") and (a[1:],) in out:
                        out.discard(c)
                        out.add(tuple(x for x in c if x != a))
                        changed = True
                        break
                if changed:
                    break
        return out
    return {(ctx.vals.canon_at(fr, env, e).replace(" ", ""),)}


def tests_matching(ctx: Ctx, f: FuncInfo, texts) -> List[Node]:
    """test steps of f (or of a helper spliced into it) one of whose conjuncts reads - with locals, module constants and
    helper parameters resolved - like one of `texts`"""
    out = []
    def bare(e: ast.AST) -> ast.AST:
        while isinstance(e, ast.UnaryOp) and isinstance(e.op, ast.Not):
            e = e.operand
        return e

    for t in ctx.nodes(f, lambda n: n.op == "test"):
        cs = conjuncts(t.ast) + conjuncts(bare(t.ast))
        if any(ctx.vals.canon_at(t.func, t.env, bare(c)).replace(" ", "") in texts for c in cs):
            out.append(t)
    return out


def negated(e: ast.AST) -> bool:
    n = False
    while isinstance(e, ast.UnaryOp) and isinstance(e.op, ast.Not):
        e, n = e.operand, not n
    return n


def only_when(ctx: Ctx, f: FuncInfo, tests: List[Node], target: Node) -> bool:
    """`target` runs only on paths on which one of the tests (given in their positive reading) held"""
    g = ctx.an.cfg(f)
    ts = set(tests)

    def ef(a: Node, b: Node, lab: Label) -> bool:
        if a in ts and lab[0] in ("T", "F"):
            holds = (lab[0] == "T") != negated(a.ast)
            return not holds
        return True

    return bool(tests) and target not in reach([g.entry], ef)


class DictDefault:
    def __init__(self, node: Node, key, value: ast.AST):
        self.node, self.key, self.value = node, key, value


def dict_defaults(ctx: Ctx, f: FuncInfo) -> Dict[object, DictDefault]:
    """`D.setdefault(K, V)` and its spelled-out form `if K not in D: D[K] = V`, by constant key K (all frames of f's CFG)"""
    out: Dict[object, DictDefault] = {}
    for n in ctx.distinct_sites(ctx.nodes(f, lambda n: n.op == "call" and isinstance(n.ast.func, ast.Attribute) and n.ast.func.attr == "setdefault" and len(n.ast.args) == 2
                                          and ctx.vals.const(n.func, n.ast.args[0]) is not None)):
        k_ = ctx.vals.const(n.func, n.ast.args[0]).value  # a literal, or a module-level constant (NAME = "name")
        out[k_] = DictDefault(n, k_, n.ast.args[1])
    for n in ctx.distinct_sites(ctx.nodes(f, lambda n: n.op == "assign" and isinstance(n.ast, ast.Assign) and len(n.ast.targets) == 1 and isinstance(n.ast.targets[0], ast.Subscript)
                                          and isinstance(n.ast.targets[0].slice, ast.Constant))):
        tgt = n.ast.targets[0]
        key, dtxt = tgt.slice.value, ast.unparse(tgt.value)
        # guarded by `K not in D` (as a conjunct of an enclosing if / elif in the same function)
        guarded = False
        for st in ast.walk(n.func.node):
            if isinstance(st, ast.If) and any(x is n.ast for b in st.body for x in ast.walk(b)):
                for c in conjuncts(st.test):
                    if isinstance(c, ast.Compare) and len(c.ops) == 1 and isinstance(c.ops[0], ast.NotIn) and isinstance(c.left, ast.Constant) and c.left.value == key \
                            and ast.unparse(c.comparators[0]) == dtxt:
                        guarded = True
        if guarded and key not in out:
            out[key] = DictDefault(n, key, n.ast.value)
    return out


def r_arg_mapping(ctx: Ctx, rule: str):
    rep = ctx.rep
    cp, sess = anchors(ctx)
    rep.rule(rule, "add_function_arg: no default -> positional; default -> --long-name (+ short flag); bool -> store_true; VAR_POSITIONAL -> "
                   "nargs='*'; otherwise default=parameter.default and a wrapped converter; plus the table check that every bool parameter "
                   "of a public pool method defaults to False (the only case store_true represents)")
    f = cp.methods.get("add_function_arg")
    if f is None:
        raise AnalysisError("anchor: ControlParser.add_function_arg missing")
    pp = f.param_names()[1]
    src = ast.unparse(f.node).replace(" ", "")
    g = ctx.an.cfg(f)
    V = ctx.vals
    t_def = tests_matching(ctx, f, (f"{pp}.defaultisParameter.empty", f"{pp}.default==Parameter.empty", f"{pp}.defaultisnotParameter.empty"))
    rep.ob(rule, "whether an argument is positional or an option is decided by the presence of a default", bool(t_def), func=f, construct=t_def[0] if t_def else "(no test of parameter.default)")
    t_bool = tests_matching(ctx, f, (f"{pp}.annotationisbool", f"{pp}.annotation==bool", f"{pp}.annotationin(bool,'bool')", f"{pp}.annotationin('bool',bool)"))
    rep.ob(rule, "boolean parameters become flags", bool(t_bool), func=f, construct=t_bool[0] if t_bool else "(no bool test)")
    t_var = tests_matching(ctx, f, (f"{pp}.kind==Parameter.VAR_POSITIONAL", f"{pp}.kindisParameter.VAR_POSITIONAL"))
    rep.ob(rule, "*args parameters accept any number of values", bool(t_var), func=f, construct=t_var[0] if t_var else "(no VAR_POSITIONAL test)")
    sets = dict_defaults(ctx, f)

    def val_txt(d: DictDefault) -> str:
        return V.canon_at(d.node.func, d.node.env, d.value).replace(" ", "")

    rep.ob(rule, "flags use action='store_true'", "action" in sets and val_txt(sets["action"]) == "'store_true'", func=f,
           construct=sets["action"].node if "action" in sets else "(no action)")
    rep.ob(rule, "options default to the method's own default value", "default" in sets and val_txt(sets["default"]) == f"{pp}.default", func=f,
           construct=sets["default"].node if "default" in sets else "(no default)")
    rep.ob(rule, "*args uses nargs='*'", "nargs" in sets and val_txt(sets["nargs"]) == "'*'", func=f,
           construct=sets["nargs"].node if "nargs" in sets else "(no nargs)")
    if t_bool and "action" in sets and "default" in sets:
        for cp_ in [x for x in g.nodes if x.ast is t_bool[0].ast and x.op == "test" and x.pred]:
            yes, no = ("F", "T") if negated(cp_.ast) else ("T", "F")
            tb = reach([s for s, lab in cp_.succ if lab[0] == yes], lambda a, b, lab: lab[0] in NORMAL_KINDS)
            rep.ob(rule, "store_true is chosen exactly for bool parameters and the default for all others",
                   any(m.ast is sets["action"].node.ast for m in tb) and any(m.ast is sets["default"].node.ast for m in reach([s for s, lab in cp_.succ if lab[0] == no], lambda a, b, lab: lab[0] in NORMAL_KINDS)), node=cp_)
    # long option name: '--' + <parameter name>.replace('_', '-'), in this function or in a helper it hands the name to
    def long_name_in(fr: FuncInfo, nm_txt: str) -> bool:
        t = ast.unparse(fr.node).replace(" ", "")
        return ("--{" + nm_txt + ".replace('_','-')}") in t or ("'--'+" + nm_txt + ".replace('_','-')") in t

    ok_long = long_name_in(f, pp + ".name")
    if not ok_long:
        # value-based: some string built in this function (or in a helper spliced into it) reads `--<parameter name with dashes>`
        want_hole = pp + ".name.replace('_','-')"

        def flat(fr, env, e: ast.AST) -> Optional[str]:
            if isinstance(e, ast.JoinedStr):
                out = ""
                for v in e.values:
                    if isinstance(v, ast.Constant):
                        out += str(v.value)
                    elif isinstance(v, ast.FormattedValue) and v.format_spec is None and v.conversion in (-1, 115):
                        out += "{" + V.canon_call(fr, env, v.value).replace(" ", "").replace('"', "'") + "}"
                    else:
                        return None
                return out
            if isinstance(e, ast.BinOp) and isinstance(e.op, ast.Add) and isinstance(e.left, ast.Constant) and isinstance(e.left.value, str):
                return e.left.value + "{" + V.canon_call(fr, env, e.right).replace(" ", "").replace('"', "'") + "}"
            return None

        for n_ in g.nodes:
            if n_.ast is None or not n_.pred:
                continue
            for x in ast.walk(n_.ast):
                if isinstance(x, (ast.JoinedStr, ast.BinOp)) and flat(n_.func, n_.env, x) == "--{" + want_hole + "}":
                    ok_long = True
    for c in ctx.distinct_sites(ctx.nodes(f, lambda n: n.inlined is not None and n.benv is not None and n.op == "call")):
        for pn, (caller, arg, cenv) in c.benv.items():
            if V.canon_at(caller, cenv, arg).replace(" ", "") == pp + ".name" and long_name_in(c.inlined, pn):
                ok_long = True
    rep.ob(rule, "option names are the parameter names with dashes", ok_long, func=f, construct="long option name")
    # positional name
    rep.ob(rule, "positional arguments are stored under the parameter's own name", positional_dest_ok(ctx, f, pp), func=f, construct="positional name")
    adds = ctx.distinct_sites(ctx.nodes(f, lambda n: n.op == "call" and isinstance(n.ast.func, ast.Attribute) and n.ast.func.attr == "add_argument"))
    rep.floor(rule, "add_argument call", len(adds), 1)
    # bool parameters of public pool methods default to False
    n_bool = 0
    for c in ctx.pool_classes:
        for name, m, params in public_members(ctx, c):
            for p, ann, default in params:
                if ann is not None and ast.unparse(ann) in ("bool",):
                    n_bool += 1
                    ok = isinstance(default, ast.Constant) and default.value is False
                    rep.ob(rule, "a bool parameter of a public pool method defaults to False (store_true cannot express another default)", ok, func=m, construct=f"{c.name}.{name}({p}: bool = {ast.unparse(default) if default is not None else '<required>'})")
    rep.floor(rule, "bool parameters of public pool methods", n_bool, 2)


def positional_dest_ok(ctx: Ctx, f: FuncInfo, pp: str) -> Optional[bool]:
    """argparse files a positional under the very string it was registered with (no dash/underscore translation as for options),
    and the session pops `param.name`: the one-element name list handed to add_argument must be `[<parameter>.name]`.
    Read off the values that reach `add_argument(*names, ...)`: every list display that may be unpacked there."""
    V = ctx.vals
    adds = ctx.nodes(f, lambda n: n.op == "call" and isinstance(n.ast.func, ast.Attribute) and n.ast.func.attr == "add_argument")
    singles: List[str] = []
    seen = False
    for a in adds:
        for x in a.ast.args:
            src_ = x.value if isinstance(x, ast.Starred) else None
            if src_ is None:
                if not (isinstance(x, ast.Constant) and isinstance(x.value, str) and x.value.startswith("-")) and not isinstance(x, ast.JoinedStr):
                    singles.append(V.canon_at(a.func, a.env, x).replace(" ", ""))
                    seen = True
                continue
            for fr, env, leaf in V.leaves_at(a, src_):
                if isinstance(leaf, ast.Call) and isinstance(leaf.func, ast.Name) and leaf.func.id == "list" and len(leaf.args) == 1:
                    continue  # built by a generator of option strings: options, not the positional form
                if not isinstance(leaf, (ast.List, ast.Tuple)):
                    return None
                seen = True
                if len(leaf.elts) == 1:
                    singles.append(V.canon_call(fr, env, leaf.elts[0]).replace(" ", "").replace('"', "'"))
    if not seen:
        return None
    names = [t for t in singles if not t.startswith(("'--", "f'--", "long"))]
    # the single-name forms: the positional one (must be the parameter's own name) and possibly `[long]` (an option string)
    own = [t for t in names if t == pp + ".name"]
    others = [t for t in names if t != pp + ".name" and "--" not in t]
    if not own:
        return False
    return not [t for t in others if (pp + ".name") in t]


def r_executable(ctx: Ctx, rule: str) -> None:
    """C16: a command that is listed can be executed - the namespace key the parser files a required argument under is the
    parameter name the session looks up (a mismatch is a KeyError in the session for every command with such a parameter)."""
    rep = ctx.rep
    cp, sess = anchors(ctx)
    rep.rule(rule, "EXECUTABLE: required parameters are registered under the parameter's own name (argparse keeps a positional's string as the "
                   "namespace key), which is the key ControlSession pops when it calls the method")
    f = cp.methods.get("add_function_arg")
    if f is None:
        raise AnalysisError("anchor: ControlParser.add_function_arg missing")
    pp = f.param_names()[1]
    rep.ob(rule, "positional arguments are stored under the parameter's own name", positional_dest_ok(ctx, f, pp), func=f, construct="positional name")
    m = sess.methods.get("_exec_method_and_respond")
    pops = [n for n in (ctx.nodes(m, lambda n: n.op == "call" and isinstance(n.ast.func, ast.Attribute) and n.ast.func.attr == "pop" and len(n.ast.args) == 1) if m else [])]
    rep.floor(rule, "look-ups of parsed arguments by parameter name in the session", len(ctx.distinct_sites(pops)), 1)
    for n in ctx.distinct_sites(pops):
        key = ctx.vals.canon_at(n.func, n.env, n.ast.args[0]).replace(" ", "")
        rep.ob(rule, "the session looks a parsed argument up under the parameter's name", key.endswith(".name"), node=n, detail=f"key {key}")


def r_total_indexing(ctx: Ctx, rule: str) -> None:
    """C16 'any pool can be served': building the command surface must not raise for any class - in particular not for a member
    with an empty docstring or a one-letter name.  Decided for the constant-index subscripts on that path: what is indexed is known
    to be long enough (`s.split(sep, ..)[0]`, `s.partition(sep)[k]`, `<identifier>[0]`), a violation where it is known that it
    may be empty (`s.splitlines()[0]`, `s.split()[0]` on a possibly blank string)."""
    rep = ctx.rep
    rep.rule(rule, "TOTAL-INDEXING: on the path that builds the commands (control.parser, internals.helpers.get_first_doc_line) a constant index "
                   "is applied only to sequences that cannot be too short")
    funcs = [f for f in ctx.prog.every_function() if f.module.name == PARSER_MOD or f.qual.endswith("helpers.get_first_doc_line")]
    n = 0
    for f in funcs:
        sc = ctx.an.scope(f)
        for x in sc._own_nodes():
            if not (isinstance(x, ast.Subscript) and isinstance(x.ctx, ast.Load)):
                continue
            idx = x.slice
            if isinstance(idx, ast.UnaryOp) and isinstance(idx.op, ast.USub) and isinstance(idx.operand, ast.Constant):
                k = -idx.operand.value if isinstance(idx.operand.value, int) else None
            elif isinstance(idx, ast.Constant) and isinstance(idx.value, int) and not isinstance(idx.value, bool):
                k = idx.value
            else:
                continue
            if k is None:
                continue
            n += 1
            recv = strip_cast(ctx.vals.resolve(f, x.value))
            verdict: object = "info"
            why = "receiver not classified"
            if isinstance(recv, ast.Call) and isinstance(recv.func, ast.Attribute):
                m = recv.func.attr
                if m in ("split", "rsplit"):
                    if recv.args or recv.keywords:
                        verdict, why = (k in (0, -1)) or "info", "str.split(sep, ...) never returns an empty list"
                    else:
                        verdict, why = False, "str.split() without a separator returns [] for a blank string"
                elif m in ("partition", "rpartition"):
                    verdict, why = -3 <= k <= 2, "str.partition returns a 3-tuple"
                elif m == "splitlines":
                    verdict, why = False, "str.splitlines() returns [] for an empty string (a member with an empty docstring)"
            elif isinstance(recv, ast.Attribute) and recv.attr in ("name", "__name__", "__qualname__"):
                verdict, why = k in (0, -1), "an identifier is never empty"
            elif isinstance(recv, (ast.Tuple, ast.List)) and not any(isinstance(e_, ast.Starred) for e_ in recv.elts):
                verdict, why = -len(recv.elts) <= k < len(recv.elts), "display of known length"
            rep.ob(rule, "a constant index is applied only to a sequence known to be long enough", verdict, func=f, construct=x, detail=why)
    if not any(f.qual.endswith("helpers.get_first_doc_line") for f in funcs):
        raise AnalysisError("anchor: internals.helpers.get_first_doc_line missing")
    rep.floor(rule, "functions scanned on the command-building path", len(funcs), 6)
    rep.ob(rule, "constant-index subscripts on the command-building path examined", True, construct=f"{n} subscripts in {len(funcs)} functions")


def r_session_local(ctx: Ctx, rule: str) -> None:
    """One server object serves every connection: what belongs to one connection (its session, reader, writer) lives in the locals of
    that connection's callback, never in an attribute of the server - the next connection would overwrite it while this one is
    suspended in its handshake, and this one would go on with the other client's session."""
    rep = ctx.rep
    srv = ctx.prog.cls("control.server.ControlServer")
    sess = ctx.prog.cls("control.session.ControlSession")
    rep.rule(rule, "SESSION-IS-LOCAL: in ControlServer._client_connected_cb the session whose handshake / listen is awaited is the ControlSession "
                   "constructed by this very call (held in a local), and the callback assigns no attribute of the shared server object")
    f = srv.methods.get("_client_connected_cb")
    if f is None:
        raise AnalysisError("anchor: ControlServer._client_connected_cb missing")
    g = ctx.an.cfg(f)
    uses = [n for n in g.nodes if n.pred and n.op == "await" and n.awaited is not None and n.awaited.kind == "pkg"
            and any(t.cls is sess for t in n.awaited.targets)]
    rep.floor(rule, "awaits of session coroutines in the connection callback", len(ctx.distinct_sites(uses)), 2)
    for n in ctx.distinct_sites(uses):
        call = strip_cast(n.ast.value)
        recv = call.func.value if isinstance(call, ast.Call) and isinstance(call.func, ast.Attribute) else None
        ok = None
        detail = ""
        if recv is not None:
            fr, env, leaf = ctx.vals.trace(n.func, n.env, recv)
            if isinstance(leaf, ast.Call) and ctx.an.scope(fr).callee(leaf).kind == "ctor" and ctx.an.scope(fr).callee(leaf).cls is sess:
                ok = isinstance(recv, ast.Name) or isinstance(strip_cast(recv), ast.Name)
            elif isinstance(leaf, ast.Attribute):
                ok = False
                detail = f"the session is read from `{ast.unparse(leaf)}` at the time of the call: another connection accepted meanwhile has replaced it"
        rep.ob(rule, "the session used is the one this connection constructed (a local of the callback)", ok, node=n, detail=detail)
    stores = [(n, e) for n in g.nodes if n.pred for e in ctx.eff.of_node(n) if e.kind in ("assign", "aug") and e.path.startswith("self.")]
    for n, e in stores:
        rep.ob(rule, "the connection callback assigns no attribute of the server (shared by all connections)", False, node=n,
               detail=f"{e.path} is re-bound for every connection")
    rep.ob(rule, "no per-connection attribute on the server object", not stores, func=f, construct="self.<attr> stores in _client_connected_cb: %d" % len(stores))


ACTION_FIELDS = ("type", "choices", "nargs", "const", "dest", "option_strings")


def r_conversion_sites(ctx: Ctx, rule: str) -> None:
    """C17: what reaches the method is each word converted by the converter of its own parameter - and by nothing else.
    argparse applies an action's `type` to every token the action consumes (for the sub-command action: to EVERY remaining word),
    so a converter installed anywhere but on the argument built from the parameter changes the arguments of every command."""
    rep = ctx.rep
    cp, sess = anchors(ctx)
    rep.rule(rule, "CONVERSION-SITES: in the control package a `type` converter is installed only by add_function_arg, as "
                   "_get_type_from_annotation(<parameter>.annotation) of the parameter the argument is built from; no argparse action is "
                   "re-configured after it was created (no store to .type/.choices/.nargs/.const/.dest/.option_strings)")
    f = cp.methods.get("add_function_arg")
    if f is None:
        raise AnalysisError("anchor: ControlParser.add_function_arg missing")
    pp = f.param_names()[1]
    inside: Dict[int, Node] = {}
    for n in ctx.an.cfg(f).nodes:
        if n.ast is not None:
            for x in ast.walk(n.ast):
                inside.setdefault(id(x), n)

    def type_sites(tree: ast.AST):
        """(node, value expression or None, how) for every place a `type` setting is written"""
        for x in ast.walk(tree):
            if isinstance(x, ast.Call):
                for k in x.keywords:
                    if k.arg == "type":
                        yield x, k.value, "keyword type="
                if isinstance(x.func, ast.Attribute) and x.func.attr in ("setdefault", "__setitem__") and len(x.args) == 2 \
                        and isinstance(x.args[0], ast.Constant) and x.args[0].value == "type":
                    yield x, x.args[1], f".{x.func.attr}('type', ...)"
                if isinstance(x.func, ast.Name) and x.func.id == "setattr" and len(x.args) == 3 and isinstance(x.args[1], ast.Constant) and x.args[1].value in ACTION_FIELDS:
                    yield x, x.args[2], f"setattr(.., {x.args[1].value!r}, ..)"
            elif isinstance(x, ast.Dict):
                for k, v in zip(x.keys, x.values):
                    if isinstance(k, ast.Constant) and k.value == "type":
                        yield x, v, "dictionary key 'type'"
            elif isinstance(x, (ast.Assign, ast.AugAssign, ast.AnnAssign)):
                tgts = x.targets if isinstance(x, ast.Assign) else [x.target]
                for t in tgts:
                    for y in ast.walk(t):
                        if isinstance(y, ast.Subscript) and isinstance(y.slice, ast.Constant) and y.slice.value == "type" and isinstance(y.ctx, ast.Store):
                            yield x, getattr(x, "value", None), "[\'type\'] = ..."
                        if isinstance(y, ast.Attribute) and y.attr in ACTION_FIELDS and isinstance(y.ctx, ast.Store):
                            yield x, getattr(x, "value", None), f"store to .{y.attr}"

    n_ok = 0
    mods = {cp.module.name, sess.module.name}
    for m in ctx.prog.modules.values():
        if m.name not in mods:
            continue
        for x, val, how in type_sites(m.tree):
            host = inside.get(id(x))
            fn = next((g for g in ctx.prog.all_functions() if g.module is m and any(y is x for y in ast.walk(g.node))), None)
            if how.startswith(("store to", "setattr")):
                rep.ob(rule, "no argparse action is re-configured after it was created", False, func=fn, construct=x,
                       detail=f"{how}: argparse applies an action's settings to every token that action consumes")
                continue
            if host is None:
                rep.ob(rule, "a converter is installed only for the argument built from a parameter (add_function_arg)", False, func=fn, construct=x, detail=how)
                continue
            txt = ctx.vals.canon_call(host.func, host.env, val).replace(" ", "") if val is not None else ""
            ok = txt == f"_get_type_from_annotation({pp}.annotation)"
            n_ok += ok
            rep.ob(rule, "the converter installed is the one derived from the parameter's own annotation", ok, node=host, construct=x, detail=f"{how}: {txt}")
    rep.floor(rule, "converter installation sites in add_function_arg", n_ok, 1)


ARGPARSE_DEFAULTS = {"fromfile_prefix_chars": None, "prefix_chars": "-", "argument_default": None, "conflict_handler": "error", "allow_abbrev": True,
                     "exit_on_error": True, "add_help": True}


def r_parser_config(ctx: Ctx, rule: str) -> None:
    """How a command line is read is argparse's default reading: no construction site, keyword dictionary or attribute store in the
    control package sets one of the options that change it (reading arguments from files, other prefix characters, a default for
    every argument, overriding duplicate options, abbreviations off, errors raised past `error()`, no -h, inherited arguments)."""
    rep = ctx.rep
    cp, sess = anchors(ctx)
    rep.rule(rule, "PARSER-CONFIG: in the control package none of fromfile_prefix_chars / prefix_chars / argument_default / conflict_handler / "
                   "allow_abbrev / exit_on_error / add_help / parents is given a value other than argparse's default - as a keyword, a "
                   "dictionary key handed on as keywords, or an attribute of a parser")
    names = set(ARGPARSE_DEFAULTS) | {"parents"}
    mods = {cp.module.name, sess.module.name}

    def default_valued(key: str, v: Optional[ast.AST]) -> bool:
        if key == "parents":
            return isinstance(v, (ast.List, ast.Tuple)) and not v.elts
        return isinstance(v, ast.Constant) and v.value == ARGPARSE_DEFAULTS[key] and type(v.value) is type(ARGPARSE_DEFAULTS[key])

    n_sites = 0
    for m in ctx.prog.modules.values():
        if m.name not in mods:
            continue
        n_sites += sum(1 for x in ast.walk(m.tree) if isinstance(x, ast.Call) and (x.keywords or any(isinstance(a, ast.Starred) for a in x.args)))
        for x in ast.walk(m.tree):
            found: List[Tuple[str, Optional[ast.AST], str]] = []
            if isinstance(x, ast.Call):
                found += [(k.arg, k.value, "keyword") for k in x.keywords if k.arg in names]
                if isinstance(x.func, ast.Attribute) and x.func.attr in ("setdefault", "__setitem__") and len(x.args) == 2 and isinstance(x.args[0], ast.Constant) and x.args[0].value in names:
                    found.append((x.args[0].value, x.args[1], "dictionary entry"))
                if isinstance(x.func, ast.Name) and x.func.id == "setattr" and len(x.args) == 3 and isinstance(x.args[1], ast.Constant) and x.args[1].value in names:
                    found.append((x.args[1].value, x.args[2], "setattr"))
            elif isinstance(x, ast.Dict):
                found += [(k.value, v, "dictionary key") for k, v in zip(x.keys, x.values) if isinstance(k, ast.Constant) and k.value in names]
            elif isinstance(x, (ast.Assign, ast.AnnAssign, ast.AugAssign)):
                for t in (x.targets if isinstance(x, ast.Assign) else [x.target]):
                    for y in ast.walk(t):
                        if isinstance(y, ast.Attribute) and y.attr in names and isinstance(y.ctx, ast.Store):
                            found.append((y.attr, getattr(x, "value", None), "attribute store"))
                        if isinstance(y, ast.Subscript) and isinstance(y.slice, ast.Constant) and y.slice.value in names and isinstance(y.ctx, ast.Store):
                            found.append((y.slice.value, getattr(x, "value", None), "dictionary entry"))
            for key, val, how in found:
                fn = next((g for g in ctx.prog.all_functions() if g.module is m and any(y is x for y in ast.walk(g.node))), None)
                rep.ob(rule, "the parsers read command lines the way argparse does by default", default_valued(key, val), func=fn, construct=x,
                       detail=f"{how} {key}={ast.unparse(val) if val is not None else '?'}")
    rep.floor(rule, "calls with keywords in the control parser / session modules (scanned)", n_sites, 10)
    rep.ob(rule, "no argparse reading option is changed anywhere in the control package", True, construct="(scan of control.parser and control.session)")
    # ... and the reading itself is argparse's: ControlParser overrides the four output / exit hatches, its constructor and
    # add_subparsers - no method that takes part in parsing (parse_args, parse_known_args, _parse_known_args, _get_values, ...)
    import argparse as _argparse
    allowed_overrides = {"__init__", "add_subparsers", "_print_message", "exit", "error", "print_help"}
    inherited = {nm_ for nm_ in cp.methods if hasattr(_argparse.ArgumentParser, nm_)}
    rep.floor(rule, "ArgumentParser methods overridden by ControlParser", len(inherited), 4)
    extra = sorted(inherited - allowed_overrides)
    rep.ob(rule, "ControlParser overrides no method of ArgumentParser that takes part in parsing (the words are read the way argparse reads them)",
           not extra, func=cp.methods[extra[0]] if extra else None, construct=f"overrides: {extra}" if extra else f"overrides: {sorted(inherited)}",
           detail="" if not extra else f"ControlParser.{extra[0]} replaces argparse's own: what a command line means is no longer what the rules about it assume")

def public_members(ctx: Ctx, c: ClassInfo):
    """(name, FuncInfo, [(param, annotation, default)]) for every public function/property of the class as getmembers + the '_' filter see it"""
    seen: Set[str] = set()
    out = []
    for k in ctx.prog.mro(c):
        for name, m in list(k.methods.items()):
            if name.startswith("_") or name in seen:
                continue
            seen.add(name)
            if m.kind in ("class",):
                continue
            if m.kind == "property":
                st = ctx.prog.lookup_setter(c, name)
                params = []
                if st is not None:
                    ps = st.params()[1:]
                    params = [(p.arg, p.annotation, None) for p in ps]
                out.append((name, st or m, params))
                continue
            ps = m.params()
            params = []
            for p in ps:
                if p.arg == "self":
                    continue
                params.append((p.arg, p.annotation, m.param_default(p.arg)))
            out.append((name, m, params))
    return out


# ---------------------------------------------------------------------- R16.x
def r_handshake(ctx: Ctx, rule: str):
    rep = ctx.rep
    cp, sess = anchors(ctx)
    rep.rule(rule, "client_handshake: reads one line, builds the parser with the session's buffer and the client's width, calls add_subparsers, "
                   "then add_class_commands(<run-time class of the pool>), then writes str(pool) + newline and drains - on every normal path")
    f = sess.methods.get("client_handshake")
    if f is None:
        raise AnalysisError("anchor: ControlSession.client_handshake missing")
    g = ctx.an.cfg(f)
    P = ctx.eff.paths(f)
    steps = {
        "read": ctx.nodes(f, lambda n: n.op == "await" and n.awaited is not None and n.awaited.name == "StreamReader.readline"),
        "json": ctx.nodes(f, lambda n: ctx.is_ext_call(n, "json.loads")),
        "ctor": ctx.nodes(f, lambda n: n.op == "call" and n.callee is not None and n.callee.kind == "ctor" and n.callee.cls is cp),
        "subparsers": ctx.nodes(f, lambda n: ctx.is_call_to(n, "add_subparsers")),
        "commands": ctx.nodes(f, lambda n: ctx.is_call_to(n, "add_class_commands")),
        "write": ctx.nodes(f, lambda n: any(e.kind == "write" and e.container == "StreamWriter" for e in ctx.eff.of_node(n))),
        "drain": ctx.nodes(f, lambda n: n.op == "await" and n.awaited is not None and n.awaited.name == "StreamWriter.drain"),
    }
    order = ["read", "json", "ctor", "subparsers", "commands", "write", "drain"]
    for k in order:
        rep.ob(rule, f"handshake step `{k}` is present", bool(steps[k]), func=f, construct=steps[k][0] if steps[k] else f"(missing {k})")
    for a, b in zip(order, order[1:]):
        if steps[a] and steps[b]:
            ok = all(dominated_by_completion(g, steps[a], x) for x in steps[b])
            rep.ob(rule, f"`{b}` happens only after `{a}` completed", ok, func=f, construct=steps[b][0])
    if steps["drain"]:
        rep.ob(rule, "a handshake that returns normally has sent the pool's name", dominated_by_completion(g, steps["drain"], g.exit), func=f, construct=steps["drain"][0])
    for c in ctx.distinct_sites(steps["commands"]):
        a = c.ast.args[0] if c.ast.args else None
        txt = ast.unparse(a).replace(" ", "") if a is not None else ""
        rep.ob(rule, "the commands are generated from the run-time class of the served pool (subclasses included)", txt in ("self._pool.__class__", "type(self._pool)"), node=c, detail=txt)
        extra = [k.arg for k in c.ast.keywords] + [1 for _ in c.ast.args[1:]]
        rep.ob(rule, "the session keeps add_class_commands' defaults (public members only, stored under CMD)", not extra, node=c, detail=str(extra))
        rep.ob(rule, "the commands are added to this session's parser", ctx.path_at(c, c.ast.func.value) == "self._parser", node=c)
    for w in ctx.distinct_sites(steps["write"]):
        a = w.ast.args[0] if w.ast.args else None
        txt = ctx.vals.canon_at(w.func, w.env, a).replace(" ", "") if a is not None else ""  # (through locals and helper parameters)
        ok = txt in ("str(self._pool).encode()+b'\\n'", "(str(self._pool)+'\\n').encode()", "f'{self._pool}\\n'.encode()")
        rep.ob(rule, "the reply to the handshake is the pool's name and a newline", ok, node=w, detail=txt)
    V = ctx.vals
    for c in ctx.distinct_sites(steps["ctor"]):
        width = next((k.value for k in c.ast.keywords if k.arg == "terminal_width"), None)
        if width is None:
            for k in c.ast.keywords:
                if k.arg is None:
                    d = V.resolve(c.func, k.value)
                    if isinstance(d, ast.Dict):
                        for kk, vv in zip(d.keys, d.values):
                            if kk is not None and ast.unparse(kk).replace(" ", "") in ("CLIENT_INFO.TERMINAL_WIDTH", "'terminal_width'"):
                                width = vv
        ok = False
        if width is not None:
            # followed through locals and through the parameters of helpers spliced into the handshake
            fr, fenv, width = V.trace(c.func, c.env, width)
            ok = isinstance(width, ast.Subscript)
            if ok:
                src = V.trace(fr, fenv, width.value)
                ok = isinstance(src[2], ast.Call) and ctx.an.scope(src[0]).callee(src[2]).name == "json.loads"
        rep.ob(rule, "the parser formats for the terminal width the client announced", ok, node=c, detail=ast.unparse(width) if width is not None else "")
        st = [n for n in ctx.nodes(f, lambda n: n.op == "assign" and any(e.path == "self._parser" for e in ctx.eff.of_node(n)))]
        rep.ob(rule, "the parser built is the one the session will use", any(getattr(n.ast, "value", None) is not None and V.resolve(n.func, n.ast.value) is c.ast for n in st), node=c)


def r_surface(ctx: Ctx, rule: str):
    rep = ctx.rep
    cp, sess = anchors(ctx)
    rep.rule(rule, "surface: add_class_commands enumerates getmembers(cls), skips names starting with '_' when public_only (default True), "
                   "dispatches functions and properties, names commands __name__.replace('_','-'), stores the member under CMD; help stays enabled")
    f = cp.methods.get("add_class_commands")
    if f is None:
        raise AnalysisError("anchor: ControlParser.add_class_commands missing")
    sc = ctx.an.scope(f)
    g = ctx.an.cfg(f)
    from ..cfg import bind_args

    loops = [n for n in ast.walk(f.node) if isinstance(n, ast.For)]
    GM = ("getmembers(cls)", "inspect.getmembers(cls)")
    lp = next((l for l in loops if ast.unparse(l.iter).replace(" ", "") in GM), None)
    src_lp, src_fn, src_env = lp, f, None  # the loop over getmembers: here, or in a generator function this loop draws from
    if lp is None:
        for l in loops:
            cal = sc.callee(l.iter) if isinstance(l.iter, ast.Call) else None
            if cal is not None and cal.kind == "pkg" and len(cal.targets) == 1 and any(isinstance(x, (ast.Yield, ast.YieldFrom)) for x in ast.walk(cal.targets[0].node)):
                gfn = cal.targets[0]
                genv = bind_args(l.iter, gfn, f, None)
                for gl in [x for x in ast.walk(gfn.node) if isinstance(x, ast.For)]:
                    if ctx.vals.canon_at(gfn, genv, gl.iter).replace(" ", "") in GM:
                        ys = [y for y in ast.walk(gl) if isinstance(y, ast.Yield)]
                        # it yields exactly the (name, member) pairs it iterates over
                        if ys and all(y.value is not None and ast.unparse(y.value) == ast.unparse(gl.target) or
                                      (isinstance(y.value, ast.Tuple) and isinstance(gl.target, ast.Tuple) and [ast.unparse(e) for e in y.value.elts] == [ast.unparse(e) for e in gl.target.elts])
                                      for y in ys):
                            lp, src_lp, src_fn, src_env = l, gl, gfn, genv
    rep.ob(rule, "every member of the class is considered (getmembers)", lp is not None, func=f, construct=loops[0] if loops else "(no loop)")
    if lp is not None:
        early = [n for n in ast.walk(lp) if isinstance(n, (ast.Break, ast.Return))] + ([n for n in ast.walk(src_lp) if isinstance(n, (ast.Break, ast.Return))] if src_lp is not lp else [])
        rep.ob(rule, "the enumeration does not stop early (a member that is neither a function nor a property is skipped, not the rest of the class)", not early, func=f,
               construct=early[0] if early else "no break/return in the members loop")
    d = f.param_default("public_only")
    rep.ob(rule, "public_only defaults to True", isinstance(d, ast.Constant) and d.value is True, func=f, construct=f"public_only={ast.unparse(d) if d is not None else None}")
    d = f.param_default("member_arg_name")
    rep.ob(rule, "the member is stored under the CMD key the session pops", d is not None and ast.unparse(d) == "CMD", func=f, construct=f"member_arg_name={ast.unparse(d) if d is not None else None}")
    d = f.param_default("omit_members")
    rep.ob(rule, "no member is omitted by default", d is not None and ast.unparse(d) in ("()", "[]", "set()", "frozenset()"), func=f, construct=f"omit_members={ast.unparse(d) if d is not None else None}")
    if lp is not None and isinstance(lp.target, ast.Tuple) and len(lp.target.elts) == 2:
        nv, mv = lp.target.elts[0].id, lp.target.elts[1].id
        snv = src_lp.target.elts[0].id if isinstance(src_lp.target, ast.Tuple) and src_lp.target.elts and isinstance(src_lp.target.elts[0], ast.Name) else nv
        # the skip conditions of the members loop: one `if A or (B and C): continue` or several `if ...: continue` in a row
        skip = [n for n in src_lp.body if isinstance(n, ast.If) and not n.orelse and n.body and isinstance(n.body[-1], ast.Continue) and len(n.body) == 1]

        def only_other_kinds(s_: ast.If) -> bool:
            """this `continue` is reached only for a member that is neither a function nor a property (e.g. `if subparser is None:
            continue` after a helper that returns None for such a member): no function / property is hidden by it"""
            cn = [n for n in g.nodes if n.op == "continue" and n.ast is s_.body[-1]]
            if not cn or src_fn is not f:
                return False
            kinds = [t for t in ctx.nodes(f, lambda n: n.op == "test") if ast.unparse(t.ast).replace(" ", "") in (f"isfunction({mv})", f"inspect.isfunction({mv})", f"isinstance({mv},property)")
                     or (t.env and any(ctx.vals.canon_at(t.func, t.env, t.ast).replace(" ", "") == k_ for k_ in (f"isfunction({mv})", f"isinstance({mv},property)")))]
            if len({ast.unparse(t.ast) for t in kinds}) < 2:
                return False
            heads = {n for n in g.nodes if n.op == "iter" and n.ast is lp}
            # within one iteration: the continue cannot be reached after a kind test came out true, and is reachable at all
            via_true = reach([b for t in kinds for b, lab in t.succ if lab[0] == "T"], avoid=heads)
            bypass = reach([b for h in heads for b, lab in h.succ if lab[0] == "T"], avoid=heads | set(kinds))  # reached without any kind test
            return not any(c in via_true for c in cn) and not any(c in bypass for c in cn) and any(c in reach([g.entry]) for c in cn)

        skip = [s_ for s_ in skip if not only_other_kinds(s_)]
        conds = set()
        for s_ in skip:
            d_ = dnf(ctx, src_fn, src_env, s_.test)
            conds |= d_ if d_ is not None else {("?" + ast.unparse(s_.test),)}
        want = {(f"{snv}inomit_members",), tuple(sorted([f"{snv}.startswith('_')", "public_only"]))}
        ok = conds == want
        rep.ob(rule, "exactly the members whose name starts with '_' are hidden (when public_only) besides explicit omissions", ok, func=f, construct=skip[0].test if skip else "(no skip test)",
               detail=str(sorted(conds)))
        fc = ctx.distinct_sites(ctx.nodes(f, lambda n: ctx.is_call_to(n, "add_function_command")))
        pc = ctx.distinct_sites(ctx.nodes(f, lambda n: ctx.is_call_to(n, "add_property_command")))
        for c in fc:
            tests = tests_matching(ctx, f, (f"isfunction({mv})", f"inspect.isfunction({mv})"))
            ok = only_when(ctx, f, tests, c) and isinstance(c.ast.args[0], ast.Name) and c.ast.args[0].id == mv
            rep.ob(rule, "plain functions (methods) become function commands", ok, node=c)
        for c in pc:
            tests = tests_matching(ctx, f, (f"isinstance({mv},property)",))
            ok = only_when(ctx, f, tests, c) and isinstance(c.ast.args[0], ast.Name) and c.ast.args[0].id == mv
            rep.ob(rule, "properties become property commands", ok, node=c)
        rep.ob(rule, "public methods of the pool class are turned into commands", bool(fc), func=f, construct=fc[0] if fc else "(add_function_command is never called)")
        rep.ob(rule, "public properties of the pool class are turned into commands", bool(pc), func=f, construct=pc[0] if pc else "(add_property_command is never called)")
        sd = ctx.distinct_sites(ctx.nodes(f, lambda n: n.op == "call" and isinstance(n.ast.func, ast.Attribute) and n.ast.func.attr == "set_defaults"))
        for s in sd:
            t = ast.unparse(s.ast).replace(" ", "")
            ok = t.endswith(f".set_defaults(**{{member_arg_name:{mv}}})") or (
                not s.ast.args and len(s.ast.keywords) == 1 and s.ast.keywords[0].arg is None
                and ctx.vals.canon(f, s.ast.keywords[0].value).replace(" ", "") == f"{{member_arg_name:{mv}}}")
            rep.ob(rule, "the parsed namespace carries the member itself under the command key", ok, node=s)
            # reached for both kinds
            for c in fc + pc:
                rep.ob(rule, "every command created stores its member", s in reach([c], lambda a, b, lab: lab[0] in NORMAL_KINDS) and s.loops and s.loops[-1] is lp, node=c)
        rep.floor(rule, "set_defaults call", len(sd), 1)
    for nm, attr in (("add_function_command", "function.__name__.replace('_','-')"), ("add_property_command", "prop.fget.__name__.replace('_','-')")):
        m = cp.methods.get(nm)
        if m is None:
            continue
        dd = dict_defaults(ctx, m)
        ok = "name" in dd and ctx.vals.canon_call(dd["name"].node.func, dd["name"].node.env, dd["name"].value).replace(" ", "") == attr
        rep.ob(rule, f"{nm} names the command after the member with underscores as dashes", ok, func=m, construct="command name")
        # "-h/--help describing it": the command's own help page carries a description, and the listing a help line (both default to
        # the member's documentation unless the caller supplied them)
        for key_ in ("help", "description"):
            rep.ob(rule, f"{nm} gives the command a default `{key_}` text", key_ in dd, func=m, construct=f"default for {key_!r}",
                   detail="" if key_ in dd else f"no default for {key_!r}: `<command> -h` / the command list would say nothing about what the command does")
    # help stays enabled
    bad = []
    for fn in ctx.prog.every_function():
        if fn.module.name in (PARSER_MOD, SESSION_MOD):
            for node in ctx.an.scope(fn)._own_nodes():
                if isinstance(node, ast.keyword) and node.arg == "add_help" and isinstance(node.value, ast.Constant) and node.value.value is False:
                    bad.append((fn, node))
                if isinstance(node, ast.Dict):
                    for kk, vv in zip(node.keys, node.values):
                        if isinstance(kk, ast.Constant) and kk.value == "add_help" and isinstance(vv, ast.Constant) and vv.value is False:
                            bad.append((fn, node))
                if isinstance(node, ast.Call) and isinstance(node.func, ast.Attribute) and node.func.attr == "setdefault" and node.args and isinstance(node.args[0], ast.Constant) and node.args[0].value == "add_help":
                    bad.append((fn, node))
    rep.ob(rule, "-h/--help stays enabled on the main parser and every command", not bad, construct=bad[0][1] if bad else "no add_help=False", func=bad[0][0] if bad else None)
    # the session pops the same key
    pf = sess.methods.get("_parse_command")
    if pf is not None:
        pops = [n for n in ast.walk(pf.node) if isinstance(n, ast.Call) and isinstance(n.func, ast.Attribute) and n.func.attr == "pop" and n.args and ast.unparse(n.args[0]) == "CMD"]
        rep.ob(rule, "the session takes the member from the CMD key", bool(pops), func=pf, construct=pops[0] if pops else "(no pop(CMD))")


def r_annotation_kinds(ctx: Ctx, rule: str):
    rep = ctx.rep
    cp, sess = anchors(ctx)
    rep.rule(rule, "TABLE(annotations == converter): for every public member of every pool class (enumerated through the MRO as getmembers + the "
                   "'_' filter see it) and every parameter, the kind of object Parameter.annotation is at run time (a str when the defining "
                   "module postpones annotations and signature() is called without eval_str / get_type_hints) must be in the domain of "
                   "add_function_arg / _get_type_from_annotation / _get_arg_type_wrapper (identity with bool, callability, .__name__)")
    # consumer side
    consumer_ops: List[Tuple[FuncInfo, ast.AST, str]] = []
    gw = ctx.prog.functions.get(f"{PARSER_MOD}._get_arg_type_wrapper")
    gt = ctx.prog.functions.get(f"{PARSER_MOD}._get_type_from_annotation")
    afa = cp.methods.get("add_function_arg")
    if gw is None or gt is None or afa is None:
        raise AnalysisError("anchor: parser converter functions missing")
    cls_param = gw.param_names()[0]
    for node in ast.walk(gw.node):
        if isinstance(node, ast.Attribute) and node.attr == "__name__" and isinstance(node.value, ast.Name) and node.value.id == cls_param:
            consumer_ops.append((gw, node, "needs .__name__"))
        if isinstance(node, ast.Call) and isinstance(node.func, ast.Name) and node.func.id == cls_param:
            consumer_ops.append((gw, node, "is called as a converter"))
    resolves = False
    for fn in [x for x in ctx.prog.every_function() if x.module.name == PARSER_MOD]:
        for node in ast.walk(fn.node):
            if isinstance(node, ast.Call):
                nm = ast.unparse(node.func)
                if nm.endswith("get_type_hints"):
                    resolves = True
                if nm.endswith("signature") and any(k.arg == "eval_str" and isinstance(k.value, ast.Constant) and k.value.value is True for k in node.keywords):
                    resolves = True
    str_handling = any(isinstance(n, ast.Call) and isinstance(n.func, ast.Name) and n.func.id == "isinstance" and len(n.args) == 2 and ast.unparse(n.args[1]) == "str"
                       for n in ast.walk(gt.node)) or any(isinstance(n, ast.Call) and isinstance(n.func, ast.Name) and n.func.id == "isinstance" and len(n.args) == 2 and ast.unparse(n.args[1]) == "str"
                                                          for n in ast.walk(gw.node))
    # producer side
    affected: List[str] = []
    total = 0
    for c in ctx.pool_classes:
        if c is ctx.base:
            continue
        for name, m, params in public_members(ctx, c):
            for p, ann, default in params:
                total += 1
                if m.module.future_annotations:
                    affected.append(f"{c.name}.{name}({p}: {ast.unparse(ann) if ann is not None else '?'})")
    rep.floor(rule, "parameters of public pool members", total, 20)
    rep.analysed["annotation_table"] = {"parameters": total, "string_annotations": len(affected), "consumer_resolves_strings": resolves, "sample": affected[:8]}
    for fn, node, what in consumer_ops[:1] if consumer_ops else []:
        ok = not affected or resolves or str_handling
        verdict = True if ok and (resolves or not affected) else (None if ok else False)
        rep.ob(rule, "the annotation objects the parser receives support what it does with them", verdict, func=fn, construct="wrapper.__name__ = cls.__name__" if what == "needs .__name__" else node,
               detail="" if ok else f"{len(affected)} of {total} parameters of public pool members have string annotations at run time (pool.py has `from __future__ import annotations` "
                                    f"and signature() is called without eval_str): e.g. {affected[:3]}; the converter {what}, which a str does not have, so add_class_commands raises "
                                    "AttributeError for both pool classes and every handshake fails")
    if not consumer_ops:
        rep.ob(rule, "the annotation objects the parser receives support what it does with them", None, func=gw, construct="(consumer operations not found)")
    # an annotation may be ANY object a pool subclass chose (typing.Annotated[...] with unhashable metadata, objects with their own __eq__):
    # the parser may look at it by identity, pass it on, call it, print it - but not hash it or compare it by value
    def _ann_uses(fn: FuncInfo, is_ann) -> List[Tuple[ast.AST, str]]:
        out: List[Tuple[ast.AST, str]] = []
        for node in ast.walk(fn.node):
            if isinstance(node, ast.Compare):
                operands = [node.left] + list(node.comparators)
                for i, op in enumerate(node.ops):
                    a_, b_ = operands[i], operands[i + 1]
                    if isinstance(op, (ast.Eq, ast.NotEq)) and (is_ann(a_) or is_ann(b_)):
                        out.append((node, "is compared by value (==)"))
                    if isinstance(op, (ast.In, ast.NotIn)) and is_ann(a_):
                        out.append((node, "is searched for with `in` (hash / ==)"))
            if isinstance(node, ast.Subscript) and is_ann(node.slice) and not (isinstance(node.value, ast.Name) and node.value.id in ("Iterable", "Type", "Optional")):
                out.append((node, "is used as a key (hash)"))
            if isinstance(node, ast.Call) and isinstance(node.func, ast.Attribute) and node.func.attr in ("get", "pop", "setdefault", "index", "count", "add", "__contains__", "__getitem__") \
                    and node.args and is_ann(node.args[0]):
                out.append((node, f"is looked up with .{node.func.attr}() (hash / ==)"))
            if isinstance(node, ast.Call) and isinstance(node.func, ast.Name) and node.func.id == "hash" and node.args and is_ann(node.args[0]):
                out.append((node, "is hashed"))
            if isinstance(node, (ast.Set, ast.Dict)):
                elts = node.elts if isinstance(node, ast.Set) else [k for k in node.keys if k is not None]
                if any(is_ann(e_) for e_ in elts):
                    out.append((node, "is put into a set / used as a dict key (hash)"))
        return out

    gt_param = gt.param_names()[0]
    gt_aliases = {gt_param} | {t_.id for st_ in ast.walk(gt.node) if isinstance(st_, ast.Assign) and isinstance(st_.value, ast.Name) and st_.value.id == gt_param
                               for t_ in st_.targets if isinstance(t_, ast.Name)}
    bad_uses = _ann_uses(gt, lambda e_: isinstance(e_, ast.Name) and e_.id in gt_aliases) + \
        _ann_uses(afa, lambda e_: isinstance(e_, ast.Attribute) and e_.attr == "annotation")
    rep.ob(rule, "an annotation object is only looked at by identity (`is`), passed on, called or printed - never hashed or compared by value "
                 "(a pool subclass may annotate with unhashable objects, e.g. Annotated[int, <a dataclass instance>])", not bad_uses,
           func=gt, construct=bad_uses[0][0] if bad_uses else "annotation uses: identity tests only",
           detail="" if not bad_uses else f"the annotation {bad_uses[0][1]}: for such an annotation the command cannot be registered and the handshake of that pool class fails")
    # the `is bool` identity needs the class object as well
    for t in [n for n in ast.walk(afa.node) if isinstance(n, ast.Compare) and ast.unparse(n).replace(" ", "").endswith(".annotationisbool")]:
        ok = not affected or resolves
        rep.ob(rule, "`annotation is bool` can recognise bool parameters", True if ok else False, func=afa, construct=t,
               detail="" if ok else "with string annotations `'bool' is bool` is False: flags would be registered as value options")


def r_ok_constant(ctx: Ctx, rule: str) -> None:
    """The reply for a call that returned None is the text 'ok': the constant the session writes (CMD_OK) is bound once, to b"ok", and
    every module that uses it imports that very constant."""
    rep = ctx.rep
    rep.rule(rule, "OK-CONSTANT: CMD_OK is the bytes literal b'ok', bound exactly once in internals.constants, and the session's CMD_OK is that constant")
    mods = [m for m in ctx.prog.modules.values() if m.name.endswith("internals.constants") or m.name == "internals.constants"]
    if not mods:
        raise AnalysisError("anchor: internals.constants missing")
    m = mods[0]
    v = m.assigns.get("CMD_OK")
    n_bind = sum(1 for x in ast.walk(m.tree) if isinstance(x, ast.Name) and x.id == "CMD_OK" and not isinstance(x.ctx, ast.Load))
    rep.ob(rule, "CMD_OK is b'ok'", isinstance(v, ast.Constant) and v.value == b"ok" and n_bind == 1, construct="internals.constants: CMD_OK",
           detail=(ast.unparse(v) if v is not None else "(not assigned)") + f", bound {n_bind} time(s)")
    # nobody re-binds it from outside, and the session does not shadow it
    others = []
    for m2 in ctx.prog.modules.values():
        for x in ast.walk(m2.tree):
            if m2 is not m and isinstance(x, ast.Name) and x.id == "CMD_OK" and not isinstance(x.ctx, ast.Load):
                others.append(f"{m2.relpath}:{x.lineno}")
            if isinstance(x, ast.Attribute) and x.attr == "CMD_OK" and not isinstance(x.ctx, ast.Load):
                others.append(f"{m2.relpath}:{x.lineno}")
    rep.ob(rule, "CMD_OK is not re-bound or shadowed anywhere else in the package", not others, construct="CMD_OK", detail=", ".join(others))
    # every module that reads the name has it from internals.constants (the session itself, or the helper module its reply is built in)
    users = []
    for m2 in ctx.prog.modules.values():
        if m2 is m or not any(isinstance(x, ast.Name) and x.id == "CMD_OK" and isinstance(x.ctx, ast.Load) for x in ast.walk(m2.tree)):
            continue
        imp = m2.imports.get("CMD_OK")
        users.append(m2.name)
        rep.ob(rule, "a module that uses CMD_OK has it from internals.constants", imp is not None and imp.endswith("internals.constants.CMD_OK"), construct=f"{m2.name}: CMD_OK", detail=str(imp))
    rep.floor(rule, "modules using CMD_OK", len(users), 1)


def r_omitted_params(ctx: Ctx, rule: str) -> None:
    """The one parameter the session fills in itself (`self` <- the pool) is the one parameter the parser leaves out of a command's
    arguments - no more, no less: an extra `self` argument would be demanded from the client and then passed twice."""
    rep = ctx.rep
    cp, sess = anchors(ctx)
    rep.rule(rule, "OMIT-SELF: add_function_command / add_function_args omit exactly the parameter named 'self' by default, add_class_commands does not override "
                   "that, and _exec_method_and_respond supplies the pool for exactly that name")
    V = ctx.vals

    def names_of(f: FuncInfo, d: Optional[ast.AST]) -> Optional[Set[str]]:
        if d is None:
            return None
        if isinstance(d, ast.Name):
            mv = V.module_value(f, d)
            d = mv if mv is not None else d
        if isinstance(d, (ast.Tuple, ast.List, ast.Set)) and all(isinstance(x, ast.Constant) and isinstance(x.value, str) for x in d.elts):
            return {x.value for x in d.elts}
        if isinstance(d, ast.Call) and isinstance(d.func, ast.Name) and d.func.id in ("frozenset", "set", "tuple", "list") and len(d.args) == 1:
            return names_of(f, d.args[0])
        return None

    for nm, pname in (("add_function_command", "omit_params"), ("add_function_args", "omit")):
        f = cp.methods.get(nm)
        if f is None:
            raise AnalysisError(f"anchor: ControlParser.{nm} missing")
        got = names_of(f, f.param_default(pname)) if pname in f.param_names() else None
        rep.ob(rule, f"{nm} leaves out exactly the parameter named 'self' by default", got == {"self"}, func=f, construct=f"{nm}: default of `{pname}`",
               detail=str(sorted(got)) if got is not None else "default not understood")
    acc = cp.methods.get("add_class_commands")
    for c in ctx.distinct_sites(ctx.nodes(acc, lambda n: ctx.is_call_to(n, "add_function_command"))) if acc is not None else []:
        call_ = ctx.an.partial_syn.get((id(c.ast), id(c.env)), c.ast)
        over = ctx.call_arg(call_, c.callee.targets[0], "omit_params")
        rep.ob(rule, "add_class_commands keeps the default set of omitted parameters", over is None or names_of(c.func, over) == {"self"}, node=c)
    f = sess.methods.get("_exec_method_and_respond")
    def _name_test(t) -> Optional[str]:
        """`<x>.name == <text>` (either way round; the text a literal or a module-level string constant) -> the text"""
        e = t.ast
        if not (isinstance(e, ast.Compare) and len(e.ops) == 1 and isinstance(e.ops[0], ast.Eq)):
            return None
        a, b = e.left, e.comparators[0]
        for x, y in ((a, b), (b, a)):
            if isinstance(x, ast.Attribute) and x.attr == "name":
                c = V.const(t.func, y)
                if c is not None and isinstance(c.value, str):
                    return c.value
        return None

    tests = [t for t in ctx.nodes(f, lambda n: n.op == "test") if _name_test(t) is not None]
    names = {_name_test(t) for t in tests}
    rep.ob(rule, "the session supplies the pool for the parameter named 'self' (the name the parser omits)", names == {"self"}, func=f,
           construct=tests[0] if tests else "(no test of the parameter name)", detail=str(sorted(names)))


def r_wire_codec(ctx: Ctx, rule: str) -> None:
    """WIRE-CODEC.  The client sends `cmd.encode()` and prints `reply.decode()` (UTF-8, strict); the session must read and write the same
    codec - a command line decoded as anything else reaches the pool method with different string arguments than the method call the
    client meant (group names, cancel messages, strings inside literals).  Every `bytes.decode` / `str.encode` in the control package
    uses the default codec (no argument, or the constant 'utf-8') and the default error handling."""
    rep = ctx.rep
    rep.rule(rule, "WIRE-CODEC: every .decode() / .encode() of the control package uses UTF-8 with strict error handling (the default), on both "
                   "sides of the wire: what the session parses is the text the client typed")
    sites = []
    for m in ctx.prog.modules.values():
        if not (m.name.startswith("control") or m.name in ("internals.helpers",)):
            continue
        for fn in [x for x in ctx.prog.every_function() if x.module is m]:
            for node in ctx.an.scope(fn)._own_nodes():
                if isinstance(node, ast.Call) and isinstance(node.func, ast.Attribute) and node.func.attr in ("decode", "encode"):
                    sites.append((fn, node))
    rep.floor(rule, "decode / encode calls in the control package", len(sites), 6)
    for fn, node in sites:
        enc = node.args[0] if node.args else next((k.value for k in node.keywords if k.arg == "encoding"), None)
        if enc is not None and not isinstance(enc, ast.Constant):
            enc = ctx.vals.const(fn, enc) or enc
        enc_ok = enc is None or (isinstance(enc, ast.Constant) and isinstance(enc.value, str) and enc.value.lower().replace("_", "-") in ("utf-8", "utf8"))
        err = node.args[1] if len(node.args) > 1 else next((k.value for k in node.keywords if k.arg == "errors"), None)
        err_ok = err is None or (isinstance(err, ast.Constant) and err.value == "strict")
        rep.ob(rule, "the wire text is UTF-8, decoded / encoded strictly", enc_ok and err_ok and len(node.args) <= 2, func=fn, construct=node,
               detail="" if enc_ok and err_ok else "another codec or error handler on one side of the wire changes the string arguments the pool method receives")


def r_dispatch_names(ctx: Ctx, rule: str) -> None:
    """DISPATCH-NAMES.  The session hands the parsed arguments on as `**kwargs` whose keys are the parameter names of the pool member
    (`func`, `args`, `num`, `group_name`, `msg`, ...).  A function of the package that receives such a `**kwargs` next to parameters of
    its own that can be passed by keyword must not share a name with any parameter of any public pool member: the call would fail
    with "got multiple values for argument" outside return_or_exception - no reply, the session dies.  (This is why
    return_or_exception calls its first parameter `_function_to_execute`.)"""
    rep = ctx.rep
    cp, sess = anchors(ctx)
    rep.rule(rule, "DISPATCH-NAMES: no function of the package that the session calls with the parsed arguments as **kwargs has a keyword-capable "
                   "parameter named like a parameter of a public pool member")
    pool_names: Set[str] = set()
    for c in ctx.pool_classes:
        for _name, _m, params in public_members(ctx, c):
            pool_names |= {p for p, _a, _d in params}
    rep.floor(rule, "parameter names of public pool members", len(pool_names), 12)
    seen_sites = set()
    for fn in [x for x in ctx.prog.all_functions() if x.module.name == SESSION_MOD]:
        # (on the flow graph: the callee of `executor(command, **kwargs)` may be known only through what a helper returned)
        for n in ctx.nodes(fn, lambda n: n.op == "call" and isinstance(n.ast, ast.Call) and any(k.arg is None for k in n.ast.keywords)):
            cal = n.callee
            if cal is None or cal.kind != "pkg":
                continue
            for t in cal.targets:
                key = (id(n.ast), t.qual)
                if key in seen_sites:
                    continue
                seen_sites.add(key)
                a = t.node.args
                named = [x.arg for x in a.args] + [x.arg for x in a.kwonlyargs]
                if t.kind in ("method", "property", "setter", "class") and named and named[0] in ("self", "cls"):
                    named = named[1:]
                clash = sorted(set(named) & pool_names)
                rep.ob(rule, f"{t.name} can take the parsed arguments as **kwargs without a name clash", not clash, node=n,
                       detail="" if not clash else f"{t.name} has its own parameter(s) {clash}: a command whose member has a parameter of that name raises "
                                                   "TypeError (multiple values) at this call, outside return_or_exception - the line gets no reply")
    sites = len(seen_sites)
    rep.floor(rule, "calls in session.py that forward **kwargs to a function of the package", sites, 3)


def r_dispatch_kind(ctx: Ctx, rule: str) -> None:
    """DISPATCH-KIND.  A command object that is a plain function is executed as a method call, one that is a property as a property
    access: in `_parse_command` the method executor runs only where `isfunction(<command>)` held, the property executor only where
    `isinstance(<command>, property)` held (tests read with locals and helper parameters resolved)."""
    rep = ctx.rep
    cp, sess = anchors(ctx)
    rep.rule(rule, "DISPATCH-KIND: _exec_method_and_respond runs only for a command that isfunction(), _exec_property_and_respond only for one that is a property")
    f = sess.methods.get("_parse_command")
    if f is None:
        raise AnalysisError("anchor: ControlSession._parse_command missing")
    n_sites = 0
    for exec_name, mk in (("_exec_method_and_respond", lambda c: (f"isfunction({c})", f"inspect.isfunction({c})")),
                          ("_exec_property_and_respond", lambda c: (f"isinstance({c},property)",))):
        for c in ctx.nodes(f, lambda n: n.op == "call" and ctx.is_call_to(n, exec_name)):
            if not c.pred:
                continue
            call_ = ctx.an.partial_syn.get((id(c.ast), id(c.env)), c.ast)
            a0 = call_.args[0] if isinstance(call_, ast.Call) and call_.args else None
            if a0 is None:
                rep.ob(rule, f"{exec_name} is handed the command object", None, node=c)
                continue
            n_sites += 1
            texts = set()
            for txt in {ast.unparse(a0), ctx.vals.canon_at(c.func, c.env, a0)}:
                texts |= {t.replace(" ", "") for t in mk(txt.replace(" ", ""))}
            tests = tests_matching(ctx, f, texts)
            rep.ob(rule, f"{exec_name} runs only for a command of its kind", only_when(ctx, f, tests, c), node=c,
                   detail="" if tests else f"no test reading like {sorted(texts)[0]} guards this call")
    rep.floor(rule, "executor calls in _parse_command", n_sites, 2)


def r_no_timeouts(ctx: Ctx, rule: str):
    """NO-TIME-OUTS(control): a reply belongs to the line that was sent last only while each side waits for the other for as long as it
    takes - a command whose method waits (until-closed, flush, gather-and-close) is answered when that wait is over.  A side that gives
    up after some seconds leaves the reply in the stream: it is then read as the answer to the next command."""
    rep = ctx.rep
    rep.rule(rule, "NO-TIME-OUTS(control): WHO(asyncio.wait_for / asyncio.timeout / timeout_at / wait(timeout=...)) in the control package is empty; "
                   "positive control: the stream reads of session and client are resolved")
    funcs = [f for f in ctx.prog.every_function() if f.module.name.startswith("control")]
    bad = []
    reads = 0
    for f in funcs:
        sc = ctx.an.scope(f)
        for x in sc._own_nodes():
            if not isinstance(x, ast.Call):
                continue
            try:
                cal = sc.callee(x)
            except Exception:
                continue
            nm = (cal.name or "")
            last = nm.rpartition(".")[2]
            if cal.kind == "ext" and nm.startswith("asyncio") and (last in ("wait_for", "timeout", "timeout_at") or (last == "wait" and any(k.arg == "timeout" for k in x.keywords))):
                bad.append((f, x, nm))
            if cal.kind == "ext" and last in ("readline", "read", "readuntil", "readexactly") and "StreamReader" in nm:
                reads += 1
    for f, x, nm in bad:
        rep.ob(rule, "neither side of the control connection gives up waiting for the other", False, func=f, construct=x,
               detail=f"{nm}: when the time is up the reply is still to come - it will be read as the answer to the next line")
    rep.ob(rule, "no time-out call in the control package", not bad, construct=f"control package: {len(funcs)} functions, time-out sites = {len(bad)}")
    rep.floor(rule, "positive control: resolved stream reads in the control package", reads, 3)


def r_blank_agreement(ctx: Ctx, rule: str):
    """BLANK-AGREEMENT between the two ends of the line protocol: the session's listen loop reads an empty (blank) line as "the client
    is gone" and ends; the bundled client therefore never sends one - `_get_command` hands back None or a non-empty command, and
    `_interact` writes only what it got."""
    rep = ctx.rep
    rep.rule(rule, "BLANK-AGREEMENT: while the session ends on a blank line, every value ControlClient._get_command returns is None or provably "
                   "non-empty (`x or None`, or a return reachable only through a truth test of the value), and _interact writes nothing for None")
    cli = ctx.prog.cls("control.client.ControlClient")
    if cli is None or "_get_command" not in cli.methods or "_interact" not in cli.methods:
        raise AnalysisError("anchor: ControlClient._get_command / _interact missing")
    _cp, sess = anchors(ctx)
    lis = sess.methods.get("listen")
    if lis is None:
        raise AnalysisError("anchor: ControlSession.listen missing")
    # premise: does the session end on a blank line?  (a falsy test of the line read whose true arm leaves the loop)
    lg = ctx.an.cfg(lis)
    ends_on_blank = False
    for t in [n for n in lg.nodes if n.op == "test" and n.pred]:
        e = t.ast
        if isinstance(e, ast.UnaryOp) and isinstance(e.op, ast.Not) and isinstance(e.operand, ast.Name):
            arm = [s for s, lab in t.succ if lab[0] == "T"]
            if arm and not any(m.op == "await" and m.awaited is not None and "readline" in (m.awaited.name or "") for m in reach(arm, lambda a, b, lab: lab[0] in NORMAL_KINDS)):
                ends_on_blank = True
    rep.ob(rule, "premise read off the session: a blank line ends the listen loop", "info" if ends_on_blank else "info", func=lis,
           construct=f"listen: ends on a blank line = {ends_on_blank}")
    if not ends_on_blank:
        return
    f = cli.methods["_get_command"]
    g = ctx.an.cfg(f)
    rets = [n for n in g.nodes if n.op == "return" and n.pred]
    rep.floor(rule, "returns of _get_command", len(ctx.distinct_sites(rets)), 2)
    for r in ctx.distinct_sites(rets):
        v = r.ast.value
        if v is None or (isinstance(v, ast.Constant) and v.value is None):
            continue
        ok = False
        why = ""
        if isinstance(v, ast.BoolOp) and isinstance(v.op, ast.Or) and isinstance(v.values[-1], ast.Constant) and v.values[-1].value is None:
            ok = True
        elif isinstance(v, ast.Constant) and isinstance(v.value, str) and v.value.strip():
            ok = True
        elif isinstance(v, ast.IfExp) and isinstance(v.orelse, ast.Constant) and v.orelse.value is None and isinstance(v.test, ast.Name) \
                and isinstance(v.body, ast.Name) and v.body.id == v.test.id:
            ok = True  # `x if x else None`
        elif isinstance(v, ast.IfExp) and isinstance(v.body, ast.Constant) and v.body.value is None and isinstance(v.test, ast.UnaryOp) and isinstance(v.test.op, ast.Not) \
                and isinstance(v.test.operand, ast.Name) and isinstance(v.orelse, ast.Name) and v.orelse.id == v.test.operand.id:
            ok = True  # `None if not x else x`
        elif isinstance(v, ast.Name):
            # reachable only through the truthy arm of a test of this very name?
            def blocked(a: Node, b: Node, lab) -> bool:
                if a.op == "test":
                    e = a.ast
                    if isinstance(e, ast.Name) and e.id == v.id and lab[0] == "T":
                        return False
                    if isinstance(e, ast.UnaryOp) and isinstance(e.op, ast.Not) and isinstance(e.operand, ast.Name) and e.operand.id == v.id and lab[0] == "F":
                        return False
                return True
            copies = [x for x in rets if x.ast is r.ast]
            # assignments to the name after the test would void it: require none between
            ok = not any(c in reach([g.entry], blocked) for c in copies)
            why = "" if ok else f"`{v.id}` may be the empty string here"
        rep.ob(rule, "_get_command hands back None or a non-empty command (the client never sends a blank line)", ok, node=r,
               detail=why or ("" if ok else "an empty line typed at the prompt would be sent; the session takes it for a disconnect and closes a client that is still there"))
    fi = cli.methods["_interact"]
    gi = ctx.an.cfg(fi)
    writes = [n for n in gi.nodes if n.pred and n.op == "call" and isinstance(n.ast, ast.Call) and isinstance(n.ast.func, ast.Attribute) and n.ast.func.attr == "write"]
    rep.floor(rule, "writes in _interact", len(ctx.distinct_sites(writes)), 1)
    nonetests = [t for t in gi.nodes if t.op == "test" and t.pred and isinstance(t.ast, ast.Compare) and len(t.ast.ops) == 1 and isinstance(t.ast.ops[0], (ast.Is, ast.IsNot))
                 and isinstance(t.ast.comparators[0], ast.Constant) and t.ast.comparators[0].value is None]

    def none_arm(a: Node, b: Node, lab) -> bool:
        if a in nonetests:
            is_ = isinstance(a.ast.ops[0], ast.Is)
            return lab[0] == ("T" if is_ else "F")
        if a.op == "test" and isinstance(a.ast, ast.Name):
            return lab[0] == "F"
        if a.op == "test" and isinstance(a.ast, ast.UnaryOp) and isinstance(a.ast.op, ast.Not) and isinstance(a.ast.operand, ast.Name):
            return lab[0] == "T"
        return True
    # follow only the "command is None / falsy" arms of tests: no write may be reachable that way
    r_none = reach([gi.entry], lambda a, b, lab: (a.op != "test" or none_arm(a, b, lab)))
    guarded = bool(nonetests) or any(t.op == "test" for t in gi.nodes)
    leak = [w for w in writes if w in r_none] if guarded else writes
    # (every test in _interact is about the command; with the None arm taken at each, nothing is written)
    rep.ob(rule, "_interact writes nothing when there is no command", not leak, func=fi, construct=leak[0] if leak else "writes guarded by the None test")


def r_path_as_given(ctx: Ctx, rule: str):
    """PATH-AS-GIVEN: the Unix server binds, and the Unix client connects to, the socket path it was constructed with - converted to a
    Path object and nothing else.  A path made absolute or resolved is a *different address string*: `sun_path` holds about 107 bytes,
    so a relative name that works from any directory stops working once the working directory is deep; and the two ends may no longer
    spell the same file."""
    rep = ctx.rep
    rep.rule(rule, "PATH-AS-GIVEN: UnixControlServer / UnixControlClient store their `socket_path` argument through Path() / str() / os.fspath() only "
                   "(no resolve / absolute / expanduser / abspath / realpath), and that attribute is what is handed to start_unix_server / "
                   "open_unix_connection / unlink")
    n = 0
    for cq in ("control.server.UnixControlServer", "control.client.UnixControlClient"):
        k = ctx.prog.cls(cq)
        init = k.methods.get("__init__")
        if init is None or "socket_path" not in init.param_names():
            raise AnalysisError(f"anchor: {cq}.__init__(socket_path) missing")
        sn = init.param_names()[0]
        stores = [x for x in ctx.an.scope(init)._own_nodes() if isinstance(x, (ast.Assign, ast.AnnAssign)) and x.value is not None and
                  any(isinstance(t, ast.Attribute) and t.attr == "_socket_path" and isinstance(t.value, ast.Name) and t.value.id == sn
                      for t in (x.targets if isinstance(x, ast.Assign) else [x.target]))]
        rep.floor(rule, f"store of _socket_path in {k.name}.__init__", len(stores), 1)

        def plain(e: ast.AST, depth: int = 0) -> bool:
            e = strip_cast(ctx.vals.resolve(init, e))
            if depth > 5:
                return False
            if isinstance(e, ast.Name):
                return e.id == "socket_path" and not ctx.an.scope(init).defs.get("socket_path")
            if isinstance(e, ast.Call) and len(e.args) == 1 and not e.keywords:
                fn = e.func
                nm = fn.id if isinstance(fn, ast.Name) else (fn.attr if isinstance(fn, ast.Attribute) and isinstance(fn.value, ast.Name) and fn.value.id in ("os", "pathlib") else None)
                if nm in ("Path", "PurePath", "PosixPath", "str", "fspath"):
                    return plain(e.args[0], depth + 1)
            return False

        for st in stores:
            n += 1
            ok = plain(st.value)
            rep.ob(rule, "the socket path is stored as given", ok, func=init, construct=st,
                   detail="" if ok else f"`{ast.unparse(st.value)[:60]}` is another address than the one the caller named (absolute / resolved paths can exceed sun_path, "
                                        "and differ from what the other end spells)")
        # who else writes it
        for m in k.methods.values():
            if m is init:
                continue
            msn = m.param_names()[0] if m.param_names() else None
            for x in ast.walk(m.node):
                if isinstance(x, ast.Attribute) and x.attr == "_socket_path" and isinstance(x.ctx, ast.Store) and isinstance(x.value, ast.Name) and x.value.id == msn:
                    rep.ob(rule, "the socket path is set once, by the constructor", False, func=m, construct=x)
    rep.floor(rule, "socket path stores judged", n, 2)
