"""C20 — Queue context manager marks every taken item processed exactly once."""
import ast

from ..cfg import NORMAL_KINDS
from ..model import AnalysisError
from ..queries import between, count_paths, reach
from .lib import Ctx


def check(ctx: Ctx) -> None:
    rep = ctx.rep
    prog = ctx.prog
    q = prog.cls("queue_context.Queue")
    rep.analysed["queue_bases"] = q.bases
    rep.ob("R20.0", "the class under analysis derives from asyncio's Queue (get/task_done/join are the trusted primitives)",
           any(b in ("asyncio.queues.Queue", "asyncio.Queue") for b in prog.external_bases(q)), construct=f"class {q.qual}({', '.join(q.bases)})")
    for nm in ("get", "task_done", "join", "put", "get_nowait", "put_nowait"):
        rep.ob("R20.0", f"the subclass does not override the trusted primitive {nm}()", nm not in q.methods, construct=f"Queue.{nm}")
    aenter, aexit, ip = q.methods.get("__aenter__"), q.methods.get("__aexit__"), q.methods.get("item_processed")
    if aenter is None or aexit is None or ip is None:
        raise AnalysisError("anchor: Queue.__aenter__/__aexit__/item_processed missing")

    def is_task_done(n):
        return n.op == "call" and n.callee is not None and n.callee.kind == "ext" and n.callee.name == "Queue.task_done" and n.callee.recv_path == "self"

    def is_get(n):
        return n.op == "await" and n.awaited is not None and n.awaited.kind == "ext" and n.awaited.name == "Queue.get" and n.awaited.recv_path == "self"

    rep.rule("R20.1", "__aenter__ returns `await self.get()` (exactly one get) and reaches no task_done/item_processed on any edge, in particular not "
                      "on the cancellation edge of the waiting get")
    res = count_paths(ctx.an, aenter, is_task_done)
    for k, c in sorted(res.items(), key=str):
        rep.ob("R20.1", "entering the context marks nothing as processed (also when cancelled while waiting)", c == frozenset({0}), func=aenter,
               construct=f"exit {k[0]}:{k[1][0].rpartition('.')[2] if k[1] else ''}", detail=f"task_done counts {sorted(c)}")
    gets = ctx.nodes(aenter, is_get)
    rep.floor("R20.1", "await self.get() in __aenter__", len(ctx.distinct_sites(gets)), 1)
    res = count_paths(ctx.an, aenter, lambda n: n in gets, interproc=False)
    rep.ob("R20.1", "exactly one item is taken per entered block", res.get(("ret", None)) == frozenset({1}), func=aenter, construct="get count on return",
           detail=str(sorted(res.get(("ret", None), []))))
    for r in ctx.distinct_sites(ctx.nodes(aenter, lambda n: n.op == "return")):
        v = r.ast.value
        syn = ctx.an.await_syn  # `c = self.get(); await c` is represented by one stand-in await expression per site
        ok = isinstance(v, ast.Await) and any(g.ast is v or syn.get(id(v)) is g.ast for g in gets)
        if not ok and isinstance(v, ast.Name):
            rv = ctx.vals.resolve(aenter, v)  # also `item: _T = await self.get()`
            ok = isinstance(rv, ast.Await) and any(g.ast is rv or syn.get(id(rv)) is g.ast for g in gets)
        rep.ob("R20.1", "the block receives the item that was taken", ok, node=r)
    others = ctx.nodes(aenter, lambda n: n.suspends and n not in gets)
    rep.ob("R20.1", "__aenter__ has no other suspension step (an item taken is always handed to the block)", not others, func=aenter, construct=others[0] if others else "only the get suspends")
    puts = ctx.nodes(aenter, lambda n: n.op == "call" and n.callee is not None and n.callee.name in ("Queue.put_nowait", "Queue.put", "Queue.get_nowait"))
    rep.ob("R20.1", "__aenter__ neither puts items back nor takes further ones", not puts, func=aenter, construct=puts[0] if puts else "no put/get_nowait")

    rep.rule("R20.2", "__aexit__: ALL-EXITS(entry => task_done, exactly once) unconditionally (no dependence on the exception arguments), before any "
                      "suspension step, and the exception is not suppressed (falsy return)")
    res = count_paths(ctx.an, aexit, is_task_done)
    for k, c in sorted(res.items(), key=str):
        rep.ob("R20.2", "leaving the block marks the item processed exactly once, however the block ended", c == frozenset({1}), func=aexit,
               construct=f"exit {k[0]}:{k[1][0].rpartition('.')[2] if k[1] else ''}", detail=f"task_done counts {sorted(c)}")
    g = ctx.an.cfg(aexit)
    marks = ctx.nodes(aexit, lambda n: is_task_done(n) or ctx.is_call_to(n, "item_processed"))
    pre = set()
    for m in marks:
        pre |= between([g.entry], [m])
    bad = [m for m in pre if m.suspends or m.user]
    rep.ob("R20.2", "nothing can suspend before the item is marked (a cancellation cannot skip the marking)", not bad, func=aexit, construct=bad[0] if bad else "entry .. item_processed()")
    rexits = [x for x in g.raise_exits.values() if x.pred]
    rep.ob("R20.2", "__aexit__ itself cannot raise", not rexits, func=aexit, construct="raising exits", detail=str([x.tok for x in rexits]))
    for r in [n for n in ast.walk(aexit.node) if isinstance(n, ast.Return)]:
        v = r.value
        falsy = v is None or (isinstance(v, ast.Constant) and not v.value)
        rep.ob("R20.2", "the block's exception propagates (no truthy return from __aexit__)", True if falsy else (False if isinstance(v, ast.Constant) else None), func=aexit, construct=r)

    rep.rule("R20.3", "item_processed calls self.task_done() exactly once and does nothing else to the queue")
    res = count_paths(ctx.an, ip, is_task_done)
    for k, c in sorted(res.items(), key=str):
        rep.ob("R20.3", "item_processed == one task_done", c == frozenset({1}), func=ip, construct=f"exit {k[0]}", detail=f"counts {sorted(c)}")
    other = ctx.nodes(ip, lambda n: n.op in ("call", "await") and not is_task_done(n) and (n.callee or n.awaited) is not None and (n.callee or n.awaited).kind != "ext" or
                      (n.op == "call" and n.callee is not None and n.callee.kind == "ext" and n.callee.name.startswith("Queue.") and not is_task_done(n)))
    rep.ob("R20.3", "item_processed touches the queue only through task_done", not other, func=ip, construct=other[0] if other else "only task_done")
