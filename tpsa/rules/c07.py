"""C07 — group and global cancellation are complete and contained."""
from .lib import Ctx
from . import shared as S
from . import cancel as K
from . import spawner as SP


def check(ctx: Ctx) -> None:
    K.r_cancel_group_entry(ctx, "R07.1")
    K.r_group_helper(ctx, "R07.2")
    SP.r_spawner_iterations(ctx, "R07.3")
    S.r_atomic_slot_registry(ctx, "R07.4")
    K.r_who_cancel(ctx, "R07.5")
    r_group_table_who(ctx, "R07.6")
    S.r_spawner_registry_who(ctx, "R07.7")
    from .elemtrack import r_spawner_kept
    r_spawner_kept(ctx, "R07.8")
    # completeness premise: cancel_group / cancel_all find a task only through the register filed in the table under its group
    from .naming import r_register_membership
    r_register_membership(ctx, "R07.9")
    # the member loop reads the register through its set interface
    from . import naming as _N
    _N.r_register_faithful(ctx, "R07.10")
    # a member suspended inside one of the pool's own coroutines still receives its cancellation
    K.r_no_swallow(ctx, "R07.11")



def r_group_table_who(ctx: Ctx, rule: str) -> None:
    rep = ctx.rep
    rep.rule(rule, "WHO(removal from the group table / from a group register) = {cancel_group, cancel_all (table); "
                   "_cancel_and_remove_all_from_group (register)}: groups are forgotten only by cancelling them")
    effs = [e for e in ctx.effects(fields=["_task_groups"], kinds=["remove", "clear", "assign"]) if ctx.in_pool(e.node.func)]
    rep.floor(rule, "removals from the group table", len([e for e in effs if e.path == "self._task_groups" and e.kind != "assign"]), 2)
    for e in effs:
        hosts = ctx.hosts_of(e.node)
        if e.path == "self._task_groups":
            allowed = {"cancel_group", "cancel_all"} if e.kind != "assign" else {"__init__"}
        else:
            allowed = {"_cancel_and_remove_all_from_group"}
        rep.ob(rule, f"{e.kind} on {e.path} only by {sorted(allowed)}", hosts <= allowed, node=e.node, detail=f"on behalf of {sorted(hosts)}")
    regrem = [e for e in ctx.effects(kinds=["remove", "clear"]) if e.path in ("<group_reg>", "self._task_groups[]") and ctx.in_pool(e.node.func)]
    rep.floor(rule, "removals from a group register", len(regrem), 1)
    for e in regrem:
        rep.ob(rule, "ids leave a group register only when the group is cancelled", ctx.hosts_of(e.node) <= {"_cancel_and_remove_all_from_group"}, node=e.node)
