"""C12 — a failing task or callback harms only itself."""
import ast

from ..cfg import NORMAL_KINDS
from ..exc import CANCELLED, EXCEPTION
from ..queries import reach
from .lib import Ctx
from . import shared as S
from . import spawner as SP
from . import close as CL
from .c05 import r_map_end_wrapper
from .lifecycle import check_lifecycle


def check(ctx: Ctx) -> None:
    rep = ctx.rep
    rep.rule("R12.1", "release before user code: life-cycle typestate - on every path, including those where the coroutine or a callback raises, "
                      "the slot is released exactly once, before the end callback runs, and the wrapper ends with the task filed as ended")
    # ("never a different one": a cancel callback that runs while its task is still filed as running can be cancelled a second time -
    # by cancel()/cancel_group()/cancel_all()/stop(), also from inside the callback - and that CancelledError replaces what the callback raises)
    check_lifecycle(ctx, "R12.1", {"slot", "loc", "end", "cancel"})
    r_map_end_wrapper(ctx, "R12.1m")
    r_no_swallow(ctx, "R12.2")
    S.r_lifecycle_callers(ctx, "R12.2h")
    SP.r_spawner_iterations(ctx, "R12.3")
    CL.r_return_exceptions(ctx, "R12.4")
    CL.r_forget_only_gathered(ctx, "R12.6")
    # "never a different one": an iterator over a registry created before a suspension and advanced after it raises RuntimeError
    # (dictionary changed size during iteration) out of gather_and_close when an overlapping flush()/cancel_group() dropped a key meanwhile
    CL.r_fresh_members(ctx, "R12.7", clauses=("iter",))
    r_only_user_raises(ctx, "R12.5")
    S.r_snapshot_forget(ctx, "R13.1")
    S.r_registry_who(ctx, "R03.1")


def r_no_swallow(ctx: Ctx, rule: str) -> None:
    rep = ctx.rep
    rep.rule(rule, "the task wrapper never swallows the coroutine's exception: from the exceptional edge of `await <user coroutine>` the normal "
                   "exit is unreachable (no return/break/continue in the clean-up, no broad handler), so flush()/gather_and_close() see it")
    for w in ctx.pool_funcs("_task_wrapper"):
        g = ctx.an.cfg(w)
        aws = ctx.nodes(w, lambda n: n.op == "await" and n.awaited_user)
        rep.floor(rule, "await of the user coroutine", len(ctx.distinct_sites(aws)), 1)
        ef = ctx.feasible()
        for a in aws:
            for s, lab in a.succ:
                if lab[0] == "x" and lab[1][0] == EXCEPTION:
                    r = reach([s], ef)
                    rep.ob(rule, "an exception raised by the task's coroutine leaves the wrapper as an exception", g.exit not in r, node=a,
                           detail="" if g.exit not in r else "the wrapper can return normally after the coroutine raised")
                    # and it is that exception (or one raised by a user callback) that propagates
                    outs = {(x.kind, x.tok) for x in r if x.op == "raise_exit"}
                    rep.ob(rule, "what propagates is an Exception raised by user code (or a cancellation)", all(t[1][0] in (EXCEPTION, CANCELLED) for t in outs), node=a,
                           detail=str(sorted(t[1][0] for t in outs)))
        # the same for every user-code step of the functions the wrapper runs (callbacks)
        hosts = [w] + ctx.pool_funcs("_task_ending") + ctx.pool_funcs("_task_cancellation") + [ctx.prog.func("internals.helpers.execute_optional")]
        for outer in ctx.pool_funcs("_get_map_end_callback"):
            hosts += list(ctx.an.scope(outer).nested.values())
        for h in hosts:
            hg = ctx.an.cfg(h)
            for u in ctx.distinct_sites(ctx.nodes(h, lambda n: n.user and n.op in ("call", "await"))):
                for cp in [x for x in hg.nodes if x.ast is u.ast and x.op == u.op and x.pred]:
                    for s, lab in cp.succ:
                        if lab[0] == "x" and lab[1][0] == EXCEPTION:
                            r = reach([s], ef)
                            rep.ob(rule, "an exception raised by user code (coroutine or callback) is not swallowed on its way out", hg.exit not in r, node=cp,
                                   detail="" if hg.exit not in r else f"{h.short} can return normally after this step raised")
        # the value returned on success is the coroutine's result
        rets = ctx.distinct_sites(ctx.nodes(w, lambda n: n.op == "return" and n.ast.value is not None and not (isinstance(n.ast.value, ast.Constant) and n.ast.value.value is None)))
        for r in rets:
            v = r.ast.value
            ok = isinstance(v, ast.Await) and any(a.ast is v for a in aws)
            if not ok:
                # through locals and helpers spliced into the wrapper: every value it may return is the awaited coroutine (or None)
                ls = [x for _f, _e, x in ctx.vals.leaves_at(r, v)]
                ls = [x for x in ls if not (isinstance(x, ast.Constant) and x.value is None)]
                ok = bool(ls) and all(isinstance(x, ast.Await) and any(a.ast is x for a in aws) for x in ls)
            if not ok and isinstance(v, ast.Name):
                sc = ctx.an.scope(w)
                vals = [h[1] for h in sc.defs.get(v.id, []) if h[0] == "assign" and not (isinstance(h[1], ast.Constant) and h[1].value is None)]
                ok = bool(vals) and all(isinstance(x, ast.Await) and any(a.ast is x for a in aws) for x in vals)
            rep.ob(rule, "the wrapper returns the coroutine's own result", ok, node=r)


def r_only_user_raises(ctx: Ctx, rule: str) -> None:
    rep = ctx.rep
    rep.rule(rule, "never a different exception: in the task wrapper and everything it runs the only steps that may raise (under the registry-"
                   "integrity lemma) are user-code steps - the coroutine, the callbacks - and cancellation")
    ef = ctx.feasible()
    funcs = []
    for nm in ("_task_wrapper", "_task_ending", "_task_cancellation"):
        funcs += ctx.pool_funcs(nm)
    funcs.append(ctx.prog.func("internals.helpers.execute_optional"))
    for outer in ctx.pool_funcs("_get_map_end_callback"):
        funcs += list(ctx.an.scope(outer).nested.values())
    n = 0
    for f in funcs:
        g = ctx.an.cfg(f)
        live = reach([g.entry], ef)
        for m in ctx.distinct_sites([x for x in live if any(lab[0] == "x" and ef(x, s, lab) for s, lab in x.succ)]):
            if m.op in ("reraise",):
                continue
            n += 1
            from ..absint import runs_callee
            ok = m.user or runs_callee(m) is not None
            if not ok:
                # does the exception escape the function?
                esc = False
                for s2, lab in m.succ:
                    if lab[0] == "x" and ef(m, s2, lab) and s2.op not in ("handler", "suppressed"):
                        esc = True  # not caught where it is raised: it leaves the function (possibly after clean-up)
                ok = not esc
            rep.ob(rule, "a step that may raise is a user-code step (or runs a package function judged on its own)", ok, node=m,
                   detail="" if ok else "this step can raise an exception of its own that would surface from flush()/gather_and_close() instead of the user's")
    rep.floor(rule, "may-raise steps examined", n, 4)
    CL.r_no_live_iteration(ctx, "R12.8", ("flush", "gather_and_close"))
