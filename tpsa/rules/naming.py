"""Group names, task ids and task names (C10, C11): abstract string evaluation and id discipline."""
from __future__ import annotations

import ast
import re
from typing import List, Optional, Tuple

from ..cfg import NORMAL_KINDS, Label, Node
from ..model import AnalysisError, FuncInfo
from ..queries import between, can_follow, count_paths, reach
from .lib import GROUPS, NUM, RUN, Ctx, dominated_by_completion, field_of, key_lookup_guarded, r_not_found_only_when_absent
from ..exc import KEYERROR
from .shared import expr_role

Part = Tuple[str, str]  # ('lit', text) | ('expr', source)


def template(ctx: Ctx, f: FuncInfo, e: Optional[ast.AST], _depth: int = 0) -> Optional[List[Part]]:
    """Abstract value of a string expression: literal pieces and holes (unparsed expressions)."""
    if e is None or _depth > 5:
        return None
    sc = ctx.an.scope(f)
    if isinstance(e, ast.Constant):
        return [("lit", str(e.value))] if isinstance(e.value, (str, int)) else None
    if isinstance(e, ast.JoinedStr):
        out: List[Part] = []
        for v in e.values:
            if isinstance(v, ast.Constant):
                out.append(("lit", str(v.value)))
            elif isinstance(v, ast.FormattedValue):
                if v.format_spec is not None or v.conversion not in (-1, 115):
                    return None
                sub = template(ctx, f, v.value, _depth + 1)
                is_const = isinstance(v.value, ast.Name) and sub is not None and len(sub) == 1 and sub[0][0] == "lit"
                if isinstance(v.value, ast.Attribute) and _class_const(ctx, f, v.value) is not None:
                    out.append(("lit", _class_const(ctx, f, v.value)))
                    continue
                out += sub if sub is not None and isinstance(v.value, (ast.Name, ast.JoinedStr)) and (is_const or _is_str_local(ctx, f, v.value)) else [("expr", ctx.vals.canon(f, v.value))]
        return merge(out)
    if isinstance(e, ast.BinOp) and isinstance(e.op, ast.Add):
        l, r = template(ctx, f, e.left, _depth + 1), template(ctx, f, e.right, _depth + 1)
        return merge(l + r) if l is not None and r is not None else None
    if isinstance(e, ast.BinOp) and isinstance(e.op, ast.Mod) and isinstance(e.left, ast.Constant) and isinstance(e.left.value, str):
        args = list(e.right.elts) if isinstance(e.right, ast.Tuple) else [e.right]
        pieces = re.split(r"(%[sd])", e.left.value)
        out = []
        i = 0
        for p in pieces:
            if p in ("%s", "%d"):
                if i >= len(args):
                    return None
                sub = template(ctx, f, args[i], _depth + 1) if _is_str_local(ctx, f, args[i]) else None
                out += sub if sub is not None else [("expr", ctx.vals.canon(f, args[i]))]
                i += 1
            elif "%" in p:
                return None
            elif p:
                out.append(("lit", p))
        return merge(out) if i == len(args) else None
    tmpl_ = None
    if isinstance(e, ast.Call) and isinstance(e.func, ast.Attribute) and e.func.attr == "format" and all(k.arg is not None for k in e.keywords):
        c_ = ctx.vals.const(f, e.func.value)
        if c_ is not None and isinstance(c_.value, str):
            tmpl_ = c_.value
        elif isinstance(e.func.value, ast.Attribute):
            tmpl_ = _class_const(ctx, f, e.func.value)  # self._TEMPLATE.format(...)
    if tmpl_ is not None:
        # "{}-{}".format(a, b) / "{0}-{1}".format(a, b) / "{pool}_Task-{task_id}".format(pool=self, task_id=task_id)
        pieces = re.split(r"(\{[A-Za-z_0-9]*\})", tmpl_)
        kws = {k.arg: k.value for k in e.keywords}
        out, i = [], 0
        for p in pieces:
            if re.fullmatch(r"\{[A-Za-z_0-9]*\}", p):
                key = p[1:-1]
                if key == "":
                    arg = e.args[i] if i < len(e.args) else None
                    i += 1
                elif key.isdigit():
                    arg = e.args[int(key)] if int(key) < len(e.args) else None
                else:
                    arg = kws.get(key)
                if arg is None:
                    return None
                sub = template(ctx, f, arg, _depth + 1) if _is_str_local(ctx, f, arg) else None
                out += sub if sub is not None else [("expr", ctx.vals.canon(f, arg))]
            elif "{" in p or "}" in p:
                return None
            elif p:
                out.append(("lit", p))
        return merge(out)
    if isinstance(e, ast.Call) and isinstance(e.func, ast.Name) and e.func.id == "str" and len(e.args) == 1:
        return [("expr", ctx.vals.canon(f, e.args[0]))]
    if isinstance(e, ast.Name):
        if e.id in sc.defs and e.id not in sc.params:
            vals = ctx.vals.bindings(f, e.id)
            if vals:
                # one binding, or several that all build the same text (`name = f(i)` before and inside a loop)
                ts = [template(ctx, f, v, _depth + 1) for v in vals]
                if all(t is not None and t == ts[0] for t in ts) and (len(ts) == 1 or any(k == "lit" for k, _ in ts[0])):
                    return ts[0]
        c = ctx.vals.const(f, e)
        if c is not None and isinstance(c.value, (str, int)) and e.id not in sc.defs and e.id not in sc.params:
            return [("lit", str(c.value))]  # module-level constant
        if e.id in sc.defs and e.id not in sc.params and all(h[0] == "elt" for h in sc.defs[e.id]):
            # `name, x = self._helper()`: the component the (spliced) helper returns, read in the helper's frame
            ls = ctx.vals.leaves(f, None, e)
            if len(ls) == 1 and ls[0][2] is not e and not (ls[0][0] is f and isinstance(ls[0][2], ast.Name) and ls[0][2].id == e.id):
                t_ = template(ctx, ls[0][0], ls[0][2], _depth + 1)
                if t_ is not None and not any(k == "expr" and v in ctx.an.scope(ls[0][0]).params and ls[0][0] is not f for k, v in t_):
                    return t_
        return [("expr", e.id)]
    if isinstance(e, ast.NamedExpr):
        return template(ctx, f, e.value, _depth + 1)
    if isinstance(e, ast.Call) and id(e) in ctx.an.spliced_at:
        # a helper spliced into f that builds the text: what all its returns build
        t = ctx.an.spliced_at[id(e)]
        rets = [r.value for r in ctx.an.scope(t)._own_nodes() if isinstance(r, ast.Return) and r.value is not None]
        ts = [template(ctx, t, r, _depth + 1) for r in rets]
        if ts and all(x is not None and x == ts[0] for x in ts):
            if not any(k == "expr" and v in ctx.an.scope(t).params for k, v in ts[0]):
                return ts[0]
            # holes that are parameters of the helper (never re-bound there): what this call passes for them
            from ..cfg import bind_args
            env = bind_args(e, t, f, None)
            tsc = ctx.an.scope(t)
            out = []
            for k, v in ts[0]:
                if k == "expr" and v in tsc.params:
                    if v not in env or v in tsc.defs and any(h[0] != "param" for h in tsc.defs[v]):
                        out = None
                        break
                    arg = env[v][1]
                    sub = template(ctx, f, arg, _depth + 1) if isinstance(arg, (ast.JoinedStr, ast.Constant)) or _is_str_local(ctx, f, arg) or (
                        isinstance(arg, ast.Name) and ctx.vals.const(f, arg) is not None) else None
                    out += sub if sub is not None else [("expr", ctx.vals.canon(f, arg))]
                else:
                    out.append((k, v))
            if out is not None:
                return merge(out)
    return [("expr", ctx.vals.canon(f, e))]


def _class_const(ctx: Ctx, f: FuncInfo, e: ast.Attribute) -> Optional[str]:
    """`self.NAME` / `cls.NAME` where NAME is assigned a string literal in the body of f's class (or a base class of the package) and
    nowhere in the package is an attribute of that name assigned otherwise: that literal"""
    sc = ctx.an.scope(f)
    if not (isinstance(e.value, ast.Name) and e.value.id in (sc.selfname, "cls") and f.cls is not None):
        return None
    found = None
    todo, seen = [f.cls], set()
    while todo:
        c = todo.pop()
        if c.qual in seen:
            continue
        seen.add(c.qual)
        for st in c.node.body:
            tgt = st.targets[0] if isinstance(st, ast.Assign) and len(st.targets) == 1 else (st.target if isinstance(st, ast.AnnAssign) else None)
            if isinstance(tgt, ast.Name) and tgt.id == e.attr and isinstance(getattr(st, "value", None), ast.Constant) and isinstance(st.value.value, str):
                found = st.value.value if found is None else found
        todo += [ctx.prog.classes[b] for b in c.bases if b in ctx.prog.classes]
    if found is None:
        return None
    for m in ctx.prog.modules.values():
        for x in ast.walk(m.tree):
            if isinstance(x, ast.Attribute) and x.attr == e.attr and not isinstance(x.ctx, ast.Load):
                return None
    return found


def _is_str_local(ctx: Ctx, f: FuncInfo, e: ast.AST) -> bool:
    sc = ctx.an.scope(f)
    if isinstance(e, ast.JoinedStr):
        return True
    if isinstance(e, ast.Name) and e.id in sc.defs and e.id not in sc.params and len(sc.defs[e.id]) == 1:
        h = sc.defs[e.id][0]
        v = h[1] if h[0] == "assign" else None
        return isinstance(v, (ast.JoinedStr, ast.BinOp)) or (isinstance(v, ast.Call) and isinstance(v.func, ast.Attribute) and v.func.attr == "format")
    return False


def merge(parts: List[Part]) -> List[Part]:
    out: List[Part] = []
    for k, v in parts:
        if k == "lit" and out and out[-1][0] == "lit":
            out[-1] = ("lit", out[-1][1] + v)
        elif not (k == "lit" and v == ""):
            out.append((k, v))
    return out


def show(parts: Optional[List[Part]]) -> str:
    if parts is None:
        return "<unknown>"
    return "".join(v if k == "lit" else "{" + v + "}" for k, v in parts)


# ------------------------------------------------------------------------ C10
def r_register_membership(ctx: Ctx, rule: str):
    rep = ctx.rep
    rep.rule(rule, "_start_task files the new id in exactly one register - the one obtained for its group_name parameter - in the atomic segment "
                   "that allots the id and creates the task; WHO(register add) = {_start_task}")
    adds = [e for e in ctx.effects(kinds=["insert"]) if e.path in (GROUPS + "[]", "<group_reg>") and ctx.in_pool(e.node.func)]
    rep.floor(rule, "register add sites", len(adds), 1)
    for e in adds:
        rep.ob(rule, "ids are added to a group register only by _start_task", ctx.hosts_of(e.node) <= {"_start_task"}, node=e.node, detail=f"on behalf of {sorted(ctx.hosts_of(e.node))}")
    for f in ctx.pool_funcs("_start_task"):
        g = ctx.an.cfg(f)
        sc = ctx.an.scope(f)
        addn = ctx.nodes(f, lambda n: any(e.kind == "insert" and e.path == GROUPS + "[]" for e in ctx.eff.of_node(n)))
        res = count_paths(ctx.an, f, lambda n: n in addn, interproc=False)
        cnt = res.get(("ret", None), frozenset())
        rep.ob(rule, "every started task is added to exactly one register", cnt == frozenset({1}), func=f, construct="register add count", detail=f"{sorted(cnt)}")
        V = ctx.vals
        from ..cfg import bind_args

        def register_keys(fr: FuncInfo, env, e: ast.AST, depth: int = 0):
            """The keys under which the group table holds the register that `e` evaluates to (None: not recognisably from the table)."""
            if depth > 6 or e is None:
                return None
            alts = V.leaves(fr, env, e)
            if len(alts) > 1 and depth < 6:
                # several bindings (`reg = table.get(name)` / `if reg is None: reg = table[name] = Register()`): each must be the
                # register filed under a key; together they name the keys
                out_: list = []
                for fr2, env2, leaf2 in alts:
                    ks = register_keys(fr2, env2, leaf2, depth + 1) if not isinstance(leaf2, ast.Name) else None
                    if ks is None and isinstance(leaf2, ast.Call) and ctx.an.scope(fr2).callee(leaf2).kind == "ctor":
                        own2 = list(ctx.an.scope(fr2)._own_nodes())
                        held = {t.id for x in own2 if isinstance(x, ast.Assign) and x.value is leaf2 for t in x.targets if isinstance(t, ast.Name)}
                        ks = [(fr2, env2, t.slice) for x in own2 if isinstance(x, ast.Assign) and (x.value is leaf2 or (isinstance(x.value, ast.Name) and x.value.id in held))
                              for t in x.targets if isinstance(t, ast.Subscript) and ctx.eff.rebase(ctx.eff.paths(fr2).of(t.value) or "", fr2, env2) == GROUPS] or None
                    if ks is None:
                        return None
                    out_ += ks
                return out_ or None
            fr, env, leaf = V.trace(fr, env, e)
            P = ctx.eff.paths(fr)

            def table(x: ast.AST) -> bool:
                p = P.of(x)
                return p is not None and ctx.eff.rebase(p, fr, env) == GROUPS

            if isinstance(leaf, ast.Call) and isinstance(leaf.func, ast.Attribute) and leaf.func.attr in ("setdefault", "get") and leaf.args and table(leaf.func.value):
                return [(fr, env, leaf.args[0])]
            if isinstance(leaf, ast.Subscript) and table(leaf.value):
                return [(fr, env, leaf.slice)]
            if isinstance(leaf, ast.Call) and id(leaf) in ctx.an.spliced_at:
                t = ctx.an.spliced_at[id(leaf)]
                sub = bind_args(leaf, t, fr, env)
                out = []
                rets = [r.value for r in ctx.an.scope(t)._own_nodes() if isinstance(r, ast.Return) and r.value is not None]
                for r in rets:
                    ks = register_keys(t, sub, r, depth + 1)
                    if ks is None:
                        return None
                    out += ks
                return out or None
            if isinstance(leaf, ast.Call) and isinstance(e, ast.Name):
                # a fresh register which this frame files in the table itself: `table[key] = reg`
                cal = ctx.an.scope(fr).callee(leaf)
                if cal.kind == "ctor":
                    keys = [(fr, env, t.slice) for x in ctx.an.scope(fr)._own_nodes() if isinstance(x, ast.Assign) and isinstance(x.value, ast.Name) and x.value.id == e.id
                            for t in x.targets if isinstance(t, ast.Subscript) and table(t.value)]
                    return keys or None
            return None

        for a in ctx.distinct_sites(addn):
            recv = a.ast.func.value if isinstance(a.ast, ast.Call) and isinstance(a.ast.func, ast.Attribute) else None
            keys = register_keys(a.func, a.env, recv) if recv is not None else None
            roles = set()
            for kf, kenv, kx in keys or []:
                lf = V.trace(kf, kenv, kx)
                roles.add(expr_role(ctx, lf[0], lf[2]))
            rep.ob(rule, "the register is the one filed under the task's group name", bool(keys) and roles == {"GROUP"}, node=a,
                   detail=f"register obtained under key(s) {[ast.unparse(k[2]) for k in keys] if keys else None}")
            ins = ctx.nodes(f, lambda n: any(e.kind == "insert" and e.path == RUN for e in ctx.eff.of_node(n)))
            ida = a.ast.args[0] if isinstance(a.ast, ast.Call) and a.ast.args else None
            same = False
            for i in ins:
                tgt = (i.ast.targets if isinstance(i.ast, ast.Assign) else [i.ast.target])[0] if i.op == "assign" else None
                if isinstance(tgt, ast.Subscript) and ida is not None and V.same((i.func, i.env, tgt.slice), (a.func, a.env, ida)):
                    same = True
            rep.ob(rule, "the id added to the register is the id under which the task is filed as running", same, node=a)
            seg = between([a], ins) | between(ins, [a])
            bad = [m for m in seg if ctx.effective(m) or m.user]
            rep.ob(rule, "register add and running-registry insert form one atomic segment", not bad, node=a)


def _first_absent(ctx: Ctx, f: FuncInfo, v: ast.AST):
    """`next(x for x in <candidates> if x not in self._task_groups)` -> (template of a candidate, filtered by absence from the
    group table, the candidates enumerate a counter); None when v is not of that form"""
    V = ctx.vals
    v = V.resolve(f, v)
    if not (isinstance(v, ast.Call) and isinstance(v.func, ast.Name) and v.func.id == "next" and len(v.args) == 1 and not v.keywords):
        return None
    gen = V.resolve(f, v.args[0])
    if not (isinstance(gen, ast.GeneratorExp) and len(gen.generators) == 1 and isinstance(gen.generators[0].target, ast.Name)):
        return None
    g0 = gen.generators[0]
    tv = g0.target.id
    if isinstance(gen.elt, ast.Name) and gen.elt.id != tv:
        # `next(name for i in count() if (name := f"{base}-{i}") not in self._task_groups)`: the name is built, bound and tested in the filter
        for c in g0.ifs:
            if isinstance(c, ast.Compare) and len(c.ops) == 1 and isinstance(c.ops[0], ast.NotIn) and isinstance(c.left, ast.NamedExpr) \
                    and c.left.target.id == gen.elt.id and ctx.eff.paths(f).of(c.comparators[0]) == GROUPS and len(g0.ifs) == 1:
                src = V.resolve(f, g0.iter)
                counts = isinstance(src, ast.Call) and ctx.an.scope(f).callee(src).name.rpartition(".")[2] == "count" and len(src.args) <= 1
                return template(ctx, f, c.left.value), True, counts
        return None
    if not (isinstance(gen.elt, ast.Name) and gen.elt.id == tv):
        return None
    absent = any(isinstance(c, ast.Compare) and len(c.ops) == 1 and isinstance(c.ops[0], ast.NotIn) and isinstance(c.left, ast.Name) and c.left.id == tv
                 and ctx.eff.paths(f).of(c.comparators[0]) == GROUPS for c in g0.ifs)

    def elem(it: ast.AST, depth: int = 0):
        it = V.resolve(f, it)
        if depth > 4 or not (isinstance(it, (ast.GeneratorExp, ast.ListComp)) and len(it.generators) == 1 and isinstance(it.generators[0].target, ast.Name)) or it.generators[0].ifs:
            return None, False
        gi = it.generators[0]
        if isinstance(it.elt, ast.Name) and it.elt.id == gi.target.id:
            return elem(gi.iter, depth + 1)
        src = V.resolve(f, gi.iter)
        counts = isinstance(src, ast.Call) and ctx.an.scope(f).callee(src).name.rpartition(".")[2] == "count" and len(src.args) <= 1
        return template(ctx, f, it.elt), counts

    t, counts = elem(g0.iter)
    return t, absent, counts


def r_group_name_generator(ctx: Ctx, rule: str):
    rep = ctx.rep
    rep.rule(rule, "_generate_group_name returns a name only after `name not in self._task_groups`; its template, evaluated abstractly, is "
                   "<prefix>-<func.__name__>-group-<i>; start uses start-group-<_start_calls> and increments the counter exactly once per accepted call")
    for f in ctx.pool_funcs("_generate_group_name"):
        g = ctx.an.cfg(f)
        params = [p for p in f.param_names() if p != "self"]
        rets = ctx.distinct_sites(ctx.nodes(f, lambda n: n.op == "return" and n.ast.value is not None))
        rep.floor(rule, "returns of _generate_group_name", len(rets), 1)
        for r in rets:
            fn_form = _first_absent(ctx, f, r.ast.value)
            t = fn_form[0] if fn_form is not None else template(ctx, f, r.ast.value)
            ok = None
            if t is not None:
                ok = (len(t) == 5 and t[0] == ("expr", params[0]) and t[1] == ("lit", "-") and t[2] == ("expr", f"{params[1]}.__name__")
                      and t[3] == ("lit", "-group-") and t[4][0] == "expr")
            rep.ob(rule, "generated names follow '<prefix>-<func name>-group-<i>'", ok, node=r, detail=f"template {show(t)}")
            if fn_form is not None:
                # `next(name for name in <candidates> if name not in self._task_groups)`: what next() hands back has passed the filter
                rep.ob(rule, "a generated name is returned only after it was found absent from the group table", fn_form[1], node=r)
                rep.ob(rule, "each attempt uses a new index", fn_form[2], node=r)
                continue
            # where the name is really produced: this return, or - when it returns the result of a helper spliced in here (a pure
            # `unique_name(base, taken)`) - the returns of that helper, read in the helper's frame
            sites = [r]
            hv = ctx.vals.resolve(f, r.ast.value)
            if isinstance(hv, ast.Call) and id(hv) in ctx.an.spliced_at:
                ht = ctx.an.spliced_at[id(hv)]
                inner = [n for n in g.nodes if n.pred and n.func is ht and n.op in ("ret_inl", "return") and isinstance(n.ast, ast.Return) and n.ast.value is not None]
                probes = [n for n in g.nodes if n.pred and n.func is ht and n.op == "test" and isinstance(n.ast, ast.Compare) and len(n.ast.ops) == 1
                          and isinstance(n.ast.ops[0], (ast.In, ast.NotIn)) and ctx.eff.rebase(ctx.eff.paths(ht).of(n.ast.comparators[0]) or "", ht, n.env) == GROUPS]
                if inner and probes:  # (a helper that only builds the text is not where the name is chosen)
                    sites = inner
            for r2 in sites:
                fr2 = r2.func
                v = r2.ast.value

                def same_name(left: ast.AST) -> bool:
                    """the value tested for membership is the value returned"""
                    if ast.unparse(left) == ast.unparse(v):
                        return True
                    if isinstance(left, ast.NamedExpr) and isinstance(v, ast.Name) and left.target.id == v.id:
                        return True
                    tl, tv = template(ctx, fr2, left), template(ctx, fr2, v)
                    return tl is not None and tl == tv and any(k == "lit" for k, _ in tl)

                tests = [n for n in g.nodes if n.pred and n.func is fr2 and n.op == "test" and isinstance(n.ast, ast.Compare) and len(n.ast.ops) == 1
                         and isinstance(n.ast.ops[0], (ast.In, ast.NotIn))
                         and ctx.eff.rebase(ctx.eff.paths(fr2).of(n.ast.comparators[0]) or "", fr2, n.env) == GROUPS and same_name(n.ast.left)]

                def ef(a: Node, b: Node, lab: Label) -> bool:
                    if a in tests and lab[0] in ("T", "F"):
                        free = (lab[0] == "T") == isinstance(a.ast.ops[0], ast.NotIn)
                        return not free
                    return True

                ok2 = bool(tests) and r2 not in reach([g.entry], ef)
                rep.ob(rule, "a generated name is returned only after it was found absent from the group table", ok2, node=r2 if r2 is not r else r)
                # the counter in the name is a local that changes between attempts
                t2 = template(ctx, fr2, v) if r2 is not r else t
                if t2 is not None and t2 and t2[-1][0] == "expr":
                    ctr = t2[-1][1]
                    augs = [n for n in g.nodes if n.pred and n.func is fr2 and n.op in ("aug", "assign") and any(isinstance(x, ast.Name) and x.id == ctr for x in ast.walk(n.ast.target if n.op == "aug" else (n.ast.targets[0] if isinstance(n.ast, ast.Assign) else n.ast.target))) and bool(n.loops)]
                    loopvar = any(isinstance(lp, ast.For) and any(isinstance(x, ast.Name) and x.id == ctr for x in ast.walk(lp.target)) for lp in r2.loops)
                    rep.ob(rule, "each attempt uses a new index", bool(augs) or loopvar, node=r2)
    for f in ctx.pool_funcs("start"):
        g = ctx.an.cfg(f)
        sc = ctx.an.scope(f)
        rets = ctx.distinct_sites(ctx.nodes(f, lambda n: n.op == "return" and n.ast.value is not None))
        for r in rets:
            t = template(ctx, f, r.ast.value)
            ok = t is not None and len(t) == 2 and t[0] == ("lit", "start-group-") and t[1] == ("expr", "self._start_calls")
            rep.ob(rule, "start() names its group 'start-group-<number of earlier accepted start calls>'", ok if t is not None else None, node=r, detail=f"template {show(t)}")
        def bumps(n: Node) -> bool:
            if not any(e.path == "self._start_calls" and e.kind in ("aug", "assign") for e in ctx.eff.of_node(n)):
                return False
            if n.op == "aug":
                return True
            # self._start_calls = <old value> + 1
            return n.op == "assign" and ctx.vals.canon(n.func, n.ast.value).replace(" ", "") in ("self._start_calls+1", "1+self._start_calls")

        incs = ctx.nodes(f, bumps)
        res = count_paths(ctx.an, f, lambda n: n in incs, interproc=False)
        cnt = res.get(("ret", None), frozenset())
        rep.ob(rule, "the start counter is incremented exactly once per accepted call", cnt == frozenset({1}), func=f, construct="_start_calls increments", detail=f"{sorted(cnt)}")
        for i in ctx.distinct_sites(incs):
            a = i.ast
            rep.ob(rule, "the start counter goes up by one", i.op == "assign" or (isinstance(a.op, ast.Add) and isinstance(a.value, ast.Constant) and a.value.value == 1), node=i)
            # the name is computed from the counter before the increment (or the increment precedes consistently for every call)
            names = ctx.nodes(f, lambda n: n.op == "assign" and isinstance(n.ast.value, ast.JoinedStr))
    w = [e for e in ctx.effects(fields=["_start_calls"], kinds=["assign", "aug"])]
    rep.ob(rule, "the start counter is initialised by a constructor", any(ctx.hosts_of(e.node) <= {"__init__"} and e.kind == "assign" for e in w), construct="self._start_calls = 0 in __init__")
    for e in w:
        hosts = ctx.hosts_of(e.node)
        rep.ob(rule, "the start counter is written only by the constructor (=0) and start (+1)", hosts <= {"__init__", "start"}, node=e.node)
        if hosts <= {"__init__"}:
            v = getattr(e.node.ast, "value", None)
            rep.ob(rule, "the start counter begins at 0", isinstance(v, ast.Constant) and v.value == 0, node=e.node)


def r_get_group_ids(ctx: Ctx, rule: str):
    rep = ctx.rep
    rep.rule(rule, "get_group_ids unions the registers of all names given, maps an unknown name to TaskGroupNotFound (<= InvalidGroupName) and changes nothing")
    for f in ctx.pool_funcs("get_group_ids"):
        g = ctx.an.cfg(f)
        sc = ctx.an.scope(f)
        va = f.node.args.vararg.arg if f.node.args.vararg else None
        effs = [e for e in ctx.func_trans_effects(f) if e.kind not in ("read",) and e.path.startswith("self")]
        rep.ob(rule, "get_group_ids does not modify the pool", not effs, func=f, construct=effs[0].node if effs else "no write effects")
        rexits = {x.tok[0].rpartition(".")[2] for x in g.raise_exits.values() if x.pred and not (x.tok[0] == KEYERROR and all(key_lookup_guarded(ctx, f, p_) for p_, _l in x.pred))}
        r_not_found_only_when_absent(ctx, rule, f, GROUPS, "TaskGroupNotFound")
        rep.ob(rule, "an unknown group name raises TaskGroupNotFound and nothing else escapes", rexits == {"TaskGroupNotFound"}, func=f, construct="raising exits", detail=str(sorted(rexits)))
        ups = ctx.distinct_sites(ctx.nodes(f, lambda n: n.op == "call" and isinstance(n.ast.func, ast.Attribute) and n.ast.func.attr in ("update", "__ior__") ))
        # every in-place set operation of the function must work on a set created here, never on a register taken from the table
        def fresh(name: str) -> bool:
            hows = sc.defs.get(name, [])
            if not hows or name in sc.params:
                return False
            for h in hows:
                v = h[1] if h[0] == "assign" else (h[2] if h[0] == "ann" else None)
                ok = isinstance(v, (ast.Set, ast.SetComp)) or (isinstance(v, ast.Call) and isinstance(v.func, ast.Name) and v.func.id in ("set", "frozenset")) or \
                    (isinstance(v, ast.BinOp) and isinstance(v.op, (ast.BitOr, ast.BitAnd, ast.Sub)))
                if not ok:
                    return False
            return True
        inplace = []
        for node in sc._own_nodes():
            if isinstance(node, ast.AugAssign) and isinstance(node.target, ast.Name):
                inplace.append((node, node.target.id))
            if isinstance(node, ast.Call) and isinstance(node.func, ast.Attribute) and node.func.attr in ("update", "add", "discard", "remove", "clear", "pop", "difference_update", "intersection_update") \
                    and isinstance(node.func.value, ast.Name):
                inplace.append((node, node.func.value.id))
        for node, nm in inplace:
            rep.ob(rule, "in-place set operations work on a set created by get_group_ids itself, never on a register of the pool", fresh(nm), func=f, construct=node,
                   detail="" if fresh(nm) else f"`{nm}` may be a live TaskGroupRegister taken from the group table: merging into it files the ids of one group under another")
        # the same union written as one comprehension: {task_id for name in group_names for task_id in <register of name>}
        comps = []
        for r in ctx.distinct_sites(ctx.nodes(f, lambda n: n.op == "return" and n.ast.value is not None)):
            v = ctx.vals.resolve(f, r.ast.value)
            if isinstance(v, ast.Call) and isinstance(v.func, ast.Name) and v.func.id in ("set", "frozenset") and len(v.args) == 1:
                v = ctx.vals.resolve(f, v.args[0])
            if isinstance(v, (ast.SetComp, ast.GeneratorExp, ast.ListComp)) and len(v.generators) == 2:
                comps.append((r, v))
        for r, v in comps:
            g1, g2 = v.generators
            outer = isinstance(g1.iter, ast.Name) and g1.iter.id == va and isinstance(g1.target, ast.Name) and not g1.ifs
            inner_ok = False
            if outer and isinstance(g2.target, ast.Name) and not g2.ifs and isinstance(v.elt, ast.Name) and v.elt.id == g2.target.id:
                for fr, env, leaf in ctx.vals.leaves(f, None, g2.iter):
                    if isinstance(leaf, ast.Call) and isinstance(leaf.func, ast.Name) and leaf.func.id in ("set", "list", "tuple", "frozenset", "iter", "sorted") and len(leaf.args) == 1:
                        leaf = leaf.args[0]
                    key = ctx.vals.trace(fr, env, leaf.slice) if isinstance(leaf, ast.Subscript) else None
                    inner_ok = isinstance(leaf, ast.Subscript) and ctx.eff.rebase(ctx.eff.paths(fr).of(leaf.value) or "", fr, env) == GROUPS \
                        and key is not None and key[0] is f and isinstance(key[2], ast.Name) and key[2].id == g1.target.id
                    if not inner_ok:
                        break
            rep.ob(rule, "the ids of every named group's register are added to the result", outer and inner_ok, node=r)
            rep.ob(rule, "the result is a fresh set (callers cannot alias a live register)", isinstance(v, ast.SetComp) or isinstance(ctx.vals.resolve(f, r.ast.value), ast.Call), node=r)
        rep.floor(rule, "union step in get_group_ids", len(ups) + len([1 for n_, _ in inplace if isinstance(n_, ast.AugAssign)]) + len(comps), 1)
        for u in ups:
            lp = u.loops[-1] if u.loops else None
            loop_ok = isinstance(lp, ast.For) and isinstance(lp.iter, ast.Name) and lp.iter.id == va and isinstance(lp.target, ast.Name)
            # what is merged: the table entry of this iteration's name - `table[name]`, or `table.get(name)` (directly, through a
            # local, or returned by a helper spliced in); that the `get` form found the name is the business of the rule above
            ls = ctx.vals.leaves_at(u, u.ast.args[0]) if u.ast.args else []
            over = bool(ls) and loop_ok
            for fr_, env_, a in ls:
                key_e = cont_e = None
                if isinstance(a, ast.Subscript):
                    cont_e, key_e = a.value, a.slice
                elif isinstance(a, ast.Call) and isinstance(a.func, ast.Attribute) and a.func.attr == "get" and 1 <= len(a.args) <= 2 and not a.keywords:
                    cont_e, key_e = a.func.value, a.args[0]
                if cont_e is None or ctx.eff.rebase(ctx.eff.paths(fr_).of(cont_e) or "", fr_, env_) != GROUPS:
                    over = False
                    break
                kf, _ke, kl = ctx.vals.trace(fr_, env_, key_e)
                if not (loop_ok and kf is f and isinstance(kl, ast.Name) and kl.id == lp.target.id):
                    over = False
                    break
            rep.ob(rule, "the ids of every named group's register are added to the result", over, node=u)
            if loop_ok:
                # ... of EVERY named group: no iteration skips the union step (e.g. for registers that are empty or small) or leaves early
                from .cancel import loop_body_always_runs
                heads_ = [h for h in ctx.nodes(f, lambda n: n.op == "iter" and n.ast is lp)]
                if heads_:
                    # (the step may exist in several copies of the flow graph - one per outcome of a helper spliced in before it: an
                    #  iteration passes through ONE of them)
                    copies_ = set(ctx.nodes(f, lambda n: n.ast is u.ast and n.op == u.op))
                    from ..queries import reach as _reach
                    from ..cfg import NORMAL_KINDS as _NK
                    starts_ = [s_ for s_, lab_ in heads_[0].succ if lab_[0] == "T"]
                    skipped_ = heads_[0] in _reach(starts_, lambda a, b, lab: lab[0] in _NK, avoid=copies_)
                    full_, why_ = loop_body_always_runs(ctx, f, heads_[0], [])
                    if skipped_:
                        full_, why_ = False, f"an iteration can skip `{u.text(50)}`"
                    rep.ob(rule, "no named group is skipped: every iteration performs the union step and the loop ends only when the names are exhausted",
                           full_, node=u, detail=why_)
            recv = u.ast.func.value
            rets = ctx.distinct_sites(ctx.nodes(f, lambda n: n.op == "return" and n.ast.value is not None))
            rep.ob(rule, "the set returned is the union that was built", all(ast.unparse(r.ast.value) == ast.unparse(recv) for r in rets) and bool(rets), node=u)
            # fresh result set (not a register itself)
            if isinstance(recv, ast.Name):
                vals = [h[1] if h[0] == "assign" else h[2] for h in sc.defs.get(recv.id, []) if h[0] in ("assign", "ann")]
                fresh = len(vals) == 1 and ((isinstance(vals[0], ast.Call) and isinstance(vals[0].func, ast.Name) and vals[0].func.id == "set" and not vals[0].args) or isinstance(vals[0], ast.Set))
                rep.ob(rule, "the result is a fresh set (callers cannot alias a live register)", fresh, node=u)


# ------------------------------------------------------------------------ C11
def r_id_discipline(ctx: Ctx, rule: str):
    rep = ctx.rep
    rep.rule(rule, "WHO(write _num_started) = {__init__ (=0), _start_task (+= 1)}; in _start_task the read into the task id and the increment "
                   "form one atomic segment, happen exactly once per started task, and the same value is used as registry key, register member, "
                   "wrapper argument, task name and return value")
    w = [e for e in ctx.effects(fields=["_num_started"], kinds=["assign", "aug"]) if e.path.endswith("._num_started")]
    rep.floor(rule, "writes of _num_started", len(w), 2)
    rep.ob(rule, "the id counter is initialised by the constructor", any(ctx.hosts_of(e.node) <= {"__init__"} and e.kind == "assign" for e in w), construct="self._num_started = 0 in __init__")
    for e in w:
        hosts = ctx.hosts_of(e.node)
        rep.ob(rule, "_num_started is written only by the constructor and _start_task", hosts <= {"__init__", "_start_task"} and ctx.in_pool(e.node.func), node=e.node,
               detail=f"on behalf of {sorted(hosts)}")
        if hosts <= {"__init__"}:
            v = getattr(e.node.ast, "value", None)
            rep.ob(rule, "ids start at 0", isinstance(v, ast.Constant) and v.value == 0 and not isinstance(v.value, bool), node=e.node)
        elif hosts <= {"_start_task"}:
            a = e.node.ast
            ok = isinstance(a, ast.AugAssign) and isinstance(a.op, ast.Add) and isinstance(a.value, ast.Constant) and a.value.value == 1
            if isinstance(a, ast.Assign):
                v = a.value
                ok = isinstance(v, ast.BinOp) and isinstance(v.op, ast.Add) and isinstance(v.right, ast.Constant) and v.right.value == 1 and \
                    (ctx.eff.paths(e.node.func).of(v.left) == NUM or (isinstance(v.left, ast.Name)))
            rep.ob(rule, "the id counter increases by exactly one", ok, node=e.node)
    for f in ctx.pool_funcs("_start_task"):
        g = ctx.an.cfg(f)
        sc = ctx.an.scope(f)
        incs = ctx.nodes(f, lambda n: n.op in ("aug", "assign") and any(e.path == NUM and e.kind in ("aug", "assign") for e in ctx.eff.of_node(n)))
        res = count_paths(ctx.an, f, lambda n: n in incs, interproc=False)
        cnt = res.get(("ret", None), frozenset())
        rep.ob(rule, "the counter is incremented exactly once per started task", cnt == frozenset({1}), func=f, construct="_num_started increments", detail=str(sorted(cnt)))
        for k, c in res.items():
            if k[0] != "ret":
                rep.ob(rule, "no id is consumed by a start that fails (ids stay dense)", c == frozenset({0}), func=f, construct=f"exit {k[0]}:{k[1][0].rpartition('.')[2]}", detail=str(sorted(c)))
        # the id: a local bound once to the counter's value (in _start_task itself or in a helper spliced into it)
        V = ctx.vals

        def counter_read(n: Node) -> bool:
            a = n.ast
            if n.op != "assign" or not isinstance(a, (ast.Assign, ast.AnnAssign)) or getattr(a, "value", None) is None:
                return False
            tg = a.targets if isinstance(a, ast.Assign) else [a.target]
            from ..cfg import strip_cast as _strip
            # a direct read of the field (not the call of a helper that reads it: the read inside the helper is the site)
            return all(isinstance(t, ast.Name) for t in tg) and isinstance(_strip(a.value), ast.Attribute) and ctx.path_at(n, a.value) == NUM

        reads = ctx.nodes(f, counter_read)
        rsites = ctx.distinct_sites(reads)
        idvars = sorted({(t.id) for r in rsites for t in (r.ast.targets if isinstance(r.ast, ast.Assign) else [r.ast.target])})
        once = len(rsites) == 1 and len(idvars) == 1 and len([b for b in (V.bindings(rsites[0].func, idvars[0]) or [None, None])
                                                                 if not (isinstance(b, ast.Constant) and b.value is None)]) == 1
        rep.ob(rule, "the task id is read from the counter", once, func=f, construct=f"id variable(s): {idvars}")
        if not once:
            continue
        from ..cfg import strip_cast as _sc
        leaf = _sc(rsites[0].ast.value)

        def is_id(n: Node, e: Optional[ast.AST]) -> bool:
            return e is not None and V.trace(n.func, n.env, e)[2] is leaf

        seg = between(reads, incs) | between(incs, reads)
        bad = [m for m in seg if ctx.effective(m) or m.user]
        rep.ob(rule, "reading the id and incrementing the counter form one atomic segment (no two tasks can read the same value)", not bad, func=f,
               construct=bad[0] if bad else "read .. increment")
        # creating the task is a point where the new task's own code may run at once (a loop with asyncio.eager_task_factory runs the
        # first step of the coroutine inside create_task): a worker that spawns into its own pool there would read the same counter value
        eager = [m for m in seg if m.op == "call" and m.callee is not None and m.callee.kind == "ext" and m.callee.name in ("asyncio.tasks.create_task", "asyncio.create_task")]
        rep.ob(rule, "the counter is incremented before the task is created (with an eager task factory the new task's first step runs inside create_task)",
               not eager, func=f, construct=eager[0] if eager else "read .. increment: no create_task")
        # read precedes increment (the id is the old value), or increment precedes read consistently minus one: only the first is accepted
        for r in reads:
            for i in incs:
                rep.ob(rule, "the id is the counter's value before the increment (first id is 0)", can_follow(r, i) and not can_follow(i, r), node=r)
        # uses
        ins = ctx.distinct_sites(ctx.nodes(f, lambda n: n.op == "assign" and any(e.kind == "insert" and e.path == RUN for e in ctx.eff.of_node(n))))
        for i in ins:
            tgt = (i.ast.targets if isinstance(i.ast, ast.Assign) else [i.ast.target])[0]
            rep.ob(rule, "the running registry is keyed by the id", isinstance(tgt, ast.Subscript) and is_id(i, tgt.slice), node=i)
        for c in ctx.distinct_sites(ctx.nodes(f, lambda n: ctx.is_call_to(n, "_task_wrapper"))):
            t = c.callee.targets[0]
            a = ctx.call_arg(c.ast, t, "task_id")
            rep.ob(rule, "the wrapper (and through it both callbacks) receives the id", is_id(c, a), node=c)
        for c in ctx.distinct_sites(ctx.nodes(f, lambda n: n.op == "call" and n.callee is not None and n.callee.kind == "ext" and n.callee.name in ("asyncio.tasks.create_task", "asyncio.create_task"))):
            nm = next((k.value for k in c.ast.keywords if k.arg == "name"), None)
            nm = V.resolve(c.func, nm) if nm is not None else None
            ok = isinstance(nm, ast.Call) and any(t.name == "_task_name" for t in ctx.an.scope(c.func).callee(nm).targets) and len(nm.args) == 1 and is_id(c, nm.args[0])
            rep.ob(rule, "the task is named with _task_name(<its id>)", ok, node=c, detail=f"name={ast.unparse(nm) if nm is not None else None}")
        for r in ctx.distinct_sites(ctx.nodes(f, lambda n: n.op == "return" and n.func is f and n.ast.value is not None)):
            rep.ob(rule, "_start_task returns the id", is_id(r, r.ast.value), node=r)


def r_name_templates(ctx: Ctx, rule: str):
    rep = ctx.rep
    rep.rule(rule, "_task_name == '<str(pool)>_Task-<id>' and __str__ == '<class name>-<name or index>' (abstract string evaluation)")
    for f in ctx.pool_funcs("_task_name"):
        idp = [p for p in f.param_names() if p != "self"][0]
        for r in ctx.distinct_sites(ctx.nodes(f, lambda n: n.op == "return" and n.ast.value is not None)):
            t = template(ctx, f, r.ast.value)
            ok = None
            if t is not None:
                ok = len(t) == 3 and t[0] == ("expr", "self") and t[1] == ("lit", "_Task-") and t[2] == ("expr", idp)
            rep.ob(rule, "task names are '<pool>_Task-<id>'", ok, node=r, detail=f"template {show(t)}")
    for f in ctx.pool_funcs("__str__"):
        for r in ctx.distinct_sites(ctx.nodes(f, lambda n: n.op == "return" and n.ast.value is not None)):
            t = template(ctx, f, r.ast.value)
            ok = None
            if t is not None:
                ok = len(t) == 3 and t[0][0] == "expr" and t[0][1] in ("self.__class__.__name__", "type(self).__name__") and t[1] == ("lit", "-") \
                    and t[2][0] == "expr" and re.sub(r"\s+", " ", t[2][1]) in ("self._name or self._idx", "self._idx if self._name is None else self._name", "self._name if self._name is not None else self._idx")
            rep.ob(rule, "pool names are '<class>-<name or index>'", ok, node=r, detail=f"template {show(t)}")


def r_instance_state(ctx: Ctx, rule: str):
    rep = ctx.rep
    rep.rule(rule, "the id counter, the registries and the pool index are per-instance fields; the class-level pool list is only appended to; "
                   "the index of a pool is the position at which it was appended")
    base = ctx.base
    for fld in ("_num_started", "_tasks_running", "_tasks_cancelled", "_tasks_ended", "_task_groups", "_idx", "_enough_room"):
        inst = any(fld in c.fields for c in ctx.pool_classes)
        clsattr = [c.qual for c in ctx.pool_classes if fld in c.class_attrs]
        init_assigned = any(fld in c.fields and c.fields[fld][2].name == "__init__" for c in ctx.pool_classes)
        rep.ob(rule, f"{fld} is an instance field initialised by the constructor (pools do not share it)", inst and init_assigned and not clsattr, construct=f"field {fld}",
               detail=f"class-level definitions: {clsattr}")
    for e in [e for e in ctx.effects(fields=["_pools"]) if e.kind not in ("read",)]:
        ok = e.kind == "insert" and e.detail == "append"
        rep.ob(rule, "the class-level list of pools is only appended to", ok, node=e.node, detail=f"{e.kind} via {e.detail}")
    for f in ctx.pool_funcs("_add_pool"):
        rets = ctx.distinct_sites(ctx.nodes(f, lambda n: n.op == "return" and n.ast.value is not None))
        apps = ctx.nodes(f, lambda n: any(e.kind == "insert" and field_of(e.path) == "_pools" for e in ctx.eff.of_node(n)))
        g = ctx.an.cfg(f)
        for r in rets:
            v = r.ast.value
            txt = ctx.vals.canon(f, v).replace(" ", "")
            ok = None
            if re.fullmatch(r"len\((cls|self)\._pools\)-1", txt):
                ok = bool(apps) and dominated_by_completion(g, apps, r)
            elif re.fullmatch(r"len\((cls|self)\._pools\)", txt) and isinstance(v, ast.Name):
                # `idx = len(pools); pools.append(pool); return idx`: the length captured BEFORE the append is the new index
                caps = [m for m in g.nodes if m.pred and m.op == "assign" and any(isinstance(t, ast.Name) and t.id == v.id for t in (m.ast.targets if isinstance(m.ast, ast.Assign) else [m.ast.target]))]
                ok = bool(apps) and bool(caps) and all(not can_follow(a, c_) for a in apps for c_ in caps) and dominated_by_completion(g, apps, r) and \
                    len(ctx.vals.bindings(f, v.id) or []) == 1
            rep.ob(rule, "_add_pool returns the index at which the pool was appended (distinct per pool)", ok, node=r)
    for f in ctx.pool_funcs("__init__"):
        if f.cls is not base:
            continue
        sc = ctx.an.scope(f)
        st = [n for n in ctx.nodes(f, lambda n: n.op == "assign" and any(e.path == "self._idx" for e in ctx.eff.of_node(n)))]
        for n in ctx.distinct_sites(st):
            v = n.ast.value
            ok = isinstance(v, ast.Call) and any(t.name == "_add_pool" for t in sc.callee(v).targets) and len(v.args) == 1 and isinstance(v.args[0], ast.Name) and v.args[0].id == sc.selfname
            rep.ob(rule, "a pool's index is what _add_pool(self) returned", ok, node=n)
        nm = [n for n in ctx.nodes(f, lambda n: n.op == "assign" and any(e.path == "self._name" for e in ctx.eff.of_node(n)))]
        for n in ctx.distinct_sites(nm):
            rep.ob(rule, "the pool's name is the constructor's `name` argument", isinstance(n.ast.value, ast.Name) and n.ast.value.id == "name", node=n)


def r_register_faithful(ctx: Ctx, rule: str):
    """The group register is the set of ids it was given: each of the five abstract methods of MutableSet does exactly the
    same-named thing on the one underlying set, and nothing else writes that set.  Everything the pool reads off a register
    (`while group_reg:`, `group_reg.pop()`, `ids.update(reg)`, `reg.add(id)`) goes through these five."""
    rep = ctx.rep
    rep.rule(rule, "REGISTER-FAITHFUL: TaskGroupRegister.__contains__/__iter__/__len__/add/discard are `x in S` / iter(S) / len(S) / S.add(x) / "
                   "S.discard(x) on the same attribute S, which only the constructor binds; the mixin methods (pop, clear, ...) are not overridden")
    c = ctx.prog.cls("internals.group_register.TaskGroupRegister")
    init = c.methods.get("__init__")
    if init is None:
        raise AnalysisError("anchor: TaskGroupRegister.__init__ missing")
    want = {"__contains__": "in", "__iter__": "iter", "__len__": "len", "add": "add", "discard": "discard"}
    store = None
    for nm, kind in want.items():
        f = c.methods.get(nm)
        if f is None:
            rep.ob(rule, f"TaskGroupRegister.{nm} is defined", False, construct=f"TaskGroupRegister.{nm}")
            continue
        body = [b for b in f.node.body if not (isinstance(b, ast.Expr) and isinstance(b.value, ast.Constant))]
        params = [p for p in f.param_names() if p != "self"]
        ok, attr = False, None
        if len(body) == 1 and isinstance(body[0], (ast.Return, ast.Expr)) and body[0].value is not None:
            v = body[0].value
            if kind == "in" and isinstance(v, ast.Compare) and len(v.ops) == 1 and isinstance(v.ops[0], ast.In) and isinstance(v.left, ast.Name) and params and v.left.id == params[0]:
                attr, ok = v.comparators[0], isinstance(body[0], ast.Return)
            elif kind in ("iter", "len") and isinstance(v, ast.Call) and isinstance(v.func, ast.Name) and v.func.id == kind and len(v.args) == 1 and not v.keywords:
                attr, ok = v.args[0], isinstance(body[0], ast.Return)
            elif kind in ("in", "iter", "len") and isinstance(v, ast.Call) and isinstance(v.func, ast.Attribute) \
                    and v.func.attr == {"in": "__contains__", "iter": "__iter__", "len": "__len__"}[kind] and not v.keywords \
                    and ((kind == "in" and len(v.args) == 1 and isinstance(v.args[0], ast.Name) and params and v.args[0].id == params[0]) or (kind != "in" and not v.args)):
                # the same operation spelled as the dunder call on the set
                attr, ok = v.func.value, isinstance(body[0], ast.Return)
            elif kind in ("add", "discard") and isinstance(v, ast.Call) and isinstance(v.func, ast.Attribute) and v.func.attr == kind and len(v.args) == 1 \
                    and isinstance(v.args[0], ast.Name) and params and v.args[0].id == params[0] and not v.keywords:
                attr, ok = v.func.value, True
        p_ = ctx.eff.paths(f).of(attr) if attr is not None else None
        ok = ok and p_ is not None and p_.startswith("self.") and p_.count(".") == 1
        if ok:
            store = store or p_
            ok = p_ == store
        rep.ob(rule, f"TaskGroupRegister.{nm} is the plain set operation on the register's own set", ok, func=f, construct=body[0] if body else f"def {nm}")
    if store is not None:
        fld = store.split(".")[1]
        writers = [e for e in ctx.eff.all() if e.kind in ("assign", "aug", "clear", "insert", "remove") and e.path == store and ctx.prog.enclosing_class(e.node.func) is c]
        for e in writers:
            nm = e.node.func.name
            okw = (nm == "__init__" and e.kind == "assign") or (nm == "add" and e.kind == "insert") or (nm == "discard" and e.kind == "remove")
            rep.ob(rule, "the underlying set is bound by the constructor and changed only by add / discard", okw, node=e.node, detail=f"{e.kind} in {nm}")
        outside = [x for m in ctx.prog.modules.values() for x in ast.walk(m.tree) if isinstance(x, ast.Attribute) and x.attr == fld and m is not c.module]
        rep.ob(rule, "no other module reaches into the register's set", not outside, construct=f"uses of .{fld} outside group_register: {len(outside)}")
    over = [m for m in ("pop", "clear", "remove", "__ior__", "__iand__", "__isub__", "__ixor__", "__eq__", "__bool__", "isdisjoint", "__le__", "__lt__", "__ge__", "__gt__") if m in c.methods]
    rep.ob(rule, "the mixin methods of MutableSet are inherited, not overridden", not over, construct="TaskGroupRegister overrides: " + (", ".join(over) or "none"))
