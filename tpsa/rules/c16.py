"""C16 — any pool can be served: handshake succeeds, full command surface."""
from .lib import Ctx
from . import control as CT


def check(ctx: Ctx) -> None:
    CT.r_handshake(ctx, "R16.1")
    CT.r_surface(ctx, "R16.2")
    CT.r_annotation_kinds(ctx, "R16.3")
    # help and usage texts reach the client only if the parser (and every sub-parser) keeps writing into the buffer the session reads
    CT.r_buffer(ctx, "R16.4")
    # a command that is listed but cannot be executed (its arguments filed under names the session does not look up) is not available
    CT.r_executable(ctx, "R16.5")
    # ... for every well-formed argument list, none at all for a variadic parameter included: the session pops every parameter, so it
    # relies on argparse filling in what the client left out (argument_default=SUPPRESS would leave it out of the namespace)
    CT.r_parser_config(ctx, "R16.6")
    CT.r_total_indexing(ctx, "R16.7")
    # every parameter of a member (but the receiver) is an argument of its command: the omitted-parameter default names 'self' and nothing else
    CT.r_omitted_params(ctx, "R16.8")
    # "a command named after it": the word the client typed is the word that is looked up (no case folding, no rewriting)
    CT.r_tokens(ctx, "R16.9")
    # "a client that connects to a control server": over the address the caller named, as the caller spelt it
    CT.r_path_as_given(ctx, "R16.10")
