"""C03 — task lifecycle and callbacks are exact and ordered."""
from .lib import Ctx
from . import shared as S
from .lifecycle import check_lifecycle


def check(ctx: Ctx) -> None:
    rep = ctx.rep
    S.r_registry_who(ctx, "R03.1")
    rep.rule("R03.2", "life-cycle typestate: at every suspension step and user-code call the task id is filed in exactly one registry; each "
                      "move is one atomic segment; callbacks run after the move, in order cancel < end, with the task's id")
    check_lifecycle(ctx, "R03.2", {"loc", "end", "cancel", "slot"})
    S.r_lifecycle_callers(ctx, "R03.4")
    S.r_wiring(ctx, "R03.5", {"END", "CANCEL"}, 12, "end/cancel callback roles")
    S.r_execute_optional(ctx, "R03.6")
    # the registries and callbacks are keyed by the task id: one id for two live tasks breaks "exactly one registry" and
    # "end callback exactly once with its id" (shared with C11)
    from . import naming as N
    N.r_id_discipline(ctx, "R03.7")
    S.r_published_before_first_step(ctx, "R03.10")
    from . import cancel as K
    K.r_cancel_targets(ctx, "R03.8")
    S.r_counters(ctx, "R03.9")
    S.r_handoff(ctx, "R02.1")
    S.r_snapshot_forget(ctx, "R13.1")
    # "... until the pool is closed": closing forgets a registry wholesale - a task forgotten while it still runs finds itself in no
    # registry when it ends, its ending raises KeyError and its end callback never runs
    from . import close as CL
    CL.r_forget_only_gathered(ctx, "R03.11")
