"""C14 — SimpleTaskPool.stop is LIFO and exact (narrow, idiom-based)."""
import ast
from typing import Optional

from ..cfg import NORMAL_KINDS
from ..queries import reach, can_follow
from .lib import RUN, Ctx
from . import shared as S
from . import cancel as K


def check(ctx: Ctx) -> None:
    rep = ctx.rep
    rep.rule("R14.1", "stop(num) draws ids from the reversed view of the running registry (insertion order = creation order), keeps a prefix "
                      "bounded by num with the bound tested before the append, passes exactly that list to self.cancel(*ids) and returns the same "
                      "list; stop_all == stop(self.num_running). Unrecognised ways of computing the prefix are inconclusive")
    from .shared import r_counters
    r_counters(ctx, "R14.4", ("num_running",))
    # "the n most recently started tasks that are still running" are read off the running registry: a task that has observed its
    # cancellation leaves that registry before any suspension / user code (life-cycle typestate, `cancel` facet)
    from .lifecycle import check_lifecycle
    rep.rule("R14.5", "a cancelled task is moved out of the running registry before its cancel callback runs (else a second stop() selects it again)")
    # ("... the newest running tasks": every entry of the running registry is a task that still runs - on every way a task can end,
    #  also by a BaseException that is not an Exception, it is moved out; a finished task left there is counted and "cancelled" by stop())
    check_lifecycle(ctx, "R14.5", {"cancel", "loc"})
    for f in ctx.pool_funcs("stop"):
        sc = ctx.an.scope(f)
        g = ctx.an.cfg(f)
        nump = [p for p in f.param_names() if p != "self"][0]
        cancels = ctx.distinct_sites(ctx.nodes(f, lambda n: ctx.is_call_to(n, "cancel")))
        rep.floor("R14.1", "delegation to cancel() in stop", len(cancels), 1)
        rets = ctx.distinct_sites(ctx.nodes(f, lambda n: n.op == "return" and n.ast.value is not None))
        for c in cancels:
            a = c.ast.args
            ok = len(a) == 1 and isinstance(a[0], ast.Starred) and isinstance(a[0].value, ast.Name) and not c.ast.keywords
            rep.ob("R14.1", "stop delegates to self.cancel(*ids) (all-or-nothing and exactness come from cancel)", ok, node=c)
            rep.ob("R14.1", "cancel is called once, outside any loop", not c.loops, node=c)
            if not ok:
                continue
            lst = a[0].value.id
            for r in rets:
                rep.ob("R14.1", "the list returned is the list of ids that was cancelled", isinstance(r.ast.value, ast.Name) and r.ast.value.id == lst, node=r)
                # a return that is not preceded by cancel() is fine only while the list is still provably empty
                fills = ctx.nodes(f, lambda n: n.op == "call" and isinstance(n.ast.func, ast.Attribute) and isinstance(n.ast.func.value, ast.Name) and n.ast.func.value.id == lst
                                  and n.ast.func.attr in ("append", "extend", "insert"))
                for rc in [x for x in g.nodes if x.ast is r.ast and x.op == "return" and x.pred]:
                    early = rc in reach([g.entry], avoid={c})
                    ok = (not early) or not any(can_follow(fl, rc) for fl in fills)
                    rep.ob("R14.1", "stop returns ids only after cancel() succeeded for them", ok, node=rc)
            bad_test = id_value_steers(ctx, f)
            if bad_test is not None:
                rep.ob("R14.1", "the selection never depends on the value of an id (running ids have gaps: only the number of ids collected may bound it)", False, node=bad_test[0],
                       detail=f"`{bad_test[1]}` is (computed from) an id drawn from the running registry; after tasks ended or were cancelled individually the ids are not "
                              "contiguous, so an id threshold selects fewer tasks than asked for")
            verdict, why = prefix_idiom(ctx, f, lst, nump)
            if bad_test is not None and verdict is None:
                verdict, why = False, "the selection is steered by the value of an id"
            rep.ob("R14.1", "the ids are the first min(num, running) of the running registry in reverse insertion order", verdict, func=f,
                   construct=f"computation of `{lst}`", detail=why)
            # the list is not modified between being computed and being returned, other than by the recognised construction
            muts = ctx.nodes(f, lambda n: n.op == "call" and isinstance(n.ast.func, ast.Attribute) and isinstance(n.ast.func.value, ast.Name) and n.ast.func.value.id == lst
                             and n.ast.func.attr in ("sort", "reverse", "pop", "remove", "insert", "extend", "clear"))
            rep.ob("R14.1", "the id list is not reordered or trimmed afterwards", not muts, func=f, construct=muts[0] if muts else f"{lst}: no further mutation")
    for f in ctx.pool_funcs("stop_all"):
        rets = ctx.distinct_sites(ctx.nodes(f, lambda n: n.op == "return" and n.ast.value is not None))
        for r in rets:
            v = ctx.vals.resolve(f, r.ast.value)
            ok = None
            if isinstance(v, ast.Call) and any(t.name == "stop" for t in ctx.an.scope(f).callee(v).targets) and len(v.args) == 1:
                txt = ctx.vals.canon(f, v.args[0]).replace(" ", "")
                ok = txt in ("self.num_running", "len(self._tasks_running)")
            rep.ob("R14.1", "stop_all() == stop(number of running tasks)", ok, node=r)
    rep.rule("R14.2", "premise of 'reversed(running) is newest first': the running registry keeps creation order - entries are inserted only by _start_task "
                      "(in id order) and the dict is never rebuilt, re-bound or re-ordered by anyone but the constructor")
    n = 0
    for e in ctx.effects(fields=["_tasks_running"], kinds=["insert", "assign", "aug", "reorder", "maybe-update"]):
        if not e.path.endswith("._tasks_running"):
            continue
        n += 1
        hosts = ctx.hosts_of(e.node)
        if e.kind == "insert":
            rep.ob("R14.2", "tasks are filed as running only by _start_task, i.e. in creation order", hosts <= {"_start_task"}, node=e.node, detail=f"on behalf of {sorted(hosts)}")
        else:
            rep.ob("R14.2", "the running registry is never rebuilt or re-bound after construction (its iteration order is the start order)", hosts <= {"__init__"}, node=e.node,
                   detail=f"{e.kind} on behalf of {sorted(hosts)}")
    rep.floor("R14.2", "inserts/bindings of the running registry", n, 2)
    K.r_two_phase(ctx, "R06.1")
    K.r_who_cancel(ctx, "R06.3")
    S.r_handoff(ctx, "R02.1")
    # stop() reads the running registry: a task overwritten by another one with the same id can never be stopped (id discipline shared with C11)
    from . import naming as _N
    _N.r_id_discipline(ctx, "R14.9")
    K.r_no_swallow(ctx, "R14.10")
def id_value_steers(ctx: Ctx, f):
    """(test step, variable) when a test of stop() - or of a helper spliced into it - compares by order, or after arithmetic, a value
    that is an id drawn from the running registry; None otherwise.  Positive rule, independent of how the list is built."""
    def source_is_running(fr, env, e: ast.AST, depth=0) -> bool:
        e = ctx.vals.resolve(fr, e) if isinstance(e, ast.Name) else e
        while isinstance(e, ast.Call) and isinstance(e.func, ast.Name) and e.func.id in ("reversed", "iter", "list", "tuple", "sorted", "enumerate", "next") and e.args:
            e = e.args[0]
            e = ctx.vals.resolve(fr, e) if isinstance(e, ast.Name) else e
        if isinstance(e, ast.Call) and isinstance(e.func, ast.Attribute) and e.func.attr == "keys":
            e = e.func.value
        p = ctx.eff.paths(fr).of(e)
        return p is not None and ctx.eff.rebase(p, fr, env) == RUN

    frames = {}
    for n in ctx.nodes(f, lambda n: True):
        frames.setdefault(n.func.qual, (n.func, n.env))
    tainted = set()  # (frame qual, local) holding an id or a number computed from one
    for q, (fr, env) in frames.items():
        sc = ctx.an.scope(fr)
        changed = True
        rounds = 0
        while changed and rounds < 6:
            changed = False
            rounds += 1
            for name, hows in sc.defs.items():
                if (q, name) in tainted:
                    continue
                for h in hows:
                    hit = False
                    if h[0] == "iter" and source_is_running(fr, env, h[1]) and not (isinstance(h[1], ast.Call) and isinstance(h[1].func, ast.Name) and h[1].func.id == "enumerate"):
                        hit = True
                    elif h[0] == "elt" and h[1][0] == "iter" and isinstance(h[1][1], ast.Call) and isinstance(h[1][1].func, ast.Name) and h[1][1].func.id == "enumerate" \
                            and h[2] == 1 and source_is_running(fr, env, h[1][1]):
                        hit = True
                    elif h[0] in ("assign", "ann"):
                        v = h[1] if h[0] == "assign" else h[2]
                        if isinstance(v, ast.Call) and isinstance(v.func, ast.Name) and v.func.id == "next" and v.args and source_is_running(fr, env, v.args[0]):
                            hit = True
                        elif v is not None and isinstance(v, (ast.BinOp, ast.UnaryOp, ast.Name)) and any(isinstance(x, ast.Name) and (q, x.id) in tainted for x in ast.walk(v)):
                            hit = True
                        elif v is not None and isinstance(v, ast.Call) and isinstance(v.func, ast.Name) and v.func.id in ("min", "max") \
                                and any(isinstance(x, ast.Name) and (q, x.id) in tainted for x in ast.walk(v)):
                            hit = True
                    if hit:
                        tainted.add((q, name))
                        changed = True
                        break
    for t in ctx.nodes(f, lambda n: n.op == "test"):
        for c in ast.walk(t.ast):
            if isinstance(c, ast.Compare) and any(isinstance(o, (ast.Lt, ast.LtE, ast.Gt, ast.GtE)) for o in c.ops):
                for x in ast.walk(c):
                    if isinstance(x, ast.Name) and (t.func.qual, x.id) in tainted:
                        return t, x.id
        # the truth value of an id is a statement about its value too: the first task of a pool has id 0
        e = t.ast
        while isinstance(e, ast.UnaryOp) and isinstance(e.op, ast.Not):
            e = e.operand
        for x in ([e] if not isinstance(e, ast.BoolOp) else list(e.values)):
            while isinstance(x, ast.UnaryOp) and isinstance(x.op, ast.Not):
                x = x.operand
            if isinstance(x, ast.Name) and (t.func.qual, x.id) in tainted:
                return t, x.id
    return None


def is_len_of(e: ast.AST, name: str) -> bool:
    return isinstance(e, ast.Call) and isinstance(e.func, ast.Name) and e.func.id == "len" and len(e.args) == 1 and isinstance(e.args[0], ast.Name) and e.args[0].id == name


def prefix_idiom(ctx: Ctx, f, lst: Optional[str], nump: str, frame=None, env=None, _depth: int = 0, value: Optional[ast.AST] = None):
    """True / False / None(inconclusive) + explanation.  (frame, env): the function whose local `lst` is - stop itself, or a
    helper spliced into it that computes the list and returns it."""
    from ..cfg import bind_args, strip_cast

    frame = frame or f
    sc = ctx.an.scope(frame)
    if value is not None:
        v = strip_cast(value)  # (the list is the expression a helper returns)
    else:
        hows = sc.defs.get(lst, [])
        vals = [h[1] for h in hows if h[0] == "assign"] + [h[2] for h in hows if h[0] == "ann"]
        if len(vals) != 1:
            return None, "the id list has several definitions"
        v = strip_cast(vals[0])
    if isinstance(v, ast.Call) and id(v) in ctx.an.spliced_at and _depth < 3:
        t = ctx.an.spliced_at[id(v)]
        sub = bind_args(v, t, frame, env)
        rets = [r.value for r in ctx.an.scope(t)._own_nodes() if isinstance(r, ast.Return) and r.value is not None]
        names = {r.id for r in rets if isinstance(r, ast.Name)}
        nump2 = next((pn for pn, (_c, arg, _e) in sub.items() if isinstance(arg, ast.Name) and arg.id == nump), None)
        if len(names) == 1 and len(rets) == len([r for r in rets if isinstance(r, ast.Name)]) and nump2 is not None:
            return prefix_idiom(ctx, f, names.pop(), nump2, t, sub, _depth + 1)
        if len(rets) == 1 and not isinstance(rets[0], ast.Name) and nump2 is not None:
            return prefix_idiom(ctx, f, None, nump2, t, sub, _depth + 1, value=rets[0])
        return None, "the id list comes from a helper whose result is not understood"

    class _P:
        @staticmethod
        def of(x):
            p = ctx.eff.paths(frame).of(x)
            return ctx.eff.rebase(p, frame, env) if p is not None else None
    P = _P

    def live_value(e: ast.AST) -> ast.AST:
        """a local of this frame -> the value of its only binding that is reachable in stop's flow graph (the frame may be a helper
        spliced in with a literal flag: the other arm of `if flag:` is not there)"""
        e = strip_cast(e)
        for _ in range(4):
            if not (isinstance(e, ast.Name) and e.id in sc.defs and e.id not in sc.params):
                break
            live = ctx.distinct_sites(ctx.nodes(f, lambda n: n.op == "assign" and n.func is frame and isinstance(n.ast, (ast.Assign, ast.AnnAssign))
                                                and any(isinstance(t_, ast.Name) and t_.id == e.id for t_ in (n.ast.targets if isinstance(n.ast, ast.Assign) else [n.ast.target]))))
            if len(live) != 1 or live[0].ast.value is None or live[0].loops:
                break
            e = strip_cast(live[0].ast.value)
        if isinstance(e, ast.IfExp):
            # `a if flag else b` with a flag this call site passes as a literal: the arm it selects
            t_, neg = e.test, False
            while isinstance(t_, ast.UnaryOp) and isinstance(t_.op, ast.Not):
                t_, neg = t_.operand, not neg
            if isinstance(t_, ast.Name):
                _f, _e, leaf = ctx.vals.trace(frame, env, t_)
                if isinstance(leaf, ast.Constant) and isinstance(leaf.value, bool):
                    return live_value(e.body if leaf.value != neg else e.orelse)
        return e

    def reversed_running(e: ast.AST) -> Optional[bool]:
        """True: reversed view of the running registry; False: the registry in another order; None: something else"""
        e = live_value(e)
        if isinstance(e, ast.Name) and e.id in sc.params and env and e.id in env and not sc.defs.get(e.id):
            # a parameter of the helper that builds the list (`first_n(iterable, num)`): what the call passes for it
            fr2, env2, leaf = ctx.vals.trace(frame, env, e)
            if fr2 is not frame:
                class _P2:
                    @staticmethod
                    def of(x):
                        p_ = ctx.eff.paths(fr2).of(x)
                        return ctx.eff.rebase(p_, fr2, env2) if p_ is not None else None
                nonlocal P
                saved, P = P, _P2
                try:
                    return reversed_running(leaf) if not isinstance(leaf, ast.Name) or leaf is not e else None
                finally:
                    P = saved
        if isinstance(e, ast.Call) and isinstance(e.func, ast.Name) and e.func.id == "reversed" and len(e.args) == 1:
            inner = e.args[0]
            if isinstance(inner, ast.Call) and isinstance(inner.func, ast.Name) and inner.func.id in ("list", "tuple") and len(inner.args) == 1:
                inner = inner.args[0]
            if isinstance(inner, ast.Call) and isinstance(inner.func, ast.Attribute) and inner.func.attr == "keys":
                inner = inner.func.value
            return True if P.of(inner) == RUN and not isinstance(inner, ast.Call) or P.of(inner) == RUN else None
        if isinstance(e, ast.Subscript) and isinstance(e.slice, ast.Slice) and e.slice.lower is None and e.slice.upper is None and isinstance(e.slice.step, ast.UnaryOp) \
                and isinstance(e.slice.step.op, ast.USub) and isinstance(e.slice.step.operand, ast.Constant) and e.slice.step.operand.value == 1:
            inner = e.value
            if isinstance(inner, ast.Call) and isinstance(inner.func, ast.Name) and inner.func.id in ("list", "tuple") and len(inner.args) == 1:
                inner = inner.args[0]
            return True if P.of(inner) == RUN else None
        p = P.of(e)
        if p == RUN:
            return False
        if isinstance(e, ast.Call) and isinstance(e.func, ast.Name) and e.func.id in ("sorted", "list", "iter", "tuple") and e.args and P.of(e.args[0]) == RUN:
            return False
        return None

    # idiom 1: ids = []; for i, task_id in enumerate(<reversed running>): if i >= num: break; ids.append(task_id)
    if (isinstance(v, ast.List) and not v.elts) or (isinstance(v, ast.Call) and isinstance(v.func, ast.Name) and v.func.id == "list" and not v.args):
        apps = ctx.distinct_sites(ctx.nodes(f, lambda n: n.op == "call" and n.func is frame and isinstance(n.ast.func, ast.Attribute) and n.ast.func.attr == "append"
                                            and isinstance(n.ast.func.value, ast.Name) and n.ast.func.value.id == lst))
        if len(apps) != 1 or not apps[0].loops:
            return None, "the id list is not built by a single append in a loop"
        a = apps[0]
        lp = a.loops[-1]
        if not isinstance(lp, ast.For):
            return None, "not a for loop"
        it = lp.iter
        enumerated = isinstance(it, ast.Call) and isinstance(it.func, ast.Name) and it.func.id == "enumerate" and len(it.args) == 1 and not it.keywords
        if not enumerated:
            if isinstance(lp.target, ast.Name):
                ev = lp.target.id
                for t in ctx.nodes(f, lambda n: n.op == "test" and n.loops and n.loops[-1] is lp):
                    if any(isinstance(x, ast.Name) and x.id == ev for x in ast.walk(t.ast)):
                        return False, (f"the selection depends on the value of the id (`{ast.unparse(t.ast)}`); running ids have gaps after tasks end or are cancelled by id, "
                                       "only the number of ids collected may bound the loop")
            # idiom 1b: the number collected so far is len(<list>)
            counts_len = isinstance(lp.target, ast.Name) and any(
                isinstance(t.ast, ast.Compare) and is_len_of(t.ast.left, lst) for t in ctx.nodes(f, lambda n: n.op == "test" and n.loops and n.loops[-1] is lp))
            if not counts_len:
                return None, "the loop does not count with enumerate(...) or len(<id list>)"
        src = it.args[0] if enumerated else it
        src = ctx.vals.resolve(frame, src)  # `newest_first = reversed(self._tasks_running)`
        rv = reversed_running(src)
        if rv is None:
            return None, f"cannot classify the source {ast.unparse(src)}"
        if rv is False:
            return False, f"the ids are drawn from {ast.unparse(src)}, not from the reversed running registry (not LIFO)"
        if enumerated:
            if not (isinstance(lp.target, ast.Tuple) and len(lp.target.elts) == 2 and all(isinstance(x, ast.Name) for x in lp.target.elts)):
                return None, "unexpected loop target"
            ivar, idvar = lp.target.elts[0].id, lp.target.elts[1].id
        else:
            ivar, idvar = None, lp.target.id

        def is_counter(e: ast.AST) -> bool:
            return (isinstance(e, ast.Name) and e.id == ivar) if enumerated else is_len_of(e, lst)
        arg = a.ast.args[0] if a.ast.args else None
        if not (isinstance(arg, ast.Name) and arg.id == idvar):
            return False, "the value appended is not the id drawn in this iteration"
        # bound test before the append
        g = ctx.an.cfg(f)
        tests = [n for n in ctx.nodes(f, lambda n: n.op == "test" and n.loops and n.loops[-1] is lp and isinstance(n.ast, ast.Compare))]
        good = None

        def bound_is_num(x: ast.AST, _d: int = 0):
            """True: the bound is the num parameter for every int; a string: why it is not; None: something else"""
            x = strip_cast(x)
            if isinstance(x, ast.Name) and x.id == nump and frame_has_param(x.id):
                return True
            if _d > 4:
                return None
            if isinstance(x, ast.Name):
                bs = ctx.vals.bindings(frame, x.id) or []
                if len(bs) != 1:
                    return None
                return bound_is_num(bs[0], _d + 1)
            if isinstance(x, ast.BoolOp) and isinstance(x.op, ast.Or) and bound_is_num(x.values[0], _d + 1) is True:
                return (f"the bound is `{ast.unparse(x)}`: an explicit {nump}=0 is falsy and is replaced by the fallback, so a request to stop "
                        "no task stops tasks")
            if isinstance(x, ast.IfExp):
                t_ = x.test
                if isinstance(t_, ast.Compare) and len(t_.ops) == 1 and isinstance(t_.comparators[0], ast.Constant) and t_.comparators[0].value is None \
                        and isinstance(t_.left, ast.Name) and t_.left.id == nump:
                    chosen = x.body if isinstance(t_.ops[0], ast.IsNot) else (x.orelse if isinstance(t_.ops[0], ast.Is) else None)
                    return bound_is_num(chosen, _d + 1) if chosen is not None else None
                if isinstance(t_, ast.Name) and t_.id == nump and bound_is_num(x.body, _d + 1) is True:
                    return f"the bound is `{ast.unparse(x)}`: an explicit {nump}=0 is falsy and takes the fallback"
            return None

        def frame_has_param(name: str) -> bool:
            return name in frame.param_names()

        loop_heads = {h for h in g.nodes if h.op == "iter" and h.ast is lp}
        bound_exits = set()  # steps on the branch taken once the bound is reached (break, or continue: the counter only grows)
        for t in tests:
            c = t.ast
            if len(c.ops) == 1 and is_counter(c.left):
                b = bound_is_num(c.comparators[0])
                if isinstance(b, str):
                    return False, b
                if b is not True:
                    continue
                if isinstance(c.ops[0], ast.GtE):
                    leaves = [s for s, lab in t.succ if lab[0] == "T"]
                    # the true branch must end the iteration without appending (`break`, or `continue`: the count never shrinks)
                    r = reach(leaves, lambda x, y, lab: lab[0] in NORMAL_KINDS, avoid=loop_heads)
                    bound_exits |= r
                    if a in r:
                        good = False
                    else:
                        good = a not in reach([g.entry], avoid={t})  # the append is dominated by the test
                elif isinstance(c.ops[0], (ast.Gt, ast.Eq, ast.LtE, ast.Lt)):
                    if isinstance(c.ops[0], ast.Lt):
                        stays = [s for s, lab in t.succ if lab[0] == "T"]
                        good = a in reach(stays, lambda x, y, lab: lab[0] in NORMAL_KINDS) and a not in reach([g.entry], avoid={t})
                        # and the false branch leaves the loop
                        other = [s for s, lab in t.succ if lab[0] == "F"]
                        if a in reach(other, lambda x, y, lab: lab[0] in NORMAL_KINDS):
                            good = False
                    else:
                        good = False
        if good is None:
            return (False, "the number of ids collected is not bounded by num") if not tests else (None, "unrecognised bound test")
        if good is False:
            return False, "the bound is tested after the append, or with the wrong comparison (off by one)"
        # ids are opaque labels with gaps: the element itself must not steer the selection
        for t in tests:
            if any(isinstance(x, ast.Name) and x.id == idvar for x in ast.walk(t.ast)):
                return False, f"the selection depends on the value of the id (`{ast.unparse(t.ast)}`); running ids have gaps, only the number collected may bound the loop"
        # every iteration before the bound appends (no other skip)
        heads = [h for h in g.nodes if h.pred and h.op == "iter" and h.ast is lp]
        others = [n for n in ctx.nodes(f, lambda n: n.op in ("continue",) and n.loops and n.loops[-1] is lp) if n not in bound_exits]
        if others:
            return None, "the loop skips some ids"
        return True, "enumerate(reversed(running)) with `i >= num: break` before the append"
    # idiom 2: list(islice(reversed(running), max(num, 0)))  /  list(reversed(running))[:max(num, 0)]
    e = v
    if isinstance(e, ast.Call) and isinstance(e.func, ast.Name) and e.func.id == "list" and len(e.args) == 1:
        e = e.args[0]

    def nonneg_num(x: ast.AST) -> Optional[bool]:
        x = live_value(x)
        if isinstance(x, ast.Call) and isinstance(x.func, ast.Name) and x.func.id == "min" and len(x.args) == 2 and not x.keywords:
            # min(max(num, 0), len(running)): capping the bound at the number of running tasks changes nothing
            for a_, b_ in (x.args, x.args[::-1]):
                if isinstance(b_, ast.Call) and isinstance(b_.func, ast.Name) and b_.func.id == "len" and len(b_.args) == 1 and P.of(b_.args[0]) == RUN:
                    return nonneg_num(a_)
            return None
        txt = ast.unparse(x).replace(" ", "")
        if txt in (f"max({nump},0)", f"max(0,{nump})"):
            return True
        if txt == nump:
            return False  # negative num would slice from the end / raise in islice
        return None
    if isinstance(e, ast.Call) and ctx.an.scope(f).callee(e).name.endswith("islice") and len(e.args) == 2:
        rv, nn = reversed_running(e.args[0]), nonneg_num(e.args[1])
        if rv is None or nn is None:
            return None, "unrecognised islice arguments"
        return (rv and nn), "islice(reversed(running), max(num, 0))" if rv and nn else "islice over the wrong order or with a possibly negative bound"
    if isinstance(e, ast.Subscript) and isinstance(e.slice, ast.Slice) and e.slice.lower is None and e.slice.step is None and e.slice.upper is not None:
        rv, nn = reversed_running(e.value.args[0] if isinstance(e.value, ast.Call) and isinstance(e.value.func, ast.Name) and e.value.func.id == "list" and e.value.args else e.value), nonneg_num(e.slice.upper)
        if rv is None or nn is None:
            return None, "unrecognised slice"
        return (rv and nn), "list(reversed(running))[:max(num, 0)]" if rv and nn else "slice over the wrong order or with a possibly negative bound"
    # idiom 3: [task_id for _, task_id in takewhile(lambda pair: pair[0] < num, enumerate(reversed(running)))]
    if isinstance(e, (ast.ListComp, ast.GeneratorExp)) and len(e.generators) == 1 and not e.generators[0].ifs:
        gen = e.generators[0]
        src = live_value(gen.iter)
        pred = src.args[0] if isinstance(src, ast.Call) and len(src.args) == 2 else None
        if isinstance(pred, ast.Name):
            # a local `def still_wanted(pair): return <condition>` used as the predicate reads like the lambda it is
            defs_ = [x for x in ast.walk(frame.node) if isinstance(x, ast.FunctionDef) and x.name == pred.id]
            body_ = [b for b in defs_[0].body if not (isinstance(b, ast.Expr) and isinstance(b.value, ast.Constant))] if len(defs_) == 1 else []
            if len(body_) == 1 and isinstance(body_[0], ast.Return) and body_[0].value is not None and not defs_[0].decorator_list:
                pred = ast.copy_location(ast.Lambda(args=defs_[0].args, body=body_[0].value), defs_[0])
        if isinstance(src, ast.Call) and ctx.an.scope(f).callee(src).name.endswith("takewhile") and len(src.args) == 2 and isinstance(pred, ast.Lambda):
            lam, inner = pred, live_value(src.args[1])
            pair_ok = isinstance(gen.target, ast.Tuple) and len(gen.target.elts) == 2 and all(isinstance(x, ast.Name) for x in gen.target.elts) \
                and isinstance(e.elt, ast.Name) and e.elt.id == gen.target.elts[1].id
            enum_ok = isinstance(inner, ast.Call) and isinstance(inner.func, ast.Name) and inner.func.id == "enumerate" and len(inner.args) == 1 and not inner.keywords
            if pair_ok and enum_ok and len(lam.args.args) == 1 and not (lam.args.vararg or lam.args.kwarg or lam.args.kwonlyargs):
                rv = reversed_running(inner.args[0])
                p_ = lam.args.args[0].arg
                c = lam.body

                def is_index(x: ast.AST) -> bool:
                    return isinstance(x, ast.Subscript) and isinstance(x.value, ast.Name) and x.value.id == p_ and isinstance(x.slice, ast.Constant) and x.slice.value == 0

                def is_num(x: ast.AST) -> bool:
                    return isinstance(x, ast.Name) and x.id == nump and x.id in frame.param_names()

                bound = None
                neg_ = False
                while isinstance(c, ast.UnaryOp) and isinstance(c.op, ast.Not):
                    c, neg_ = c.operand, not neg_
                if isinstance(c, ast.Compare) and len(c.ops) == 1:
                    l_, r_ = c.left, c.comparators[0]
                    op_ = type(c.ops[0])
                    if neg_:
                        op_ = {ast.GtE: ast.Lt, ast.Gt: ast.LtE, ast.Lt: ast.GtE, ast.LtE: ast.Gt}.get(op_, type(None))
                    if is_index(l_) and is_num(r_):
                        bound = op_ is ast.Lt
                    elif is_num(l_) and is_index(r_):
                        bound = op_ is ast.Gt
                if rv is None or bound is None:
                    return None, "unrecognised takewhile arguments"
                return (rv and bound), ("takewhile(index < num) over enumerate(reversed(running))" if rv and bound
                                        else "takewhile over the wrong order or with the wrong comparison (off by one)")
    # positively wrong: the ids are enumerated arithmetically (range(...), id +/- k) instead of being drawn from the registry
    arith = arithmetic_ids(ctx, frame, env, v)
    if arith is not None:
        return False, (f"the ids are computed arithmetically (`{arith}`), not drawn from the running registry: running ids have gaps after tasks ended or were "
                       "cancelled individually, so counting ids down skips running tasks or spends the budget on tasks that are gone")
    return None, "unrecognised way of computing the id list"


def arithmetic_ids(ctx: Ctx, frame, env, e: ast.AST, _depth: int = 0) -> Optional[str]:
    """The text of a `range(...)` call that the id list's elements are drawn from (through comprehensions, list()/sorted()
    wrappers, locals and the results of helpers spliced in), else None."""
    from ..cfg import bind_args, strip_cast

    if e is None or _depth > 6:
        return None
    e = strip_cast(e)
    if isinstance(e, ast.Call) and isinstance(e.func, ast.Name) and e.func.id == "range":
        return " ".join(ast.unparse(e).split())[:80]
    if isinstance(e, (ast.ListComp, ast.SetComp, ast.GeneratorExp)):
        for gen in e.generators:
            r = arithmetic_ids(ctx, frame, env, gen.iter, _depth + 1)
            if r:
                return r
        return None
    if isinstance(e, ast.Call) and isinstance(e.func, ast.Name) and e.func.id in ("list", "tuple", "sorted", "reversed", "iter", "set") and e.args:
        return arithmetic_ids(ctx, frame, env, e.args[0], _depth + 1)
    if isinstance(e, ast.Subscript):
        return arithmetic_ids(ctx, frame, env, e.value, _depth + 1)
    if isinstance(e, ast.IfExp):
        return arithmetic_ids(ctx, frame, env, e.body, _depth + 1) or arithmetic_ids(ctx, frame, env, e.orelse, _depth + 1)
    if isinstance(e, ast.Name):
        for b in ctx.vals.bindings(frame, e.id) or []:
            r = arithmetic_ids(ctx, frame, env, b, _depth + 1)
            if r:
                return r
        return None
    if isinstance(e, ast.Call) and id(e) in ctx.an.spliced_at:
        t = ctx.an.spliced_at[id(e)]
        sub = bind_args(e, t, frame, env)
        for r_ in ctx.an.scope(t)._own_nodes():
            if isinstance(r_, ast.Return) and r_.value is not None:
                r = arithmetic_ids(ctx, t, sub, r_.value, _depth + 1)
                if r:
                    return r
    return None
