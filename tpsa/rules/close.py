"""gather_and_close / flush rules (C08, C12, C13)."""
from __future__ import annotations

import ast
import re
from typing import Dict, List, Optional, Set

from ..cfg import NORMAL_KINDS, Label, Node, literal_true, strip_cast
from ..exc import CANCELLED, EXCEPTION
from ..model import FuncInfo
from ..queries import between, can_follow, reach
from .lib import CAN, END, GATHER, META_CAN, META_RUN, RUN, Ctx, dominated_by_completion, field_of
from .shared import expr_role


class _Delegated:
    """A wait performed by a package helper on behalf of f: looks like a gather node located at the await of the helper."""
    def __init__(self, node: Node, fields: Set[str], re_expr, swallowed: bool, inner: Node):
        self.node, self.fields, self.re_expr, self.swallowed, self.inner = node, fields, re_expr, swallowed, inner


_deleg: Dict[int, List[_Delegated]] = {}


def _own_gathers(ctx: Ctx, f: FuncInfo) -> List[Node]:
    return ctx.distinct_sites(ctx.nodes(f, lambda n: ctx.is_ext_await(n, *GATHER)))


def _own_fields(ctx: Ctx, f: FuncInfo, g: Node, bind: Optional[Dict[str, Set[str]]] = None) -> Set[str]:
    from .shared import _local_sources

    call = strip_cast(g.ast.value)
    out = set()
    for a in call.args:
        inner = a.value if isinstance(a, ast.Starred) else a
        if isinstance(inner, ast.Name) and inner.id in ctx.an.scope(g.func).defs and inner.id not in ctx.an.scope(g.func).params:
            # a local collection: everything that flows into it
            srcs = _local_sources(ctx, g.func, g.env, inner.id)
            if srcs:
                out |= {field_of(x) for x in srcs}
                continue
        p = ctx.path_at(g, a)
        if p is None or p.startswith("<ret:"):
            # an expression: every registry it draws from (chain(...), helper results, unions)
            from .shared import expr_sources

            flds = {field_of(x) for x in expr_sources(ctx, g.func, g.env, inner)}
            out |= {x for x in flds if x}
            continue
        if bind is not None and p.startswith("<") and p.strip("<>[]") in bind:
            out |= bind[p.strip("<>[]")]
        else:
            out.add(field_of(p))
    return out


def gathers(ctx: Ctx, f: FuncInfo, _depth: int = 0) -> List[Node]:
    """gather awaits of f, plus - represented by the awaiting step in f - the gathers of package helpers f awaits"""
    out = list(_own_gathers(ctx, f))
    if _depth > 2:
        return out
    P = ctx.eff.paths(f)
    for n in ctx.distinct_sites(ctx.nodes(f, lambda n: n.op == "await" and n.awaited is not None and n.awaited.kind == "pkg" and n.inlined is None)):
        call = strip_cast(n.ast.value)
        for h in n.awaited.targets:
            if h.name in ("flush", "gather_and_close") or not ctx.in_pool(h):
                continue
            inner = _own_gathers(ctx, h)
            if not inner:
                continue
            bind: Dict[str, Set[str]] = {}
            re_bind = {}
            for pname in h.param_names():
                a = ctx.call_arg(call, h, pname)
                if a is None:
                    continue
                pa = P.of(a)
                if pa is not None:
                    bind[pname] = {field_of(pa)}
                re_bind[pname] = a
            hg = ctx.an.cfg(h)
            for ig in inner:
                flds = _own_fields(ctx, h, ig, bind)
                re_ = None
                icall = strip_cast(ig.ast.value)
                for k in icall.keywords:
                    if k.arg == "return_exceptions":
                        re_ = k.value
                if isinstance(re_, ast.Name) and re_.id in re_bind:
                    re_ = re_bind[re_.id]
                    re_owner = f
                sw = False
                for c in [x for x in hg.nodes if x.ast is ig.ast and x.op == "await" and x.pred]:
                    for s2, lab in c.succ:
                        if lab[0] == "x" and s2.op in ("suppressed", "handler") and hg.exit in reach([s2], lambda a_, b_, l_: l_[0] in NORMAL_KINDS):
                            sw = True
                d = _Delegated(n, flds, re_, sw, ig)
                lst = _deleg.setdefault(id(n), [])
                if not any(x.inner.ast is ig.ast for x in lst):
                    lst.append(d)
                out.append(n)
    return ctx.distinct_sites(out)


def gather_fields(ctx: Ctx, f: FuncInfo, g: Node) -> Set[str]:
    if id(g) in _deleg and not ctx.is_ext_await(g, *GATHER):
        return set().union(*[d.fields for d in _deleg[id(g)]])
    return _own_fields(ctx, f, g)


def gather_re(ctx: Ctx, f: FuncInfo, g: Node):
    if id(g) in _deleg and not ctx.is_ext_await(g, *GATHER):
        res = [d.re_expr for d in _deleg[id(g)]]
        for r in res:
            if not literal_true(r):
                return r
        return res[0] if res else None
    call = strip_cast(g.ast.value)
    for k in call.keywords:
        if k.arg == "return_exceptions":
            return k.value
    return None


SPAWNER_FIELDS = {"_meta_tasks_cancelled", "_group_meta_tasks_running"}
TASK_FIELDS = {"_tasks_ended", "_tasks_cancelled", "_tasks_running"}


def r_close_order(ctx: Ctx, rule: str):
    rep = ctx.rep
    rep.rule(rule, "order in gather_and_close: lock() -> wait for all spawners -> wait for the tasks of all three registries -> forget -> "
                   "_closed.set(); WHO(_closed.set) = {gather_and_close}; WHO(_closed.clear) is empty; until_closed only waits")
    sets = [e for e in ctx.effects(fields=["_closed"], kinds=["set", "clear", "assign", "maybe-set", "maybe-clear"]) if e.path.endswith("._closed")]
    rep.floor(rule, "writes of the closed event", len(sets), 2)
    for e in sets:
        hosts = ctx.hosts_of(e.node)
        if e.kind in ("set", "maybe-set"):
            rep.ob(rule, "the pool is closed only by gather_and_close", hosts <= {"gather_and_close"}, node=e.node)
        elif e.kind in ("clear", "maybe-clear"):
            rep.ob(rule, "a closed pool is never re-opened", False, node=e.node)
        else:
            rep.ob(rule, "the closed event is created once by the constructor", hosts <= {"__init__"}, node=e.node)
    for f in ctx.pool_funcs("gather_and_close"):
        g = ctx.an.cfg(f)
        gs = gathers(ctx, f)
        sp = [x for x in gs if gather_fields(ctx, f, x) & SPAWNER_FIELDS]
        tk = [x for x in gs if gather_fields(ctx, f, x) & TASK_FIELDS]
        rep.floor(rule, "spawner waits in gather_and_close", len(sp), 1)
        rep.floor(rule, "task waits in gather_and_close", len(tk), 1)
        sp_fields = set().union(*[gather_fields(ctx, f, x) for x in sp]) if sp else set()
        tk_fields = set().union(*[gather_fields(ctx, f, x) for x in tk]) if tk else set()
        rep.ob(rule, "cancelled and running spawners are both waited for", SPAWNER_FIELDS <= sp_fields, func=f, construct="spawner gathers",
               detail=f"gathered: {sorted(sp_fields)}")
        rep.ob(rule, "the tasks of all three registries are waited for", TASK_FIELDS <= tk_fields, func=f, construct="task gathers", detail=f"gathered: {sorted(tk_fields)}")
        first_susp = [n for n in ctx.nodes(f, lambda n: ctx.effective(n))]
        locks = ctx.nodes(f, lambda n: ctx.is_call_to(n, "lock") or any(e.path.endswith("._locked") and e.kind == "assign" for e in ctx.eff.of_node(n)))
        for s in ctx.distinct_sites(first_susp):
            rep.ob(rule, "the pool is locked before gather_and_close first suspends (no new request slips in)", dominated_by_completion(g, locks, s) if locks else False, node=s)
        for t in tk:
            for need in (SPAWNER_FIELDS):
                doms = [x for x in sp if need in gather_fields(ctx, f, x)]
                rep.ob(rule, f"the wait for pool tasks starts only after the wait for the spawners in {need} has completed", bool(doms) and dominated_by_completion(g, _copies(g, doms), t), node=t)
        setn = ctx.nodes(f, lambda n: any(e.kind == "set" and e.path.endswith("._closed") for e in ctx.eff.of_node(n)))
        rep.floor(rule, "_closed.set() in gather_and_close", len(ctx.distinct_sites(setn)), 1)
        for s in ctx.distinct_sites(setn):
            for fld in sorted(TASK_FIELDS | SPAWNER_FIELDS):
                doms = [x for x in gs if fld in gather_fields(ctx, f, x)]
                rep.ob(rule, f"_closed.set() is dominated by the completed wait for {fld}", bool(doms) and dominated_by_completion(g, _copies(g, doms), s), node=s)
            for fld in sorted(TASK_FIELDS):
                forget = ctx.nodes(f, lambda n: any(e.kind in ("clear", "assign") and e.path == "self." + fld for e in ctx.eff.of_node(n)))
                before = bool(forget) and dominated_by_completion(g, forget, s)
                # ... or right after it, in the same non-suspending stretch: nobody can see the pool closed and still holding tasks
                copies_s = [x for x in g.nodes if x.ast is s.ast and x.op == s.op and x.pred]
                after = bool(forget) and all(g.exit not in reach([b for b, lab in x.succ if lab[0] in NORMAL_KINDS], lambda a, b, lab: lab[0] in NORMAL_KINDS, avoid=set(forget))
                                            for x in copies_s) and not any(m.suspends or m.user for m in between(copies_s, forget))
                rep.ob(rule, f"when the pool is closed it no longer holds tasks ({fld} forgotten before _closed.set())", before or after, node=s)
        for fld in sorted(TASK_FIELDS):
            forget = ctx.nodes(f, lambda n: any(e.kind in ("clear", "assign", "remove") and e.path == "self." + fld for e in ctx.eff.of_node(n)))
            for c in ctx.distinct_sites(forget):
                doms = [x for x in tk if fld in gather_fields(ctx, f, x)]
                rep.ob(rule, f"{fld} is forgotten only after its tasks were waited for", bool(doms) and dominated_by_completion(g, _copies(g, doms), c), node=c)
        # no effect between the last wait and closing may suspend (the pool must not be observable half-closed)
    for f in ctx.pool_funcs("until_closed"):
        waits = ctx.nodes(f, lambda n: ctx.is_ext_await(n, "Event.wait") and n.awaited.recv_path == "self._closed")
        g = ctx.an.cfg(f)
        rep.ob(rule, "until_closed returns only after waiting for the closed event", bool(waits) and dominated_by_completion(g, waits, g.exit), func=f,
               construct=waits[0] if waits else "(no wait on _closed)")
        effs = [e for e in ctx.func_trans_effects(f) if e.kind not in ("read", "wait") and e.path.startswith("self")]
        rep.ob(rule, "until_closed does not itself change the pool", not effs, func=f, construct=effs[0].node if effs else "no effects")


def _copies(g, nodes: List[Node]) -> List[Node]:
    """all CFG copies (finally instantiations) of the given AST steps"""
    ids = {(id(n.ast), n.op) for n in nodes}
    return [n for n in g.nodes if (id(n.ast), n.op) in ids]


def r_gather_complete(ctx: Ctx, rule: str, funcs=("gather_and_close",)):
    rep = ctx.rep
    rep.rule(rule, "GATHER-COMPLETE: a wait on task containers must not be cut short: (a) no `await gather(...)` that can complete early "
                   "(return_exceptions not the constant True) has that early completion swallowed (suppress / except) with control continuing "
                   "as if all members had finished; (b) a gather over the cancelled-spawner set, whose members may raise CancelledError without "
                   "anything having failed, uses return_exceptions=True")
    for name in funcs:
        for f in ctx.pool_funcs(name):
            g = ctx.an.cfg(f)
            # a gather(...) whose result is never awaited waits for nothing
            for c in ctx.distinct_sites(ctx.nodes(f, lambda n: ctx.is_ext_call(n, *GATHER))):
                awaited = any(m.op == "await" and any(x_ is c.ast for x_ in ctx.vals.alts(m.func, m.ast.value)) for m in g.nodes if m.pred)
                rep.ob(rule, "the gather is awaited (an un-awaited gather(...) waits for nothing)", awaited, node=c)
            for x in gathers(ctx, f):
                flds = gather_fields(ctx, f, x)
                re_ = gather_re(ctx, f, x)
                # (a) swallowed early completion
                swallowed = []
                if id(x) in _deleg and not ctx.is_ext_await(x, *GATHER):
                    for d in _deleg[id(x)]:
                        if d.swallowed and (name != "flush" or d.fields & TASK_FIELDS):
                            swallowed.append((d.inner, ("x", (CANCELLED, True))))
                for n in _copies(g, [x]):
                    for s, lab in n.succ:
                        if lab[0] == "x" and s.op in ("suppressed", "handler"):
                            # does control continue normally after the swallow?
                            cont = reach([s], lambda a, b, l: l[0] in NORMAL_KINDS)
                            if g.exit in cont:
                                swallowed.append((s, lab))
                informational = name == "flush" and not (flds & TASK_FIELDS)
                if swallowed and informational:
                    rep.ob(rule, "early completion of flush's spawner wait is swallowed (informational: covers only done/cancelled spawners, no property clause depends on it)",
                           "info", node=x)
                else:
                    rep.ob(rule, "an early completion of the wait (a member cancelled or raising) is not swallowed", not swallowed, node=x,
                           detail="" if not swallowed else f"{swallowed[0][1][1][0].rpartition('.')[2]} raised by gather is caught by `{swallowed[0][0].text(50)}` and the method goes on as if every member had finished")
                # (b) cancelled spawners
                if "_meta_tasks_cancelled" in flds and name == "gather_and_close":
                    rep.ob(rule, "the wait that includes cancelled spawners cannot raise their CancelledError (return_exceptions=True)", literal_true(re_), node=x,
                           detail="" if literal_true(re_) else "a spawner cancelled before it ever ran makes this gather raise CancelledError at once although no task or callback raised")


_MIGRATES = {"_tasks_running": {"_tasks_cancelled", "_tasks_ended"}, "_tasks_cancelled": {"_tasks_ended"}, "_tasks_ended": set()}


def _closure(u: frozenset) -> frozenset:
    out = set(u)
    for x in u:
        out |= _MIGRATES.get(x, set())
    return frozenset(out)


def r_forget_only_gathered(ctx: Ctx, rule: str):
    """Dataflow over gather_and_close: U = the task registries that may hold a task no gather has waited for to the end.
    entry: all three; `await gather(F...)` completing normally: U := closure(U - F); a gather left by an exception, and any other
    suspension: U := closure(U) (a task that is running may end - move to the cancelled/ended registry - while the method is
    suspended); a bulk forget of registry R needs R not in U."""
    rep = ctx.rep
    rep.rule(rule, "FORGET-ONLY-GATHERED(gather_and_close): may-analysis of the registries that can still hold a task no gather has waited for "
                   "to the end (a running task migrates to cancelled/ended during any suspension; a gather left by an exception has waited for "
                   "nothing); a registry is cleared only when it cannot - otherwise that task's exception is never reported, or the task is "
                   "forgotten while it still runs and its _task_ending cannot find it")
    for f in ctx.pool_funcs("gather_and_close"):
        g = ctx.an.cfg(f)
        gset: Dict[int, Set[str]] = {}
        for x in gathers(ctx, f):
            for c in _copies(g, [x]):
                gset[id(c)] = gather_fields(ctx, f, x) & TASK_FIELDS
        # a delegated flush gathers what its own gathers gather
        for n in g.nodes:
            if n.op == "await" and n.awaited is not None and n.awaited.kind == "pkg" and n.inlined is None and n.awaited.targets \
                    and all(t.name == "flush" and ctx.in_pool(t) for t in n.awaited.targets):
                flds: Optional[Set[str]] = None
                for t in n.awaited.targets:
                    mine = set()
                    for ig in gathers(ctx, t):
                        mine |= gather_fields(ctx, t, ig) & TASK_FIELDS
                    flds = mine if flds is None else (flds & mine)
                gset[id(n)] = flds or set()
        state: Dict[int, frozenset] = {id(g.entry): frozenset(TASK_FIELDS)}
        work = [g.entry]
        while work:
            n = work.pop()
            cur = state[id(n)]
            for s, _lab in n.succ:
                if id(n) in gset and _lab[0] in NORMAL_KINDS:
                    out = _closure(frozenset(cur - gset[id(n)]))
                elif id(n) in gset or ctx.effective(n):
                    # (a gather that is left by an exception or a cancellation has waited for nothing: its members may still run)
                    out = _closure(cur)
                else:
                    out = cur
                old = state.get(id(s))
                new = out if old is None else (old | out)
                if new != old:
                    state[id(s)] = new
                    work.append(s)
        forgets = [n for n in g.nodes if n.pred and any(e.kind in ("clear", "assign") and e.path.count(".") == 1 and field_of(e.path) in TASK_FIELDS for e in ctx.eff.of_node(n))]
        rep.floor(rule, "bulk forgets of task registries in gather_and_close",
                  len({(id(n.ast), field_of(e.path)) for n in forgets for e in ctx.eff.of_node(n) if e.kind in ("clear", "assign") and field_of(e.path) in TASK_FIELDS}), 3)
        for site in ctx.distinct_sites(forgets):
            bad = None
            for c in [x for x in forgets if x.ast is site.ast and x.op == site.op]:
                for e in ctx.eff.of_node(c):
                    if e.kind in ("clear", "assign") and field_of(e.path) in TASK_FIELDS and field_of(e.path) in state.get(id(c), frozenset()):
                        bad = (c, field_of(e.path))
            rep.ob(rule, "a registry is forgotten only when each task it can hold was an argument of a gather", bad is None, node=site,
                   detail="" if bad is None else f"{bad[1]} may hold a task that no completed gather covers (it moved here while gather_and_close was suspended, or the "
                                                 "gather over it was left by an exception while it still runs); it is forgotten un-awaited: its exception is never "
                                                 "raised or collected, and when it ends _task_ending finds it in no registry")


def r_return_exceptions(ctx: Ctx, rule: str, funcs=("flush", "gather_and_close")):
    rep = ctx.rep
    rep.rule(rule, "WIRING(return_exceptions): every gather over pool tasks in flush / gather_and_close receives the caller's return_exceptions "
                   "(or the constant True); with it True no may-raise step of the method remains outside a handler")
    for name in funcs:
        for f in ctx.pool_funcs(name):
            g = ctx.an.cfg(f)
            n_g = 0
            for x in gathers(ctx, f):
                flds = gather_fields(ctx, f, x)
                re_ = gather_re(ctx, f, x)
                n_g += len(_deleg[id(x)]) if (id(x) in _deleg and not ctx.is_ext_await(x, *GATHER)) else 1
                role = expr_role(ctx, f, re_)
                ok = literal_true(re_) or role == "RETEXC"
                if flds & TASK_FIELDS:
                    rep.ob(rule, "the gather over pool tasks passes return_exceptions on (exceptions of tasks are raised or collected as asked)", role == "RETEXC", node=x,
                           detail=f"return_exceptions <- {ast.unparse(re_) if re_ is not None else 'default False'}")
                else:
                    rep.ob(rule, "the gather over spawners uses the caller's return_exceptions or True", ok, node=x,
                           detail=f"return_exceptions <- {ast.unparse(re_) if re_ is not None else 'default False'}")
            rep.floor(rule, f"gathers in {name}", n_g, 2)
            # may-raise steps other than those gathers
            bad = []
            for n in ctx.nodes(f, lambda n: any(lab[0] == "x" for _, lab in n.succ)):
                if ctx.is_ext_await(n, *GATHER):
                    continue
                if n.op in ("reraise",):
                    continue
                if n.op == "raise" and getattr(n.ast, "exc", 1) is None and all(lab[1][0] == CANCELLED for _, lab in n.succ if lab[0] == "x"):
                    # `except CancelledError: ...; raise` hands on a cancellation that was on its way out anyway
                    continue
                if n.op == "await" and n.awaited is not None and n.awaited.kind == "pkg" and id(n) in _deleg:
                    # a helper that only gathers on our behalf: its gathers were judged above (as delegated waits)
                    hs = n.awaited.targets
                    only_gathers = True
                    for h in hs:
                        for m in ctx.nodes(h, lambda m: any(lab[0] == "x" for _, lab in m.succ)):
                            if ctx.is_ext_await(m, *GATHER) or m.op == "reraise":
                                continue
                            if any(lab[0] == "x" and s2.op not in ("handler", "suppressed") for s2, lab in m.succ):
                                only_gathers = False
                    if only_gathers:
                        continue
                if ctx.is_await_of(n, "flush", "gather_and_close"):
                    # delegation to another gathering method: judged there; it must receive the caller's return_exceptions
                    call = strip_cast(n.ast.value)
                    t = n.awaited.targets[0]
                    role = expr_role(ctx, f, ctx.call_arg(call, t, "return_exceptions"))
                    rep.ob(rule, "a delegated wait receives the caller's return_exceptions", role == "RETEXC", node=n)
                    continue
                # does the exception leave the function?
                for s, lab in n.succ:
                    if lab[0] == "x" and any(x.op == "raise_exit" for x in reach([s], lambda a, b, l: True)) and s.op != "handler" and s.op != "suppressed":
                        bad.append(n)
                        break
            rep.ob(rule, f"besides its gathers {name} has no step that may raise out of the method (so {name}(return_exceptions=True) never raises)", not bad, func=f,
                   construct=bad[0] if bad else f"{name}: no other raising step")
