"""gather_and_close / flush rules (C08, C12, C13)."""
from __future__ import annotations

import ast
import re
from typing import Dict, List, Optional, Set

from ..cfg import NORMAL_KINDS, Label, Node, literal_true, strip_cast
from ..exc import CANCELLED, EXCEPTION
from ..model import FuncInfo
from ..queries import between, can_follow, reach
from .lib import CAN, END, GATHER, META_CAN, META_RUN, RUN, Ctx, dominated_by_completion, field_of
from .shared import expr_role


class _Delegated:
    """A wait performed by a package helper on behalf of f: looks like a gather node located at the await of the helper."""
    def __init__(self, node: Node, fields: Set[str], re_expr, swallowed: bool, inner: Node):
        self.node, self.fields, self.re_expr, self.swallowed, self.inner = node, fields, re_expr, swallowed, inner


_deleg: Dict[int, List[_Delegated]] = {}


def _own_gathers(ctx: Ctx, f: FuncInfo) -> List[Node]:
    return ctx.distinct_sites(ctx.nodes(f, lambda n: ctx.is_ext_await(n, *GATHER)))


def _own_fields(ctx: Ctx, f: FuncInfo, g: Node, bind: Optional[Dict[str, Set[str]]] = None) -> Set[str]:
    from .shared import _local_sources

    call = strip_cast(g.ast.value)
    out = set()
    for a in call.args:
        inner = a.value if isinstance(a, ast.Starred) else a
        if isinstance(inner, ast.Name) and inner.id in ctx.an.scope(g.func).defs and inner.id not in ctx.an.scope(g.func).params:
            # a local collection: everything that flows into it
            srcs = _local_sources(ctx, g.func, g.env, inner.id)
            if srcs:
                out |= {field_of(x) for x in srcs}
                continue
        p = ctx.path_at(g, a)
        if p is None or p.startswith("<ret:"):
            # an expression: every registry it draws from (chain(...), helper results, unions)
            from .shared import expr_sources

            flds = {field_of(x) for x in expr_sources(ctx, g.func, g.env, inner)}
            out |= {x for x in flds if x}
            continue
        if bind is not None and p.startswith("<") and p.strip("<>[]") in bind:
            out |= bind[p.strip("<>[]")]
        else:
            out.add(field_of(p))
    return out


def gathers(ctx: Ctx, f: FuncInfo, _depth: int = 0) -> List[Node]:
    """gather awaits of f, plus - represented by the awaiting step in f - the gathers of package helpers f awaits"""
    out = list(_own_gathers(ctx, f))
    if _depth > 2:
        return out
    P = ctx.eff.paths(f)
    for n in ctx.distinct_sites(ctx.nodes(f, lambda n: n.op == "await" and n.awaited is not None and n.awaited.kind == "pkg" and n.inlined is None)):
        call = strip_cast(n.ast.value)
        for h in n.awaited.targets:
            if h.name in ("flush", "gather_and_close") or not ctx.in_pool(h):
                continue
            inner = _own_gathers(ctx, h)
            if not inner:
                continue
            bind: Dict[str, Set[str]] = {}
            re_bind = {}
            for pname in h.param_names():
                a = ctx.call_arg(call, h, pname)
                if a is None:
                    continue
                pa = P.of(a)
                if pa is not None:
                    bind[pname] = {field_of(pa)}
                re_bind[pname] = a
            hg = ctx.an.cfg(h)
            for ig in inner:
                flds = _own_fields(ctx, h, ig, bind)
                re_ = None
                icall = strip_cast(ig.ast.value)
                for k in icall.keywords:
                    if k.arg == "return_exceptions":
                        re_ = k.value
                if isinstance(re_, ast.Name) and re_.id in re_bind:
                    re_ = re_bind[re_.id]
                    re_owner = f
                sw = False
                for c in [x for x in hg.nodes if x.ast is ig.ast and x.op == "await" and x.pred]:
                    for s2, lab in c.succ:
                        if lab[0] == "x" and s2.op in ("suppressed", "handler") and hg.exit in reach([s2], lambda a_, b_, l_: l_[0] in NORMAL_KINDS):
                            sw = True
                d = _Delegated(n, flds, re_, sw, ig)
                lst = _deleg.setdefault(id(n), [])
                if not any(x.inner.ast is ig.ast for x in lst):
                    lst.append(d)
                out.append(n)
    return ctx.distinct_sites(out)


def gather_fields(ctx: Ctx, f: FuncInfo, g: Node) -> Set[str]:
    if id(g) in _deleg and not ctx.is_ext_await(g, *GATHER):
        return set().union(*[d.fields for d in _deleg[id(g)]])
    return _own_fields(ctx, f, g)


def gather_re(ctx: Ctx, f: FuncInfo, g: Node):
    if id(g) in _deleg and not ctx.is_ext_await(g, *GATHER):
        res = [d.re_expr for d in _deleg[id(g)]]
        for r in res:
            if not literal_true(r):
                return r
        return res[0] if res else None
    call = strip_cast(g.ast.value)
    for k in call.keywords:
        if k.arg == "return_exceptions":
            return k.value
    return None


SPAWNER_FIELDS = {"_meta_tasks_cancelled", "_group_meta_tasks_running"}
TASK_FIELDS = {"_tasks_ended", "_tasks_cancelled", "_tasks_running"}


def r_close_order(ctx: Ctx, rule: str):
    rep = ctx.rep
    rep.rule(rule, "order in gather_and_close: lock() -> wait for all spawners -> wait for the tasks of all three registries -> forget -> "
                   "_closed.set(); WHO(_closed.set) = {gather_and_close}; WHO(_closed.clear) is empty; until_closed only waits")
    sets = [e for e in ctx.effects(fields=["_closed"], kinds=["set", "clear", "assign", "maybe-set", "maybe-clear"]) if e.path.endswith("._closed")]
    rep.floor(rule, "writes of the closed event", len(sets), 2)
    for e in sets:
        hosts = ctx.hosts_of(e.node)
        if e.kind in ("set", "maybe-set"):
            rep.ob(rule, "the pool is closed only by gather_and_close", hosts <= {"gather_and_close"}, node=e.node)
        elif e.kind in ("clear", "maybe-clear"):
            rep.ob(rule, "a closed pool is never re-opened", False, node=e.node)
        else:
            rep.ob(rule, "the closed event is created once by the constructor", hosts <= {"__init__"}, node=e.node)
    for f in ctx.pool_funcs("gather_and_close"):
        g = ctx.an.cfg(f)
        gs = gathers(ctx, f)
        sp = [x for x in gs if gather_fields(ctx, f, x) & SPAWNER_FIELDS]
        tk = [x for x in gs if gather_fields(ctx, f, x) & TASK_FIELDS]
        rep.floor(rule, "spawner waits in gather_and_close", len(sp), 1)
        rep.floor(rule, "task waits in gather_and_close", len(tk), 1)
        sp_fields = set().union(*[gather_fields(ctx, f, x) for x in sp]) if sp else set()
        tk_fields = set().union(*[gather_fields(ctx, f, x) for x in tk]) if tk else set()
        rep.ob(rule, "cancelled and running spawners are both waited for", SPAWNER_FIELDS <= sp_fields, func=f, construct="spawner gathers",
               detail=f"gathered: {sorted(sp_fields)}")
        rep.ob(rule, "the tasks of all three registries are waited for", TASK_FIELDS <= tk_fields, func=f, construct="task gathers", detail=f"gathered: {sorted(tk_fields)}")
        first_susp = [n for n in ctx.nodes(f, lambda n: ctx.effective(n))]
        locks = ctx.nodes(f, lambda n: ctx.is_call_to(n, "lock") or any(e.path.endswith("._locked") and e.kind == "assign" for e in ctx.eff.of_node(n)))
        for s in ctx.distinct_sites(first_susp):
            rep.ob(rule, "the pool is locked before gather_and_close first suspends (no new request slips in)", dominated_by_completion(g, locks, s) if locks else False, node=s)
        for t in tk:
            for need in (SPAWNER_FIELDS):
                doms = [x for x in sp if need in gather_fields(ctx, f, x)]
                rep.ob(rule, f"the wait for pool tasks starts only after the wait for the spawners in {need} has completed", bool(doms) and dominated_by_completion(g, _copies(g, doms), t), node=t)
        setn = ctx.nodes(f, lambda n: any(e.kind == "set" and e.path.endswith("._closed") for e in ctx.eff.of_node(n)))
        rep.floor(rule, "_closed.set() in gather_and_close", len(ctx.distinct_sites(setn)), 1)
        # every way gather_and_close returns normally has closed the pool ("afterwards the pool is closed ... every later spawn request raises
        # PoolIsClosed"): an early return for an 'empty' pool leaves it merely locked - unlock() re-opens it
        rep.ob(rule, "every normal return of gather_and_close is preceded by _closed.set()", bool(setn) and dominated_by_completion(g, setn, g.exit), func=f,
               construct="normal exits of gather_and_close", detail="" if (setn and dominated_by_completion(g, setn, g.exit)) else
               "a path returns without closing: the pool stays locked but open, and after unlock() it accepts requests again")
        for s in ctx.distinct_sites(setn):
            for fld in sorted(TASK_FIELDS | SPAWNER_FIELDS):
                doms = [x for x in gs if fld in gather_fields(ctx, f, x)]
                rep.ob(rule, f"_closed.set() is dominated by the completed wait for {fld}", bool(doms) and dominated_by_completion(g, _copies(g, doms), s), node=s)
            for fld in sorted(TASK_FIELDS):
                forget = ctx.nodes(f, lambda n: any(e.kind in ("clear", "assign") and e.path == "self." + fld for e in ctx.eff.of_node(n)))
                before = bool(forget) and dominated_by_completion(g, forget, s)
                # ... or right after it, in the same non-suspending stretch: nobody can see the pool closed and still holding tasks
                copies_s = [x for x in g.nodes if x.ast is s.ast and x.op == s.op and x.pred]
                after = bool(forget) and all(g.exit not in reach([b for b, lab in x.succ if lab[0] in NORMAL_KINDS], lambda a, b, lab: lab[0] in NORMAL_KINDS, avoid=set(forget))
                                            for x in copies_s) and not any(m.suspends or m.user for m in between(copies_s, forget))
                rep.ob(rule, f"when the pool is closed it no longer holds tasks ({fld} forgotten before _closed.set())", before or after, node=s)
        for fld in sorted(TASK_FIELDS):
            forget = ctx.nodes(f, lambda n: any(e.kind in ("clear", "assign", "remove") and e.path == "self." + fld for e in ctx.eff.of_node(n)))
            for c in ctx.distinct_sites(forget):
                doms = [x for x in tk if fld in gather_fields(ctx, f, x)]
                rep.ob(rule, f"{fld} is forgotten only after its tasks were waited for", bool(doms) and dominated_by_completion(g, _copies(g, doms), c), node=c)
        # no effect between the last wait and closing may suspend (the pool must not be observable half-closed)
    for f in ctx.pool_funcs("until_closed"):
        waits = ctx.nodes(f, lambda n: ctx.is_ext_await(n, "Event.wait") and n.awaited.recv_path == "self._closed")
        g = ctx.an.cfg(f)
        rep.ob(rule, "until_closed returns only after waiting for the closed event", bool(waits) and dominated_by_completion(g, waits, g.exit), func=f,
               construct=waits[0] if waits else "(no wait on _closed)")
        effs = [e for e in ctx.func_trans_effects(f) if e.kind not in ("read", "wait") and e.path.startswith("self")]
        rep.ob(rule, "until_closed does not itself change the pool", not effs, func=f, construct=effs[0].node if effs else "no effects")


def _copies(g, nodes: List[Node]) -> List[Node]:
    """all CFG copies (finally instantiations) of the given AST steps"""
    ids = {(id(n.ast), n.op) for n in nodes}
    return [n for n in g.nodes if (id(n.ast), n.op) in ids]


def r_gather_complete(ctx: Ctx, rule: str, funcs=("gather_and_close",)):
    rep = ctx.rep
    rep.rule(rule, "GATHER-COMPLETE: a wait on task containers must not be cut short: (a) no `await gather(...)` that can complete early "
                   "(return_exceptions not the constant True) has that early completion swallowed (suppress / except) with control continuing "
                   "as if all members had finished; (b) a gather over the cancelled-spawner set, whose members may raise CancelledError without "
                   "anything having failed, uses return_exceptions=True")
    for name in funcs:
        for f in ctx.pool_funcs(name):
            g = ctx.an.cfg(f)
            # a gather(...) whose result is never awaited waits for nothing
            for c in ctx.distinct_sites(ctx.nodes(f, lambda n: ctx.is_ext_call(n, *GATHER))):
                awaited = any(m.op == "await" and any(x_ is c.ast for x_ in ctx.vals.alts(m.func, m.ast.value)) for m in g.nodes if m.pred)
                rep.ob(rule, "the gather is awaited (an un-awaited gather(...) waits for nothing)", awaited, node=c)
            for x in gathers(ctx, f):
                flds = gather_fields(ctx, f, x)
                re_ = gather_re(ctx, f, x)
                # (a) swallowed early completion
                swallowed = []
                if id(x) in _deleg and not ctx.is_ext_await(x, *GATHER):
                    for d in _deleg[id(x)]:
                        if d.swallowed and (name != "flush" or d.fields & TASK_FIELDS):
                            swallowed.append((d.inner, ("x", (CANCELLED, True))))
                for n in _copies(g, [x]):
                    for s, lab in n.succ:
                        if lab[0] == "x" and s.op in ("suppressed", "handler"):
                            # does control continue normally after the swallow?
                            cont = reach([s], lambda a, b, l: l[0] in NORMAL_KINDS)
                            if g.exit in cont:
                                swallowed.append((s, lab))
                informational = name == "flush" and not (flds & TASK_FIELDS)
                if swallowed and informational:
                    rep.ob(rule, "early completion of flush's spawner wait is swallowed (informational: covers only done/cancelled spawners, no property clause depends on it)",
                           "info", node=x)
                else:
                    rep.ob(rule, "an early completion of the wait (a member cancelled or raising) is not swallowed", not swallowed, node=x,
                           detail="" if not swallowed else f"{swallowed[0][1][1][0].rpartition('.')[2]} raised by gather is caught by `{swallowed[0][0].text(50)}` and the method goes on as if every member had finished")
                # (b) cancelled spawners
                if "_meta_tasks_cancelled" in flds and name == "gather_and_close":
                    rep.ob(rule, "the wait that includes cancelled spawners cannot raise their CancelledError (return_exceptions=True)", literal_true(re_), node=x,
                           detail="" if literal_true(re_) else "a spawner cancelled before it ever ran makes this gather raise CancelledError at once although no task or callback raised")


_MIGRATES = {"_tasks_running": {"_tasks_cancelled", "_tasks_ended"}, "_tasks_cancelled": {"_tasks_ended"}, "_tasks_ended": set()}


def _closure(u: frozenset) -> frozenset:
    out = set(u)
    for x in u:
        out |= _MIGRATES.get(x, set())
    return frozenset(out)


def r_forget_only_gathered(ctx: Ctx, rule: str):
    """Dataflow over gather_and_close: U = the task registries that may hold a task no gather has waited for to the end.
    entry: all three; `await gather(F...)` completing normally: U := closure(U - F); a gather left by an exception, and any other
    suspension: U := closure(U) (a task that is running may end - move to the cancelled/ended registry - while the method is
    suspended); a bulk forget of registry R needs R not in U."""
    rep = ctx.rep
    rep.rule(rule, "FORGET-ONLY-GATHERED(gather_and_close): may-analysis of the registries that can still hold a task no gather has waited for "
                   "to the end (a running task migrates to cancelled/ended during any suspension; a gather left by an exception has waited for "
                   "nothing); a registry is cleared only when it cannot - otherwise that task's exception is never reported, or the task is "
                   "forgotten while it still runs and its _task_ending cannot find it")
    for f in ctx.pool_funcs("gather_and_close"):
        g = ctx.an.cfg(f)
        gset: Dict[int, Set[str]] = {}
        for x in gathers(ctx, f):
            for c in _copies(g, [x]):
                gset[id(c)] = gather_fields(ctx, f, x) & TASK_FIELDS
        # a delegated flush gathers what its own gathers gather
        for n in g.nodes:
            if n.op == "await" and n.awaited is not None and n.awaited.kind == "pkg" and n.inlined is None and n.awaited.targets \
                    and all(t.name == "flush" and ctx.in_pool(t) for t in n.awaited.targets):
                flds: Optional[Set[str]] = None
                for t in n.awaited.targets:
                    mine = set()
                    for ig in gathers(ctx, t):
                        mine |= gather_fields(ctx, t, ig) & TASK_FIELDS
                    flds = mine if flds is None else (flds & mine)
                gset[id(n)] = flds or set()
        state: Dict[int, frozenset] = {id(g.entry): frozenset(TASK_FIELDS)}
        work = [g.entry]
        while work:
            n = work.pop()
            cur = state[id(n)]
            for s, _lab in n.succ:
                if id(n) in gset and _lab[0] in NORMAL_KINDS:
                    out = _closure(frozenset(cur - gset[id(n)]))
                elif id(n) in gset or ctx.effective(n):
                    # (a gather that is left by an exception or a cancellation has waited for nothing: its members may still run)
                    out = _closure(cur)
                else:
                    out = cur
                old = state.get(id(s))
                new = out if old is None else (old | out)
                if new != old:
                    state[id(s)] = new
                    work.append(s)
        # premise of the dataflow above: while the method is suspended tasks only *leave* the running registry - none is created.
        # That holds when nothing new is accepted (the pool is locked before the first suspension) and nothing accepted earlier
        # still spawns (every spawner was waited for before the wait for the tasks starts)
        gs_ = gathers(ctx, f)
        sp_ = [x for x in gs_ if gather_fields(ctx, f, x) & SPAWNER_FIELDS]
        tk_ = [x for x in gs_ if gather_fields(ctx, f, x) & TASK_FIELDS]
        locks_ = ctx.nodes(f, lambda n: ctx.is_call_to(n, "lock") or any(e.path.endswith("._locked") and e.kind == "assign" for e in ctx.eff.of_node(n)))
        for s_ in ctx.distinct_sites([n for n in ctx.nodes(f, lambda n: ctx.effective(n))]):
            rep.ob(rule, "premise (no task is created while the close is suspended): the pool is locked before gather_and_close first suspends",
                   bool(locks_) and dominated_by_completion(g, locks_, s_), node=s_)
        for t_ in tk_:
            for need in sorted(SPAWNER_FIELDS):
                doms = [x for x in sp_ if need in gather_fields(ctx, f, x)]
                rep.ob(rule, f"premise (no task is created while the close is suspended): the wait for the tasks starts after the spawners in {need} were waited for",
                       bool(doms) and dominated_by_completion(g, _copies(g, doms), t_), node=t_)
        forgets = [n for n in g.nodes if n.pred and any(e.kind in ("clear", "assign") and e.path.count(".") == 1 and field_of(e.path) in TASK_FIELDS for e in ctx.eff.of_node(n))]
        rep.floor(rule, "bulk forgets of task registries in gather_and_close",
                  len({(id(n.ast), field_of(e.path)) for n in forgets for e in ctx.eff.of_node(n) if e.kind in ("clear", "assign") and field_of(e.path) in TASK_FIELDS}), 3)
        for site in ctx.distinct_sites(forgets):
            bad = None
            for c in [x for x in forgets if x.ast is site.ast and x.op == site.op]:
                for e in ctx.eff.of_node(c):
                    if e.kind in ("clear", "assign") and field_of(e.path) in TASK_FIELDS and field_of(e.path) in state.get(id(c), frozenset()):
                        bad = (c, field_of(e.path))
            rep.ob(rule, "a registry is forgotten only when each task it can hold was an argument of a gather", bad is None, node=site,
                   detail="" if bad is None else f"{bad[1]} may hold a task that no completed gather covers (it moved here while gather_and_close was suspended, or the "
                                                 "gather over it was left by an exception while it still runs); it is forgotten un-awaited: its exception is never "
                                                 "raised or collected, and when it ends _task_ending finds it in no registry")


def r_return_exceptions(ctx: Ctx, rule: str, funcs=("flush", "gather_and_close")):
    rep = ctx.rep
    rep.rule(rule, "WIRING(return_exceptions): every gather over pool tasks in flush / gather_and_close receives the caller's return_exceptions "
                   "(or the constant True); with it True no may-raise step of the method remains outside a handler")
    for name in funcs:
        for f in ctx.pool_funcs(name):
            g = ctx.an.cfg(f)
            n_g = 0
            for x in gathers(ctx, f):
                flds = gather_fields(ctx, f, x)
                re_ = gather_re(ctx, f, x)
                n_g += len(_deleg[id(x)]) if (id(x) in _deleg and not ctx.is_ext_await(x, *GATHER)) else 1
                role = expr_role(ctx, f, re_)
                ok = literal_true(re_) or role == "RETEXC"
                if flds & TASK_FIELDS:
                    rep.ob(rule, "the gather over pool tasks passes return_exceptions on (exceptions of tasks are raised or collected as asked)", role == "RETEXC", node=x,
                           detail=f"return_exceptions <- {ast.unparse(re_) if re_ is not None else 'default False'}")
                else:
                    rep.ob(rule, "the gather over spawners uses the caller's return_exceptions or True", ok, node=x,
                           detail=f"return_exceptions <- {ast.unparse(re_) if re_ is not None else 'default False'}")
            rep.floor(rule, f"gathers in {name}", n_g, 2)
            # may-raise steps other than those gathers
            bad = []
            for n in ctx.nodes(f, lambda n: any(lab[0] == "x" for _, lab in n.succ)):
                if ctx.is_ext_await(n, *GATHER):
                    continue
                if n.op in ("reraise",):
                    continue
                if n.op == "raise" and getattr(n.ast, "exc", 1) is None and all(lab[1][0] == CANCELLED for _, lab in n.succ if lab[0] == "x"):
                    # `except CancelledError: ...; raise` hands on a cancellation that was on its way out anyway
                    continue
                if n.op == "await" and n.awaited is not None and n.awaited.kind == "pkg" and id(n) in _deleg:
                    # a helper that only gathers on our behalf: its gathers were judged above (as delegated waits)
                    hs = n.awaited.targets
                    only_gathers = True
                    for h in hs:
                        for m in ctx.nodes(h, lambda m: any(lab[0] == "x" for _, lab in m.succ)):
                            if ctx.is_ext_await(m, *GATHER) or m.op == "reraise":
                                continue
                            if any(lab[0] == "x" and s2.op not in ("handler", "suppressed") for s2, lab in m.succ):
                                only_gathers = False
                    if only_gathers:
                        continue
                if ctx.is_await_of(n, "flush", "gather_and_close"):
                    # delegation to another gathering method: judged there; it must receive the caller's return_exceptions
                    call = strip_cast(n.ast.value)
                    t = n.awaited.targets[0]
                    role = expr_role(ctx, f, ctx.call_arg(call, t, "return_exceptions"))
                    rep.ob(rule, "a delegated wait receives the caller's return_exceptions", role == "RETEXC", node=n)
                    continue
                # does the exception leave the function?
                for s, lab in n.succ:
                    if lab[0] == "x" and any(x.op == "raise_exit" for x in reach([s], lambda a, b, l: True)) and s.op != "handler" and s.op != "suppressed":
                        bad.append(n)
                        break
            rep.ob(rule, f"besides its gathers {name} has no step that may raise out of the method (so {name}(return_exceptions=True) never raises)", not bad, func=f,
                   construct=bad[0] if bad else f"{name}: no other raising step")


_LAZY_VIEWS = {"values", "items", "keys"}
_LAZY_CALLS = {"chain", "from_iterable", "map", "filter", "iter", "reversed", "enumerate", "zip", "islice"}
_MUTATORS = {"append", "extend", "add", "update", "insert", "setdefault", "union_update"}


def _is_lazy_call(ctx: Ctx, fr: FuncInfo, call: ast.Call) -> bool:
    """chain(...), chain.from_iterable(...), map(...), filter(...): iterators of the standard library that look into their arguments
    only when they are advanced"""
    fn = call.func
    if isinstance(fn, ast.Name):
        return fn.id in _LAZY_CALLS and fn.id not in ctx.an.scope(fr).defs
    if isinstance(fn, ast.Attribute) and fn.attr in _LAZY_CALLS:
        root = fn.value
        while isinstance(root, ast.Attribute):
            root = root.value
        return isinstance(root, ast.Name) and root.id in ("chain", "itertools", "builtins")
    return False


def _registry_fields(ctx: Ctx, fr: FuncInfo, env, e: ast.AST) -> Set[str]:
    from .shared import expr_sources

    return {field_of(x) for x in expr_sources(ctx, fr, env, e)} & (TASK_FIELDS | SPAWNER_FIELDS)


def _holder(g, e: ast.AST) -> List[Node]:
    """the live CFG steps whose statement/expression contains expression e (the step at which e is evaluated)"""
    out = []
    for n in g.nodes:
        if not n.pred or n.ast is None:
            continue
        if n.ast is e:
            out.append(n)
    if out:
        return out
    best: Dict[int, Node] = {}
    for n in g.nodes:
        if not n.pred or n.ast is None or n.op in ("entry", "exit"):
            continue
        if any(x is e for x in ast.walk(n.ast)):
            best[id(n)] = n
    # the innermost holders: those whose ast does not contain another holder's ast
    hs = list(best.values())
    inner = [n for n in hs if not any(m is not n and m.ast is not n.ast and any(x is m.ast for x in ast.walk(n.ast)) for m in hs)]
    return inner or hs


def _eager_points(ctx: Ctx, g, at: Node, fr: FuncInfo, env, e: ast.AST, depth: int = 0, busy: Optional[set] = None) -> List[tuple]:
    """Where are the members that expression e yields *read out of a registry into a value of their own*?
    -> [(expression, frame)] of eager materialisations (copies, comprehensions, displays, results of calls); lazy forms - an
    attribute path, a dict view, a generator expression (beyond its first iterable), chain/map/filter - read the registry only
    when they are consumed, i.e. at the gather itself."""
    busy = busy if busy is not None else set()
    out: List[tuple] = []
    if depth > 10:
        return out
    for fr2, env2, leaf in ctx.vals.leaves(fr, env, e):
        leaf = strip_cast(leaf)
        if id(leaf) in busy:
            continue
        busy.add(id(leaf))
        if isinstance(leaf, ast.Starred):
            out += _eager_points(ctx, g, at, fr2, env2, leaf.value, depth + 1, busy)
        elif isinstance(leaf, ast.Attribute):
            continue
        elif isinstance(leaf, ast.Name):
            # not a plainly bound local (parameter, accumulator, loop target): the steps that put registry members into it
            sc = ctx.an.scope(fr2)
            if leaf.id in sc.params and not sc.defs.get(leaf.id):
                continue
            for n in g.nodes:
                if not n.pred or n.func is not fr2 or n.ast is None:
                    continue
                st = n.ast
                if n.op == "call" and isinstance(st, ast.Call) and isinstance(st.func, ast.Attribute) and isinstance(st.func.value, ast.Name) \
                        and st.func.value.id == leaf.id and st.func.attr in _MUTATORS:
                    if any(_registry_fields(ctx, fr2, env2, a) for a in list(st.args) + [k.value for k in st.keywords]):
                        out.append((st, fr2))
                elif isinstance(st, ast.AugAssign) and isinstance(st.target, ast.Name) and st.target.id == leaf.id and _registry_fields(ctx, fr2, env2, st.value):
                    out.append((st, fr2))
                elif isinstance(st, (ast.For, ast.AsyncFor)) and n.op in ("iter", "for", "next") and any(isinstance(x, ast.Name) and x.id == leaf.id for x in ast.walk(st.target)) \
                        and _registry_fields(ctx, fr2, env2, st.iter):
                    pass  # a loop variable holds one member at a time; what is collected from it is judged at the collecting step
        elif isinstance(leaf, ast.GeneratorExp):
            # the outermost iterable is evaluated - and iter() taken on it - where the generator expression is created
            first = leaf.generators[0].iter
            sub = _eager_points(ctx, g, at, fr2, env2, first, depth + 1, busy)
            out += sub
            if not sub and _registry_fields(ctx, fr2, env2, first):
                out.append((leaf, fr2, "iter"))
        elif isinstance(leaf, ast.Call) and isinstance(leaf.func, ast.Attribute) and leaf.func.attr in _LAZY_VIEWS and not leaf.args:
            out += _eager_points(ctx, g, at, fr2, env2, leaf.func.value, depth + 1, busy)
        elif isinstance(leaf, ast.Call) and _is_lazy_call(ctx, fr2, leaf):
            for a in leaf.args:
                out += _eager_points(ctx, g, at, fr2, env2, a, depth + 1, busy)
        else:
            if _registry_fields(ctx, fr2, env2, leaf):
                out.append((leaf, fr2))
            # what an eager expression is built from may itself have been materialised earlier
            for x in ast.walk(leaf):
                if isinstance(x, ast.Name) and isinstance(x.ctx, ast.Load) and x is not leaf and x.id in ctx.an.scope(fr2).defs:
                    out += _eager_points(ctx, g, at, fr2, env2, x, depth + 1, busy)
    return out


def r_fresh_members(ctx: Ctx, rule: str, clauses=("copy", "iter")):
    """SNAPSHOT-FRESH.  gather_and_close must wait for what the registries hold *when the wait starts*: while it is suspended in an
    earlier wait, spawners go on filing tasks and an overlapping flush() drains and re-binds the per-group spawner sets.  A copy of a
    registry (or of its member collections) taken before a suspension and gathered after it misses all of that."""
    rep = ctx.rep
    rep.rule(rule, "SNAPSHOT-FRESH(gather_and_close): the members handed to each gather are read out of the registries in the same "
                   "non-suspending stretch as the gather starts - no eager copy (dict()/list()/set(), display, comprehension, helper "
                   "result) of a task or spawner registry is taken before a suspension and waited on after it, nor is an iterator over a "
                   "registry (the outermost iterable of a generator expression) created before a suspension and advanced after it; lazy "
                   "forms (attribute path, dict view, chain.from_iterable) read at the gather itself")
    n_g = 0
    for f in ctx.pool_funcs("gather_and_close"):
        g = ctx.an.cfg(f)
        for x in _own_gathers(ctx, f):
            call = strip_cast(x.ast.value)
            n_g += 1
            pts: List[tuple] = []
            for a in call.args:
                pts += _eager_points(ctx, g, x, x.func, x.env, a)
            gx = _copies(g, [x])
            bad = None
            seen = set()
            for e, fr, *kind in pts:
                if (kind[0] if kind else "copy") not in clauses:
                    continue
                if id(e) in seen:
                    continue
                seen.add(id(e))
                hs = _holder(g, e)
                if not hs:
                    rep.ob(rule, "the step that evaluates a registry copy is located in the flow graph", None, func=f, construct=ast.unparse(e)[:60])
                    continue
                # evaluated as part of the gather step itself: nothing can come between
                hs = [h for h in hs if not any(h.ast is c.ast or any(y is h.ast for y in ast.walk(c.ast)) for c in gx)]
                if not hs:
                    continue
                mid = between(hs, gx)
                susp = [m for m in mid if ctx.effective(m)] + [h for h in hs if ctx.effective(h) and h.op == "await" and not any(y is e for y in ast.walk(h.ast.value if isinstance(h.ast, ast.Await) else h.ast))]
                if susp:
                    bad = (e, susp[0], kind[0] if kind else "copy")
                    break
            rep.ob(rule, "the members this gather waits for are read from the registries when the wait starts (no copy taken before an earlier suspension)",
                   bad is None, node=x,
                   detail="" if bad is None else (
                       f"`{ast.unparse(bad[0])[:70]}` copies registry members before `{bad[1].text(50)}` suspends; what is filed, drained or "
                       "re-bound during that suspension is not waited for" if bad[2] == "copy" else
                       f"the iterator over the registry that `{ast.unparse(bad[0])[:70]}` takes when it is created is advanced only after "
                       f"`{bad[1].text(50)}` suspended; an overlapping flush()/cancel_group() that adds or drops a key meanwhile makes the "
                       "gather raise RuntimeError (dictionary changed size during iteration) although no task or callback raised"))
    rep.floor(rule, "gathers in gather_and_close judged", n_g, 2)


def r_no_live_iteration(ctx: Ctx, rule: str, funcs=("flush", "gather_and_close")):
    """ITERATE-ACROSS-SUSPENSION: a `for` loop over a registry itself (the attribute, or a live view of it) whose body suspends keeps an
    iterator over a container that other coroutines change meanwhile - cancel_group()/cancel_all() file cancelled spawners, tasks move
    between the task registries, an overlapping flush() clears - and the next step of the loop raises RuntimeError (changed size during
    iteration) out of the method, whatever return_exceptions says."""
    rep = ctx.rep
    rep.rule(rule, "ITERATE-ACROSS-SUSPENSION: in flush / gather_and_close no `for` loop (or comprehension with an await) iterates a task or "
                   "spawner registry directly - attribute or live view - while its body suspends; a copy taken for the loop (list(...), a "
                   "snapshot dictionary) is fine")
    n = 0
    for name in funcs:
        for f in ctx.pool_funcs(name):
            g = ctx.an.cfg(f)
            heads = [x for x in g.nodes if x.pred and x.ast is not None and isinstance(x.ast, (ast.For, ast.AsyncFor)) and x.op in ("iter", "for", "next", "loop")]
            seen = set()
            for h in heads:
                st = h.ast
                if id(st) in seen:
                    continue
                seen.add(id(st))
                n += 1
                if not _registry_fields(ctx, h.func, h.env, st.iter):
                    continue
                eager = _eager_points(ctx, g, h, h.func, h.env, st.iter)
                if [p for p in eager if (p[2] if len(p) > 2 else "copy") == "copy"]:
                    continue  # iterates a copy
                body_susp = [m for m in g.nodes if m.pred and st in m.loops and ctx.effective(m)]
                rep.ob(rule, "no loop iterates a registry directly while its body suspends", not body_susp, node=h,
                       detail="" if not body_susp else f"`{ast.unparse(st.iter)[:50]}` is iterated live and `{body_susp[0].text(50)}` suspends inside the loop: a member "
                                                       "added or removed meanwhile makes the next step raise RuntimeError out of the method")
    rep.ob(rule, "loops of flush / gather_and_close examined", True, construct=f"{n} loop(s)")
