"""C18 — a session survives any input and answers each line once (containment structure)."""
from .lib import Ctx
from . import control as CT


def check(ctx: Ctx) -> None:
    CT.r_hatches(ctx, "R18.1")
    CT.r_listen_loop(ctx, "R18.2")
    CT.r_containment(ctx, "R18.3")
    CT.r_buffer(ctx, "R18.4")
    # "a command that waits is answered when the wait is over": the session awaits only coroutine functions
    CT.r_async_declared(ctx, "R18.5")
    # the containment argument (R18.3) is made for argparse's default reading: errors go through error(), -h through exit(), no files are read
    CT.r_parser_config(ctx, "R18.6")
    # "conversion failures are answered with a message": every argument text goes through its converter (only the sentinel object is exempt)
    CT.r_fresh_conversion(ctx, "R18.7")
    # "concurrent sessions do not see each other": nothing of one connection is kept where the next connection overwrites it
    CT.r_session_local(ctx, "R18.8")
    # "a command that waits is answered when the wait is over" - and the other sessions meanwhile: no lock shared between sessions is held across an await
    from .c19 import r_no_shared_lock
    r_no_shared_lock(ctx, "R18.9")
    # "every line is answered": forwarding the parsed arguments as **kwargs cannot clash with a parameter of the receiving function
    CT.r_dispatch_names(ctx, "R18.10")
    # "remains usable": the listen loop runs while is_serving() - which must not be switched off by the final callback of an earlier serving cycle
    from .c19 import r_who_server
    r_who_server(ctx, "R18.11")
    # "exactly one reply ... when that wait is over"
    CT.r_no_timeouts(ctx, "R18.12")
