"""Rules shared by several properties (capacity discipline, hand-off, registry integrity)."""
from __future__ import annotations

import ast
import re
from typing import Dict, List, Optional, Set, Tuple

from ..absint import AbsInt, RET, runs_callee
from ..cfg import NORMAL_KINDS, Label, Node, strip_cast
from ..exc import CANCELLED, EXCEPTION, KEYERROR
from ..model import AnalysisError, FuncInfo
from ..queries import between, can_follow, count_paths, reach, reach_back
from .lib import (surplus_forwarded_only, CAN, CREATE_TASK, END, GATHER, GROUPS, META_CAN, META_RUN, NUM, REGISTRIES, RUN, SLOT, Ctx,
                  dominated_by_completion, field_of, path_text)


# ------------------------------------------------------------------ selectors
def coro_arg(call: ast.Call) -> Optional[ast.expr]:
    """The coroutine handed to create_task/ensure_future/Task."""
    if call.args:
        return call.args[0]
    for kw in call.keywords:
        if kw.arg in ("coro", "coro_or_future"):
            return kw.value
    return None


def coro_of(ctx: Ctx, n: Node):
    """The coroutine a create_task step schedules -> (expression, package coroutine functions it calls or None).
    A local is read through its single binding; a parameter of a helper spliced into its caller through the argument that call
    passes (`self._create_named_task(task_id, self._task_wrapper(...))` -> `create_task(coro=coroutine, ...)`)."""
    arg = coro_arg(n.ast)
    if arg is None:
        return None, None
    arg = ctx.vals.resolve(n.func, arg)  # `coro = self._spawner(...); create_task(coro)`
    fr = n.func
    if isinstance(arg, ast.Name) and n.env and arg.id in n.env:
        ls = ctx.vals.leaves_at(n, arg)
        if len(ls) == 1 and isinstance(ls[0][2], ast.Call):
            fr, _env, arg = ls[0]
    targets = None
    if isinstance(arg, ast.Call):
        if (id(arg), id(n.env)) in ctx.an.partial_syn:
            # `factory()` with factory = partial(self._spawner, ...): the coroutine of that spawner, with the frozen arguments
            fr_, _env = ctx.an.partial_frame[(id(arg), id(n.env))]
            arg = ctx.an.partial_syn[(id(arg), id(n.env))]
            cal = ctx.an.scope(fr_).callee(arg)
        else:
            cal = ctx.an.scope(fr).callee(arg)
        if cal.kind == "pkg":
            targets = cal.targets
    return arg, targets


def create_sites(ctx: Ctx, funcs=None) -> List[Tuple[Node, Optional[ast.expr], Optional[List[FuncInfo]]]]:
    """(site, coroutine expression, package coroutine functions it calls or None)"""
    out = []
    seen_ = set()
    for n in ctx.all_nodes(lambda n: ctx.is_ext_call(n, *CREATE_TASK), funcs):
        # one site per call expression and frame instance (a helper spliced into several callers creates a task for each of them)
        k_ = (n.root.qual if n.root is not None else n.func.qual, n.func.qual, id(n.ast), id(n.env))
        if k_ in seen_:
            continue
        seen_.add(k_)
        arg, targets = coro_of(ctx, n)
        out.append((n, arg, targets))
    return out


def wrapper_sites(ctx: Ctx) -> List[Node]:
    return [n for n, arg, t in create_sites(ctx) if t and any(x.name == "_task_wrapper" for x in t)]


def is_spawner(ctx: Ctx, f: FuncInfo, _seen=None) -> bool:
    """A coroutine function that (transitively) awaits `_start_task`."""
    _seen = _seen or set()
    if f.qual in _seen:
        return False
    _seen.add(f.qual)
    for n in ctx.nodes(f, lambda n: n.op == "await" and n.awaited is not None and n.awaited.kind == "pkg"):
        for t in n.awaited.targets:
            if t.name == "_start_task" or is_spawner(ctx, t, _seen):
                return True
    return False


def slot_acquires(ctx: Ctx, f: FuncInfo) -> List[Node]:
    return ctx.nodes(f, lambda n: ctx.is_ext_await(n, "Semaphore.acquire") and n.awaited.recv_path == SLOT)


# ---------------------------------------------------------------------- R01.x
def r_acquire_dominates_create(ctx: Ctx, rule="R01.1"):
    rep = ctx.rep
    rep.rule(rule, "DOM(acquire->create): every creation of a pool task (create_task(_task_wrapper(...))) is dominated by a "
                   "completed `await self._enough_room.acquire()` with no release in between")
    sites = wrapper_sites(ctx)
    rep.floor(rule, "create_task(_task_wrapper(...)) sites", len(sites), 1)
    for site in sites:
        g = ctx.an.cfg(site.root)
        acq = slot_acquires(ctx, site.root)
        ok = bool(acq) and all(dominated_by_completion(g, acq, s) for s in g.nodes if s.ast is site.ast and s.op == site.op and s.pred)
        rep.ob(rule, "pool task creation is dominated by a completed slot acquire", ok, node=site,
               detail="" if ok else f"acquire steps in {site.func.short}: {[a.where() for a in acq]}; some path reaches the creation without completing one")
        if ok:
            mid = between(acq, [site])
            rel = [m for m in mid if any(e.kind in ("release", "maybe-release") and field_of(e.path) == "_enough_room" for e in ctx.trans_effects(m))]
            rep.ob(rule, "no release of the slot between its acquire and the task creation", not rel, node=site,
                   detail="" if not rel else f"release at {rel[0].where()}")
            # exactly one acquire per creation: acquiring twice for one task leaks a slot (C02) – counted here for evidence
            loops = [m for m in mid if m.op in ("loophead", "iter", "comp")]
            rep.ob(rule, "acquire and creation are not separated by a loop (one acquire per task)", not loops, node=site)


def r_who_create_task(ctx: Ctx, rule="R01.2"):
    rep = ctx.rep
    rep.rule(rule, "WHO(create_task in the pool classes): tasks are created only for _task_wrapper (in _start_task) and for spawner "
                   "coroutines; user coroutines reach the loop only through `_start_task`")
    funcs = [f for f in ctx.prog.all_functions() if ctx.in_pool(f) or f.module.name == "pool"]
    sites = create_sites(ctx, funcs)
    n_wrap = n_spawn = 0
    # (a creation site shared by several requests - a helper given the coroutine, or a factory for it - counts once per spawner)
    per_site: Dict[int, Set[str]] = {}
    for m in ctx.all_nodes(lambda m: ctx.is_ext_call(m, *CREATE_TASK), funcs):
        a_ = coro_arg(m.ast)
        syn_ = ctx.an.partial_syn.get((id(a_), id(m.env))) if a_ is not None else None
        if syn_ is not None:
            cal_ = ctx.an.scope(ctx.an.partial_frame[(id(a_), id(m.env))][0]).callee(syn_)
            if cal_.kind == "pkg":
                per_site.setdefault(id(m.ast), set()).update(t.qual for t in cal_.targets)
    for n, arg, targets in sites:
        if targets and any(t.name == "_task_wrapper" for t in targets):
            n_wrap += 1
            rep.ob(rule, "pool tasks are created only inside _start_task", ctx.hosts_of(n) <= {"_start_task"}, node=n,
                   detail=f"created in {n.func.short}")
        elif targets and all(is_spawner(ctx, t) for t in targets) and all(is_spawner(ctx, ctx.prog.functions[q]) for q in per_site.get(id(n.ast), set()) if q in ctx.prog.functions):
            n_spawn += max(1, len(per_site.get(id(n.ast), set())))
            rep.ob(rule, "spawner task created for a spawner coroutine", True, node=n)
        elif targets:
            rep.ob(rule, "task created for a package coroutine that neither wraps a pool task nor spawns through _start_task", "info", node=n,
                   detail=",".join(t.qual for t in targets))
        else:
            ty = ctx.an.scope(n.func).ty(arg) if arg is not None else None
            user = ty is not None and ty.head == "UserValue"
            if isinstance(arg, ast.Call):
                cal = ctx.an.scope(n.func).callee(arg)
                user = user or cal.kind == "user" or (cal.kind == "pkg" and any(t.name == "star_function" for t in cal.targets))
            if isinstance(arg, ast.Name) and arg.id in n.func.param_names():
                user = True
            rep.ob(rule, "no task is created directly from a user coroutine (bypassing the slot acquire)", False if user else None, node=n,
                   detail="the coroutine handed to create_task is user-supplied" if user else "cannot classify the coroutine handed to create_task")
    rep.floor(rule, "wrapper creation sites", n_wrap, 1)
    rep.floor(rule, "spawner creation sites (apply, _map, start)", n_spawn, 3)
    r_user_coroutine_uses(ctx, rule)


def r_user_coroutine_uses(ctx: Ctx, rule: str):
    """Every use of a coroutine obtained from user code goes to `_start_task`, `.close()` or a log call (followed into
    helpers that are spliced into the spawner)."""
    from ..cfg import bind_args

    rep = ctx.rep
    uses = [0]
    done: Set[Tuple[str, frozenset]] = set()

    def check(f: FuncInfo, uv: Set[str]) -> None:
        key = (f.qual, frozenset(uv))
        if key in done or not uv:
            return
        done.add(key)
        sc = ctx.an.scope(f)
        parents: Dict[int, ast.AST] = {}
        for node in sc._own_nodes():
            for ch in ast.iter_child_nodes(node):
                parents[id(ch)] = node
        for node in sc._own_nodes():
            if isinstance(node, ast.Name) and node.id in uv and isinstance(node.ctx, ast.Load):
                uses[0] += 1
                par = parents.get(id(node))
                ok = False
                what = ""
                if isinstance(par, ast.Call) and node in par.args or (isinstance(par, ast.keyword)):
                    call = par if isinstance(par, ast.Call) else parents.get(id(par))
                    if isinstance(call, ast.Call):
                        cal = sc.callee(call)
                        if cal.kind == "pkg" and all(t.name == "_start_task" for t in cal.targets):
                            ok = True
                        elif cal.kind == "ext" and (cal.name.startswith("Logger.") or cal.name in ("builtins.repr", "builtins.str", "builtins.id")):
                            ok = True
                        elif id(call) in ctx.an.spliced_at:
                            t = ctx.an.spliced_at[id(call)]
                            benv = bind_args(call, t, f, None)
                            bound = {pn for pn, (_, arg, _e) in benv.items() if arg is node}
                            surplus = {pn for pn, (_, arg, _e) in benv.items() if isinstance(arg, ast.Tuple) and any(x is node for x in arg.elts)
                                       or isinstance(arg, ast.Dict) and any(x is node for x in arg.values)}
                            if bound:
                                check(t, bound)
                                ok = True
                            elif surplus and surplus_forwarded_only(ctx, t, benv, surplus, ("_start_task",)):
                                ok = True  # one of the helper's *args, only forwarded to the `_start_task` it was handed
                        what = cal.name
                elif isinstance(par, ast.Attribute) and par.attr == "close":
                    ok = True
                elif isinstance(par, (ast.Compare, ast.FormattedValue)):
                    ok = True
                elif isinstance(par, (ast.Assign, ast.AnnAssign)) and par.value is node and all(isinstance(t_, ast.Name) for t_ in (par.targets if isinstance(par, ast.Assign) else [par.target])):
                    # `c2 = c`: another name for the same coroutine, held to the same rule
                    ok = True
                    check(f, uv | {t_.id for t_ in (par.targets if isinstance(par, ast.Assign) else [par.target])})
                if not ok and isinstance(par, ast.Await):
                    rep.ob(rule, "a user coroutine is never awaited inline by a spawner (it would run outside the pool's accounting)", False,
                           func=f, construct=par)
                elif not ok:
                    rep.ob(rule, "user coroutine flows only into _start_task / close()", None if not what else False, func=f, construct=par or node,
                           detail=f"flows into {what or type(par).__name__}")
                else:
                    rep.ob(rule, "user coroutine flows only into _start_task / close()", True, func=f, construct=par)

    for f in ctx.pool_functions():
        sc = ctx.an.scope(f)
        def pkg_coroutine(name: str) -> bool:
            # `c = self._helper(...)` with an async package function: the coroutine of package code, not the user's
            vals = ctx.vals.bindings(f, name)
            return bool(vals) and all(isinstance(strip_cast(v), ast.Call) and sc.callee(strip_cast(v)).kind == "pkg" and sc.callee(strip_cast(v)).targets
                                      and all(t.is_async for t in sc.callee(strip_cast(v)).targets) for v in vals)

        def from_user_call(name: str) -> bool:
            # `c = self._helper(...)` whose (spliced) helper returns what the user's function returned
            for fr_, _e, v in ctx.vals.leaves(f, None, ast.Name(id=name, ctx=ast.Load())):
                if isinstance(v, ast.Call):
                    cal_ = ctx.an.scope(fr_).callee(v)
                    if cal_.kind == "user" or any(t.name == "star_function" for t in cal_.targets):
                        return True
            return False

        check(f, {name for name in sc.defs if ((sc.name_ty(name) is not None and sc.name_ty(name).head in ("UserValue", "internals.helpers._R")) or from_user_call(name))
                  and not pkg_coroutine(name)})
    rep.floor(rule, "uses of user coroutines in spawners", uses[0], 3)


def release_pred(ctx: Ctx):
    def pred(n: Node) -> bool:
        return any(e.kind == "release" and e.path == SLOT for e in ctx.eff.of_node(n)) and ctx.in_pool(n.func)
    return pred


def r_who_release(ctx: Ctx, rule="R01.3"):
    rep = ctx.rep
    rep.rule(rule, "WHO(_enough_room.release) = {_task_ending}; ALL-EXITS(_task_wrapper => release, exactly 1) over normal, exception and cancellation edges")
    rel = ctx.effects(fields=["_enough_room"], kinds=["release", "maybe-release"])
    rep.floor(rule, "release sites of the pool semaphore", len(rel), 1)
    for e in rel:
        in_ending = ctx.hosts_of(e.node) <= {"_task_ending"} and ctx.in_pool(e.node.func)
        if in_ending:
            rep.ob(rule, "the pool slot is released only by _task_ending (or by the acquirer for a slot it still owns)", True, node=e.node)
        else:
            owner = e.node.root if e.node.root is not None else e.node.func  # the function this instance of the step runs in
            ok, why = slot_balance(ctx, owner)
            rep.ob(rule, "the pool slot is released only by _task_ending (or by the acquirer for a slot it still owns)", ok and ctx.in_pool(e.node.func), node=e.node,
                   detail=f"release in {owner.short}: {why}")
    for f in {(e.node.root or e.node.func).qual: (e.node.root or e.node.func) for e in ctx.effects(fields=["_enough_room"], kinds=["acquire"]) if ctx.in_pool(e.node.func)}.values():
        ok, why = slot_balance(ctx, f)
        rep.ob(rule, "slot balance of the acquirer: every acquired slot is handed to exactly one created task, or given back if the start fails", ok, func=f,
               construct=f"{f.name}: acquire .. create_task", detail=why)
    # exactly-one release per task over all edges of the wrapper
    pred = release_pred(ctx)
    ef = ctx.feasible()
    for w in ctx.pool_funcs("_task_wrapper"):
        res = count_paths(ctx.an, w, pred, ef=ef)
        for key, counts in sorted(res.items(), key=str):
            kind = "return" if key[0] == "ret" else f"{'cancellation' if key[0] == 'c' else 'exception'} {key[1][0].rpartition('.')[2]}"
            rep.ob(rule, f"on every path of the task wrapper ending by {kind} the slot is released exactly once", counts == frozenset({1}),
                   func=w, construct=f"exit:{kind}", detail=f"possible release counts {sorted(counts)} (2 = two or more)")


def slot_balance(ctx: Ctx, f: FuncInfo):
    """Typestate over one invocation of a function that acquires pool slots: a release outside _task_ending is legitimate only
    for a slot this invocation acquired (the acquire completed) and has not handed to a created task."""
    bad: List[str] = []

    def transfer(ai: AbsInt, n: Node, lab: Label, st):
        held, handed = st
        normal = lab[0] in NORMAL_KINDS
        if normal and n.op == "await" and ctx.is_ext_await(n, "Semaphore.acquire") and n.awaited.recv_path == SLOT:
            held = min(2, held + 1)
        if normal and any(e.kind == "release" and e.path == SLOT for e in ctx.eff.of_node(n)):
            if held >= 1 and not handed:
                held -= 1
            else:
                ai.event(n, "releases a pool slot this invocation does not own (none acquired, or already handed to the created task)", st)
        if normal and n.op == "call" and ctx.is_ext_call(n, *CREATE_TASK):
            _arg, tg_ = coro_of(ctx, n)
            if tg_ and any(t.name == "_task_wrapper" for t in tg_):
                handed = True
        return [(held, handed)]

    def ef(a: Node, b: Node, lab: Label) -> bool:
        # a cancellation cannot be delivered at a step that never really suspends (lemma L-LOCK)
        return not (lab[0] == "c" and a.suspends and not ctx.effective(a))

    ai = AbsInt(ctx.an, transfer, ef=ef)
    exits = ai.run(f, (0, False))
    for e in ai.events:
        bad.append(f"{e.node.where()}: {e.msg} (held={e.state[0]}, handed={e.state[1]}); path: " + " ".join(e.trace[-4:]))
    for k, sts in exits.items():
        for held, handed in sts:
            if k[0] == "ret" and not (held == 1 and handed):
                bad.append(f"normal return with held={held}, handed={handed}")
            if k[0] != "ret" and held >= 1 and not handed:
                bad.append(f"a start that fails with {k[1][0].rpartition('.')[2]} keeps the slot it acquired (held={held}, no task created): the slot is lost")
    return (not bad), ("; ".join(bad) if bad else "slot balance holds")


def r_who_write_semaphore(ctx: Ctx, rule="R01.4"):
    rep = ctx.rep
    rep.rule(rule, "WHO(write of _enough_room / its counter) = {__init__, pool_size setter}")
    effs = ctx.effects(fields=["_enough_room"], kinds=["assign", "aug", "insert", "clear", "remove"])
    effs = [e for e in effs if field_of(e.path) == "_enough_room" or "._enough_room" in e.path]
    rep.floor(rule, "writes of the semaphore or its counter", len(effs), 2)
    for e in effs:
        rep.ob(rule, "semaphore object/counter written only by the constructor and the pool_size setter",
               ctx.hosts_of(e.node) <= {"__init__", "pool_size.setter"} and ctx.in_pool(e.node.func), node=e.node, detail=f"{e.kind} {e.path} in {e.node.func.short}")
        if e.path == SLOT and e.kind == "assign":
            # requests parked in `await self._enough_room.acquire()` wait on *this object*; a later release() on a replacement never wakes them
            rep.ob(rule, "the semaphore object the waiters are parked on is bound once, by the constructor (never replaced)",
                   ctx.hosts_of(e.node) <= {"__init__"}, node=e.node,
                   detail=f"{e.node.func.short} rebinds {e.path}: tasks already waiting for room stay queued on the old object and are never admitted")
    # nothing but acquire / release / locked is called on the pool semaphore (the setter may wake waiters)
    for e in ctx.effects(fields=["_enough_room"], kinds=["wake", "sem-other"]):
        if e.path != SLOT:
            continue
        if e.kind == "wake":
            rep.ob(rule, "waiters of the pool semaphore are woken (a slot granted without a release) only by the pool_size setter", ctx.hosts_of(e.node) <= {"pool_size.setter"}, node=e.node,
                   detail=f"{e.node.func.short} calls Semaphore._wake_up_next(): since Python 3.11 this takes a slot for the next waiter although none was released - "
                          "one more task runs than the pool size")
        else:
            rep.ob(rule, "only acquire / release / locked are called on the pool semaphore", None, node=e.node, detail=f"unknown Semaphore method `{e.detail}`")
    # acquire sites: only _start_task takes pool slots
    acq = ctx.effects(fields=["_enough_room"], kinds=["acquire", "maybe-acquire"])
    rep.floor(rule, "acquire sites of the pool semaphore", len(acq), 1)
    for e in acq:
        rep.ob(rule, "pool slots are acquired only by _start_task", ctx.hosts_of(e.node) <= {"_start_task"}, node=e.node)
        # the acquire must be awaited (an un-awaited acquire() acquires nothing)
        g = ctx.an.cfg(e.node.root if e.node.root is not None else e.node.func)
        awaited = any(n.op == "await" and strip_cast(n.ast.value) is e.node.ast for n in g.nodes)
        rep.ob(rule, "the acquire coroutine is awaited", awaited, node=e.node)


def r_no_shared_task(ctx: Ctx, rule: str):
    """A cancellation travels from an awaiting task into what it awaits.  The pool's own coroutines await either their own
    coroutine calls or a gather made on the spot; a Task kept in an attribute of the pool and awaited by whoever calls the method
    (a coalesced flush, a memoised wait) is cancelled for ALL its waiters as soon as ONE of them is cancelled - a cancel(id) of one
    pool task then reaches pool tasks that were not named."""
    rep = ctx.rep
    rep.rule(rule, "NO-SHARED-TASK: no coroutine of the pool classes awaits an object read from an attribute of the pool that holds a Task / Future "
                   "(`await self._x` with `self._x = create_task(...)` / ensure_future / a Future); tasks are created only for pool-task wrappers and spawners")
    held: Dict[str, Node] = {}
    for f in ctx.pool_functions():
        for n in ctx.nodes(f, lambda n: n.op == "assign" and isinstance(n.ast, (ast.Assign, ast.AnnAssign)) and n.ast.value is not None):
            v = strip_cast(ctx.vals.resolve(n.func, n.ast.value))
            if isinstance(v, ast.Call):
                nm = ctx.an.scope(n.func).callee(v).name
                if nm in CREATE_TASK or nm.rpartition(".")[2] in ("ensure_future", "create_task", "Future", "create_future", "shield"):
                    for e in ctx.eff.of_node(n):
                        if e.kind == "assign" and e.path.startswith("self.") and e.path.count(".") == 1:
                            held[e.path] = n
    n_aw = 0
    for f in ctx.pool_functions():
        P = ctx.eff.paths(f)
        for n in ctx.distinct_sites(ctx.nodes(f, lambda n: n.op == "await")):
            n_aw += 1
            op = strip_cast(n.ast.value)
            p = P.of(op)
            p = ctx.eff.rebase(p, n.func, n.env) if p is not None and n.func is not f else p
            if p is not None and p in held:
                rep.ob(rule, "no coroutine of the pool awaits a task shared through an attribute", False, node=n,
                       detail=f"{p} holds a task created at {held[p].where()}: every caller awaiting it is cancelled together with the first caller that is cancelled "
                              "(Task.cancel() of a waiter cancels the task it waits for)")
    rep.floor(rule, "awaits in the pool classes examined", n_aw, 8)
    rep.ob(rule, "pool attributes holding tasks that are awaited", True, construct=f"{len(held)} task-holding attribute(s), none awaited" if held else "no task-holding attribute")


def r_limit_is_assigned_value(ctx: Ctx, rule: str):
    """The limit put in force is the value that was assigned - for EVERY value, 0 included.  The validated setter works on its
    parameter as given: the parameter is not replaced by something computed from its truth value (`value or inf`, `x if value else y`
    turn pool_size=0 - "nothing may start" - into no limit at all); the constructors hand their `pool_size` argument on unchanged."""
    rep = ctx.rep
    rep.rule(rule, "LIMIT-IS-THE-ASSIGNED-VALUE: in the pool_size setter the parameter is not re-bound (except to fill in a default under "
                   "an `is None` test); a re-binding that goes by the parameter's truth value is a violation (0 is a valid size), any other is "
                   "inconclusive; the constructors pass their pool_size argument to the setter / the base constructor unchanged")
    setters = ctx.pool_setters("pool_size")
    rep.floor(rule, "pool_size setter", len(setters), 1)
    # the free-room counter is never driven below zero: asyncio's Semaphore blocks while `_value == 0` - a negative counter blocks nobody
    for f_ in setters:
        for n_ in ctx.distinct_sites(ctx.nodes(f_, lambda n: n.op in ("assign", "aug") and any(e.path.endswith("._enough_room._value") for e in ctx.eff.of_node(n)))):
            v_ = getattr(n_.ast, "value", None)
            if v_ is None:
                continue
            leaves_ = [l_[2] for l_ in ctx.vals.leaves(n_.func, n_.env, v_)] or [v_]

            def may_go_negative(e_: ast.AST) -> bool:
                e_ = strip_cast(e_)
                if isinstance(e_, ast.Call) and isinstance(e_.func, ast.Name) and e_.func.id == "max" and any(isinstance(a_, ast.Constant) and a_.value == 0 for a_ in e_.args):
                    return False
                return any(isinstance(x_, ast.BinOp) and isinstance(x_.op, ast.Sub) for x_ in ast.walk(e_)) or isinstance(n_.ast, ast.AugAssign) and isinstance(n_.ast.op, ast.Sub)

            bad_ = [e_ for e_ in leaves_ if may_go_negative(e_)]
            rep.ob(rule, "the setter never stores a difference into the free-room counter without clamping it at 0", not bad_, node=n_,
                   detail="" if not bad_ else f"`{ast.unparse(bad_[0])[:60]}` can be negative (more tasks counted as occupying room than the new size): Semaphore.locked() "
                                              "tests `_value == 0`, so with a negative counter every acquire() succeeds at once and the pool is unbounded")

    def truthy_use(e: ast.AST, name: str) -> bool:
        """does e choose its value by the truth value of `name`?"""
        for x in ast.walk(e):
            if isinstance(x, ast.BoolOp) and any(isinstance(v, ast.Name) and v.id == name for v in x.values[:-1]):
                return True
            if isinstance(x, ast.IfExp):
                t = x.test
                while isinstance(t, ast.UnaryOp) and isinstance(t.op, ast.Not):
                    t = t.operand
                if isinstance(t, ast.Name) and t.id == name:
                    return True
        return False

    def check_param(f: FuncInfo, vp: str) -> None:
        sc = ctx.an.scope(f)
        hows = sc.defs.get(vp, [])
        if not hows:
            rep.ob(rule, f"`{vp}` reaches the store as it was passed", True, func=f, construct=f"{f.short}({vp})")
            return
        for h in hows:
            val = h[1] if h[0] == "assign" else (h[2] if h[0] == "ann" else None)
            stores = ctx.nodes(f, lambda n: n.op in ("assign", "aug") and n.ast is not None and any(isinstance(t_, ast.Name) and t_.id == vp and isinstance(t_.ctx, ast.Store) for t_ in ast.walk(n.ast)))
            site = stores[0] if stores else None
            if val is not None and truthy_use(val, vp):
                rep.ob(rule, f"`{vp}` reaches the store as it was passed", False, func=f, node=site, construct=site if site is not None else f"{vp} = {ast.unparse(val)}",
                       detail=f"`{vp} = {ast.unparse(val)}` replaces every falsy size - 0 included - so a pool of size 0 is not limited at all")
                continue
            # filling in a default for None is fine: `if value is None: value = inf`
            guarded = False
            if site is not None and val is not None:
                tests = ctx.nodes(f, lambda n: n.op == "test" and isinstance(n.ast, ast.Compare) and len(n.ast.ops) == 1 and isinstance(n.ast.ops[0], ast.Is)
                                  and isinstance(n.ast.left, ast.Name) and n.ast.left.id == vp and isinstance(n.ast.comparators[0], ast.Constant) and n.ast.comparators[0].value is None)
                g = ctx.an.cfg(f)
                for t in tests:
                    no = [s_ for s_, lab in t.succ if lab[0] == "F"]
                    if site not in reach([g.entry], lambda a, b, lab: not (a is t and lab[0] == "T")):
                        guarded = True
            rep.ob(rule, f"`{vp}` reaches the store as it was passed", True if guarded else None, func=f, node=site, construct=site if site is not None else f"{vp} re-bound",
                   detail="" if guarded else "the parameter is re-bound: cannot tell whether every size (0 included) survives")

    for f in setters:
        vp = [p for p in f.param_names() if p != "self"][0]
        check_param(f, vp)
    n_ctor = 0
    for f in ctx.pool_funcs("__init__"):
        if "pool_size" not in f.param_names():
            continue
        n_ctor += 1
        check_param(f, "pool_size")
        if f.cls is not ctx.base:
            # handed to the base constructor unchanged
            sups = [n for n in ctx.nodes(f, lambda n: n.op == "call" and isinstance(n.ast.func, ast.Attribute) and n.ast.func.attr == "__init__")]
            ok = None
            for c in ctx.distinct_sites(sups):
                kws = {k.arg: k.value for k in c.ast.keywords if k.arg}
                v = kws.get("pool_size", c.ast.args[0] if c.ast.args else None)
                ok = isinstance(v, ast.Name) and v.id == "pool_size"
            rep.ob(rule, "the subclass constructor passes its pool_size argument on unchanged", ok, func=f, construct="super().__init__(pool_size=...)")
    rep.floor(rule, "constructors taking pool_size", n_ctor, 2)


def r_atomic_slot_registry(ctx: Ctx, rule="R01.5"):
    rep = ctx.rep
    rep.rule(rule, "ATOMIC(registry removal, release) in _task_ending and ATOMIC(acquire completed, registry insert) in _start_task "
                   "(no effective suspension step, no user code in between; uses lemma L-LOCK)")
    for f in ctx.pool_funcs("_task_ending"):
        pops = ctx.nodes(f, lambda n: any(e.kind == "remove" and field_of(e.path) in ("_tasks_running", "_tasks_cancelled") for e in ctx.trans_effects(n)))
        rels = ctx.nodes(f, lambda n: any(e.kind == "release" and e.path == SLOT for e in ctx.trans_effects(n)))
        rep.floor(rule, f"registry removals in {f.short}", len(ctx.distinct_sites(pops)), 1)
        if not rels:
            rep.ob(rule, "_task_ending releases the slot", False, func=f, construct="(no release)")
            continue
        mid = between(pops, rels) | set(rels)
        bad = [m for m in mid if ctx.effective(m) or m.user]
        rep.ob(rule, "no suspension/user code between leaving the running/cancelled registry and releasing the slot", not bad, func=f,
               construct=bad[0] if bad else "registry pop .. release", detail="" if not bad else f"{bad[0].where()} {bad[0].text(60)}")
    ok, why = ctx.llock()
    rep.ob("L-LOCK", "the group register lock is never held across a suspension (so `async with group_reg` never yields)", ok, detail=why,
           construct="async with <TaskGroupRegister>")
    for f in ctx.pool_funcs("_start_task"):
        acq = slot_acquires(ctx, f)
        ins = ctx.nodes(f, lambda n: any(e.kind == "insert" and e.path == RUN for e in ctx.trans_effects(n)))
        rep.floor(rule, f"running-registry inserts in {f.short}", len(ctx.distinct_sites(ins)), 1)
        mid = between(acq, ins)
        bad = [m for m in mid if ctx.effective(m) or m.user]
        rep.ob(rule, "no effective suspension/user code between the completed acquire and filing the task as running", not bad, func=f,
               construct=bad[0] if bad else "acquire .. insert", detail="" if not bad else f"{bad[0].where()} {bad[0].text(60)}")


def r_is_full(ctx: Ctx, rule="R01.6"):
    rep = ctx.rep
    rep.rule(rule, "is_full returns exactly the semaphore's locked() (other expressions are inconclusive)")
    for f in ctx.pool_funcs("is_full"):
        rets = [n for n in ast.walk(f.node) if isinstance(n, ast.Return)]
        ok = None
        if len(rets) == 1 and rets[0].value is not None and isinstance(ctx.vals.resolve(f, rets[0].value), ast.Call):
            c = ctx.vals.resolve(f, rets[0].value)
            if isinstance(c.func, ast.Attribute) and c.func.attr == "locked" and ctx.eff.paths(f).of(c.func.value) == SLOT and not c.args:
                ok = True
        rep.ob(rule, "is_full == self._enough_room.locked()", ok, func=f, construct=rets[0] if rets else "(no return)")


# ---------------------------------------------------------------------- R02.1
def r_handoff(ctx: Ctx, rule="R02.1"):
    """HANDOFF: an obligation acquired by the creator and discharged only in the new task's body."""
    rep = ctx.rep
    rep.rule(rule, "HANDOFF(create_task site): a slot acquired by the creator and released only inside the new task's coroutine body is lost "
                   "if the task can be cancelled before its first step, unless a done-callback / eager start discharges it")
    sites = wrapper_sites(ctx)
    rep.floor(rule, "create_task(_task_wrapper(...)) sites", len(sites), 1)
    for site in sites:
        f = site.root if site.root is not None else site.func  # (the creation may sit in a helper spliced into the acquirer)
        g = ctx.an.cfg(f)
        acq = slot_acquires(ctx, f)
        holds = bool(acq) and dominated_by_completion(g, acq, site)
        after = reach([site], include_starts=False)
        released_here = [m for m in after if release_pred(ctx)(m)]
        if not holds or released_here:
            rep.ob(rule, "creator holds no undischarged slot at the hand-off", True, node=site)
            continue
        # is the release inside the new task's body?
        _arg, body_fns = coro_of(ctx, site)
        in_body = False
        for t in body_fns or []:
            res = count_paths(ctx.an, t, release_pred(ctx))
            if any(c != frozenset({0}) for c in res.values()):
                in_body = True
        if not in_body:
            rep.ob(rule, "the slot acquired for the task is released somewhere", None, node=site, detail="no release found in the task body either")
            continue
        # can the task be reached by a cancel before its first step?  It is published in a registry ...
        stored = [e for m in g.nodes if m.stmt is site.stmt or (site.func is not f and can_follow(site, m) and not any(ctx.effective(x) for x in between([site], [m])))
                  for e in ctx.eff.of_node(m) if e.kind == "insert" and field_of(e.path) in ("_tasks_running",)]
        cancels = [e for e in ctx.effects(kinds=["cancel", "maybe-cancel"]) if ctx.in_pool(e.node.func)]
        reachers = sorted({ctx.fname(e.node.func) for e in cancels})
        # mitigations
        call: ast.Call = site.ast
        eager = any(kw.arg == "eager_start" and isinstance(kw.value, ast.Constant) and kw.value.value is True for kw in call.keywords)
        done_cb = [m for m in ctx.nodes(f, lambda n: n.op == "call" and isinstance(n.ast.func, ast.Attribute) and n.ast.func.attr == "add_done_callback")]
        loop_factory = False
        if eager:
            rep.ob(rule, "hand-off made safe by eager start", True, node=site)
            continue
        if done_cb:
            # accept only if the callback (a package function) releases the slot or the body is restructured; otherwise inconclusive
            good = False
            for m in done_cb:
                cb = m.ast.args[0] if m.ast.args else None
                targets = []
                if isinstance(cb, ast.Attribute) and isinstance(cb.value, ast.Name) and cb.value.id == ctx.an.scope(f).selfname:
                    targets = ctx.pool_funcs(cb.attr, required=False)
                elif isinstance(cb, ast.Name) and cb.id in ctx.an.scope(f).nested:
                    targets = [ctx.an.scope(f).nested[cb.id]]
                elif isinstance(cb, ast.Call):  # functools.partial(self._x, ...)
                    for a in cb.args[:1]:
                        if isinstance(a, ast.Attribute):
                            targets = ctx.pool_funcs(a.attr, required=False)
                for t in targets:
                    res = count_paths(ctx.an, t, release_pred(ctx))
                    if any(c != frozenset({0}) for c in res.values()):
                        good = True
            rep.ob(rule, "hand-off covered by a done-callback that discharges the slot for a task that never started", True if good else None,
                   node=site, detail="done-callback found" + ("" if good else " but it does not visibly release the slot"))
            continue
        if stored and cancels:
            rep.ob(rule, "a pool task cancelled before its first step still returns its slot and leaves the running registry", False, node=site, func=f,
                   construct="create_task(" + ",".join(t.qual for t in body_fns) + "(...)) with the slot held",
                   detail=f"slot acquired at {acq[0].where()} is released only inside the task body ({', '.join(t.short for t in body_fns)} -> _task_ending); "
                          f"the task is published in _tasks_running in the same statement and can be cancelled by {reachers} "
                          "before it has run its first step, in which case the body (and its finally) never executes")
        else:
            rep.ob(rule, "created task is not reachable by cancel before its first step", True, node=site)


# ---------------------------------------------------------------------- R13.1
def r_snapshot_forget(ctx: Ctx, rule="R13.1", funcs=("flush",)):
    """SNAPSHOT-FORGET: bulk removals from a registry after a suspension are restricted to a pre-await snapshot."""
    rep = ctx.rep
    rep.rule(rule, "SNAPSHOT-FORGET: a registry removal that follows a suspension step of the same function removes only ids of a snapshot "
                   "taken before that suspension (entries added while suspended must survive)")
    for name in funcs:
        impls = forgetting_impls(ctx, name)
        total_removals = 0
        for f in impls:
            g = ctx.an.cfg(f)
            removals = [n for n in ctx.nodes(f, lambda n: any(e.kind in ("clear", "remove", "assign") and field_of(e.path) in ("_tasks_ended", "_tasks_cancelled", "_tasks_running")
                                                                and e.path.count(".") == 1 for e in ctx.eff.of_node(n)))]
            total_removals += len(ctx.distinct_sites(removals))
            if f is impls[-1]:
                rep.floor(rule, f"registry removals in {name} (and the coroutines it delegates to)", total_removals, 1)
            susp = ctx.nodes(f, lambda n: ctx.effective(n))
            for r in ctx.distinct_sites(removals):
                eff = [e for e in ctx.eff.of_node(r) if e.kind in ("clear", "remove", "assign") and field_of(e.path) in ("_tasks_ended", "_tasks_cancelled", "_tasks_running")][0]
                before = [s for s in susp if can_follow(s, r)]
                # (b) forget <= gathered: the tasks forgotten were awaited first
                if name == "flush":
                    gathered = _forgotten_were_gathered(ctx, f, [c for c in removals if c.ast is r.ast and c.op == r.op], eff)
                    rep.ob(rule, f"tasks are removed from {eff.path} only after flush has awaited them (a task still inside its callbacks is never forgotten)", gathered, node=r,
                           detail="" if gathered else "no completed gather over these tasks dominates the removal: tasks still inside their cancel/end callbacks are dropped, "
                                                      "and their later _task_ending cannot find them")
                if not before:
                    rep.ob(rule, "removal not preceded by a suspension step", True, node=r)
                    continue
                # judge every CFG instance of the removal (clean-up code is instantiated per continuation:
                # the copy that runs after the gather was interrupted must satisfy the rule as well)
                copies = [c for c in removals if c.ast is r.ast and c.op == r.op]
                verdicts = [_removal_is_snapshot_keyed(ctx, f, c, eff, [s for s in susp if can_follow(s, c)]) for c in copies]
                ok = False if any(v is False for v in verdicts) else (None if any(v is None for v in verdicts) else True)
                badcopy = next((c for c, v in zip(copies, verdicts) if v is False), None)
                # other writers of the registry exist?  (E6: writers != {f})
                others = [e for e in ctx.effects(fields=[field_of(eff.path)], kinds=["insert"]) if e.node.func is not f]
                if ok is False and not others:
                    ok = True
                tagtxt = "" if badcopy is None or not badcopy.tag else f" [on the path resuming '{badcopy.tag[-1][1][0]}' after the protected block, i.e. when the wait did not complete]"
                rep.ob(rule, f"removal from {eff.path} after a suspension is restricted to ids snapshotted before it and gathered meanwhile", ok, node=r,
                       detail="" if ok else f"`{r.text(60)}` follows the suspension at {before[-1].where()} ({before[-1].text(50)}){tagtxt}; entries inserted into "
                                            f"{eff.path} by {sorted({ctx.fname(e.node.func) for e in others})} while {f.name} is suspended are dropped without having been gathered")


def forgetting_impls(ctx: Ctx, name: str) -> List[FuncInfo]:
    """`name` (e.g. flush) and the pool coroutines it awaits, transitively, that forget tasks or gather on its behalf"""
    out: List[FuncInfo] = []
    seen: Set[str] = set()
    work = list(ctx.pool_funcs(name))
    while work:
        f = work.pop(0)
        if f.qual in seen:
            continue
        seen.add(f.qual)
        out.append(f)
        for n in ctx.nodes(f, lambda n: n.op == "await" and n.awaited is not None and n.awaited.kind == "pkg" and n.inlined is None):
            for t in n.awaited.targets:
                if ctx.in_pool(t) and t.name not in ("flush", "gather_and_close", "_task_wrapper", "_start_task") and \
                        any(e.kind in ("clear", "remove", "assign") and field_of(e.path) in ("_tasks_ended", "_tasks_cancelled") for e in ctx.func_trans_effects(t)):
                    work.append(t)
    return out


def _removal_is_snapshot_keyed(ctx: Ctx, f: FuncInfo, r: Node, eff, susp_before: List[Node]) -> Optional[bool]:
    """True: keyed by a pre-suspension snapshot / per-element done() guard; False: bulk clear/rebind; None: unknown shape."""
    if eff.kind == "clear":
        return False
    sc = ctx.an.scope(r.func)
    if eff.kind == "assign":
        # rebuild by filtering: self._tasks_ended = {k: v for k, v in self._tasks_ended.items() if k not in snapshot / not v.done()}
        val = _assigned_value(ctx, f, r, eff)
        if isinstance(val, (ast.DictComp,)) and val.generators and val.generators[0].ifs:
            # the dictionary that is filtered is reached through a local bound to the registry BEFORE the suspension: as this very
            # statement re-binds the attribute, an overlapping call still holds the old dictionary when it resumes and writes back
            # a registry without whatever was filed in between
            it0 = val.generators[0].iter
            if isinstance(it0, ast.Call) and isinstance(it0.func, ast.Attribute) and it0.func.attr in ("items", "keys", "copy") and not it0.args:
                it0 = it0.func.value
            if isinstance(it0, ast.Name) and it0.id in sc.defs and it0.id not in sc.params:
                vals0 = [h[1] for h in sc.defs[it0.id] if h[0] == "assign"] + [h[2] for h in sc.defs[it0.id] if h[0] == "ann"]
                if len(vals0) == 1 and ctx.eff.paths(r.func).of(vals0[0]) == eff.path:
                    g_ = ctx.an.cfg(f)
                    defs_ = [n for n in g_.nodes if n.op == "assign" and n.pred and n.func is r.func
                             and any(isinstance(t, ast.Name) and t.id == it0.id for t in (n.ast.targets if isinstance(n.ast, ast.Assign) else [n.ast.target]))]
                    if defs_ and any(can_follow(d, s_) and can_follow(s_, r) for d in defs_ for s_ in susp_before):
                        return False
            src = ctx.path_at(r, val.generators[0].iter)
            if src == eff.path:
                cond = ast.unparse(val.generators[0].ifs[0])
                if ".done()" in cond:
                    return True
                names = [n.id for n in ast.walk(val.generators[0].ifs[0]) if isinstance(n, ast.Name)]
                if any(_defined_before(ctx, f, nm, susp_before, r.func) for nm in names):
                    return True
                # ... or by a snapshot taken later whose tasks were gathered before the rebuild (same judgement as for keyed pops)
                cond0 = val.generators[0].ifs[0]
                if isinstance(cond0, ast.Compare) and len(cond0.ops) == 1 and isinstance(cond0.ops[0], ast.NotIn) and isinstance(cond0.comparators[0], ast.Name) \
                        and cond0.comparators[0].id in sc.defs and _snapshot_gathered(ctx, f, r, cond0.comparators[0].id, eff) is True \
                        and ctx.eff.paths(r.func).is_copy(cond0.comparators[0]):
                    return True
            return None
        if isinstance(val, (ast.Dict, ast.Call)) and not (isinstance(val, ast.Dict) and val.keys):
            return False
        return None
    # keyed removal: pop(key[, default]) / del R[key]; the key must come from iterating a local snapshot defined before the suspension
    key = None
    if isinstance(r.ast, ast.Call) and r.ast.args:
        key = r.ast.args[0]
    elif isinstance(r.ast, ast.Delete):
        t = r.ast.targets[0]
        key = t.slice if isinstance(t, ast.Subscript) else None
    if key is None:
        return None
    if not r.loops:
        return None
    lp = r.loops[-1]
    it = lp.iter if isinstance(lp, (ast.For, ast.AsyncFor)) else None
    if it is None:
        # guarded per element by done()?
        return None
    # sources of the iteration: local snapshots and/or live registries
    frame, fenv, it = _caller_frame(ctx, r.func, r.env, it)
    sc = ctx.an.scope(frame)
    live, locals_ = [], []
    for sub in ast.walk(it):
        if isinstance(sub, ast.Attribute):
            p = ctx.eff.paths(frame).of(sub)
            p = ctx.eff.rebase(p, frame, fenv) if p is not None else None
            if p is not None and p.count(".") == 1 and field_of(p) in ("_tasks_ended", "_tasks_cancelled", "_tasks_running"):
                live.append(p)
        elif isinstance(sub, ast.Name) and sub.id in sc.defs and sub.id != sc.selfname:
            locals_.append(sub.id)
    if live:
        # iterating the live registry (or a copy made after the suspension): per-element guard required
        guard = _enclosing_if_texts(r.func, r)
        if any(".done()" in t for t in guard) or _done_guarded(ctx, f, r):
            return True
        return False
    if locals_:
        # a "snapshot" must be a copy: a live view (ChainMap(a, b), a.keys(), an alias) follows the registry while flush waits
        P_ = ctx.eff.paths(frame)
        views = [nm for nm in locals_ if not P_.is_copy(ast.Name(id=nm, ctx=ast.Load())) and
                 any(field_of(x) in ("_tasks_ended", "_tasks_cancelled", "_tasks_running") for x in _local_sources(ctx, frame, fenv, nm))]
        if views:
            guard = _enclosing_if_texts(r.func, r)
            return True if any(".done()" in t for t in guard) or _done_guarded(ctx, f, r) else False
        verdicts = [_snapshot_gathered(ctx, f, r, nm, eff, frame, fenv) for nm in locals_]
        if all(v is True for v in verdicts):
            return True
        if any(v is False for v in verdicts):
            return False
    return None


_GROWERS = ("update", "add", "extend", "append", "insert", "setdefault", "__setitem__")


def _is_grower(x: ast.AST, name: str) -> Optional[List[ast.AST]]:
    """If statement/expression x adds to local collection `name`, the expressions it adds from."""
    if isinstance(x, ast.Call) and isinstance(x.func, ast.Attribute) and isinstance(x.func.value, ast.Name) and x.func.value.id == name and x.func.attr in _GROWERS:
        return list(x.args) + [k.value for k in x.keywords]
    if isinstance(x, ast.AugAssign) and isinstance(x.target, ast.Name) and x.target.id == name:
        return [x.value]
    if isinstance(x, ast.Assign) and any(isinstance(t, ast.Subscript) and isinstance(t.value, ast.Name) and t.value.id == name for t in x.targets):
        return [x.value]
    return None


_LS_BUSY: Set[tuple] = set()


def _local_sources(ctx: Ctx, frame: FuncInfo, fenv, name: str) -> Set[str]:
    """Registry paths whose content flows into local collection `name` of `frame` (bindings and in-place growth)."""
    key_ = (frame.qual, id(fenv), name)
    if key_ in _LS_BUSY:
        return set()  # (`x = list(x)`: a local defined in terms of itself adds nothing new)
    _LS_BUSY.add(key_)
    try:
        return _local_sources_(ctx, frame, fenv, name)
    finally:
        _LS_BUSY.discard(key_)


def _local_sources_(ctx: Ctx, frame: FuncInfo, fenv, name: str) -> Set[str]:
    sc = ctx.an.scope(frame)
    exprs: List[ast.AST] = []
    for h in sc.defs.get(name, []):
        v = h[1] if h[0] == "assign" else (h[2] if h[0] == "ann" else None)
        if v is not None:
            exprs.append(v)
        if h[0] == "elt":
            src = h[1][1] if len(h[1]) > 1 else None
            if src is not None:
                exprs.append(src)
    for x in sc._own_nodes():
        g = _is_grower(x, name)
        if g:
            exprs += g
    out: Set[str] = set()
    for v in exprs:
        out |= expr_sources(ctx, frame, fenv, v)
    return out


def expr_sources(ctx: Ctx, fr: FuncInfo, env, v: ast.AST, depth: int = 0) -> Set[str]:
    """Registry paths an expression draws its content from: the attribute paths it mentions, what the helpers spliced in
    at its calls return, and what flows into the local collections it names."""
    from ..cfg import bind_args

    out: Set[str] = set()
    sc = ctx.an.scope(fr)
    for x in ast.walk(v):
        if isinstance(x, ast.Attribute):
            p = ctx.eff.paths(fr).of(x)
            if p is not None:
                out.add(ctx.eff.rebase(p, fr, env))
        elif isinstance(x, ast.Call) and id(x) in ctx.an.spliced_at and depth < 4:
            # what a spliced helper returns
            t = ctx.an.spliced_at[id(x)]
            sub = bind_args(x, t, fr, env)
            for r in ctx.an.scope(t)._own_nodes():
                if isinstance(r, ast.Return) and r.value is not None:
                    out |= expr_sources(ctx, t, sub, r.value, depth + 1)
                    if isinstance(r.value, ast.Name) and r.value.id in ctx.an.scope(t).defs:
                        out.update(_local_sources(ctx, t, sub, r.value.id))
        elif isinstance(x, ast.Name) and depth < 4 and x is not v and x.id in sc.defs and x.id not in sc.params:
            out.update(_local_sources(ctx, fr, env, x.id))
    return out


def _caller_frame(ctx: Ctx, frame: FuncInfo, fenv, e: ast.AST):
    """A parameter of a spliced helper stands for the caller's argument: (frame, env, expression) in the caller's terms."""
    while isinstance(e, ast.Name) and fenv and e.id in fenv and e.id in ctx.an.scope(frame).params and not ctx.an.scope(frame).defs.get(e.id):
        frame, e, fenv = fenv[e.id]
    return frame, fenv, e


def _assigned_value(ctx: Ctx, f: FuncInfo, r: Node, eff) -> Optional[ast.AST]:
    """value stored into eff.path by assignment r (tuple assignments resolved element-wise)"""
    st = r.ast
    val = getattr(st, "value", None)
    targets = st.targets if isinstance(st, ast.Assign) else [getattr(st, "target", None)]
    for t in targets:
        if isinstance(t, (ast.Tuple, ast.List)) and isinstance(val, (ast.Tuple, ast.List)) and len(t.elts) == len(val.elts):
            for te, ve in zip(t.elts, val.elts):
                if ctx.path_at(r, te) == eff.path:
                    return ve
    return val


def _forgotten_were_gathered(ctx: Ctx, f: FuncInfo, copies: List[Node], eff) -> bool:
    g = ctx.an.cfg(f)
    gathers = [n for n in g.nodes if n.pred and n.op == "await" and n.awaited is not None and n.awaited.kind == "ext" and n.awaited.name in GATHER]
    def covers(G: Node) -> bool:
        call = strip_cast(G.ast.value)
        sc = ctx.an.scope(G.func)

        class _P:
            @staticmethod
            def of(x):
                return ctx.path_at(G, x)
        P = _P
        for a in call.args:
            p = P.of(a)
            if p == eff.path:
                return True
            # a local snapshot built from the registry
            for nm in [x.id for x in ast.walk(a) if isinstance(x, ast.Name)]:
                if nm in sc.defs and eff.path in _local_sources(ctx, G.func, G.env, nm):
                    return True
            # a display / expression drawing from the registry in place: gather(*{**self._a, **self._b}.values())
            if p is None and eff.path in expr_sources(ctx, G.func, G.env, a.value if isinstance(a, ast.Starred) else a):
                return True
        return False

    good = [G for G in gathers if covers(G)]
    if not good:
        return False
    return all(dominated_by_completion(g, good, c) for c in copies)


def _snapshot_gathered(ctx: Ctx, f: FuncInfo, r: Node, name: str, eff, frame: Optional[FuncInfo] = None, fenv=None) -> Optional[bool]:
    """The ids removed come from local snapshot `name`; its tasks must have been awaited between the
    snapshot and the removal (forget <= gathered), or the snapshot and the awaited set are taken in one atomic segment."""
    g = ctx.an.cfg(f)
    if frame is None:
        frame, fenv = r.func, r.env
    defs = [n for n in g.nodes if n.op == "assign" and n.pred and n.func is frame and n.env is fenv and any(isinstance(t, ast.Name) and t.id == name for t in (n.ast.targets if isinstance(n.ast, ast.Assign) else [n.ast.target]))]
    if not defs:
        return None
    # steps that add to the snapshot in place count as (re)definitions: they too must precede the wait
    defs += [n for n in g.nodes if n.pred and n.func is frame and n.env is fenv and n.op in ("call", "aug", "assign") and _is_grower(n.ast, name)]
    gathers = [n for n in g.nodes if n.pred and n.op == "await" and n.awaited is not None and n.awaited.kind == "ext" and n.awaited.name in GATHER]
    for G in gathers:
        if not dominated_by_completion(g, [G], r):
            continue
        call = strip_cast(G.ast.value)
        mentions_snapshot = G.func is frame and G.env is fenv and any(isinstance(x, ast.Name) and x.id == name for x in ast.walk(call))
        arg_paths = {ctx.path_at(G, a) for a in call.args}
        ok_all = True
        for d in defs:
            if not can_follow(d, G):
                ok_all = False
                break
            if mentions_snapshot:
                continue
            mid = between([d], [G])
            if any(ctx.effective(m) or m.user for m in mid) or eff.path not in arg_paths:
                ok_all = False
                break
        if ok_all:
            return True
    return False


def _defined_before(ctx: Ctx, f: FuncInfo, name: str, susp: List[Node], frame: Optional[FuncInfo] = None) -> bool:
    """Is every definition of local `name` executed before every suspension in `susp` (i.e. no suspension can precede it)?"""
    g = ctx.an.cfg(f)
    defs = [n for n in g.nodes if n.op == "assign" and n.pred and (frame is None or n.func is frame) and any(isinstance(t, ast.Name) and t.id == name for t in (n.ast.targets if isinstance(n.ast, ast.Assign) else [n.ast.target]))]
    if not defs:
        return False
    for d in defs:
        for s in susp:
            if can_follow(s, d) and not can_follow(d, s):
                return False
        if not any(can_follow(d, s) for s in susp):
            return False
    return True


def _done_guarded(ctx: Ctx, f: FuncInfo, r: Node) -> bool:
    """The step is reached only through the `done` outcome of a `<task>.done()` test (however the test is spelled: an enclosing
    `if t.done():`, or `if not t.done(): continue` before it)."""
    g = ctx.an.cfg(r.root if r.root is not None else f)

    def done_test(n: Node):
        e, neg = n.ast, False
        while isinstance(e, ast.UnaryOp) and isinstance(e.op, ast.Not):
            e, neg = e.operand, not neg
        if isinstance(e, ast.Call) and isinstance(e.func, ast.Attribute) and e.func.attr == "done" and not e.args:
            return neg
        return None

    tests = {n: done_test(n) for n in g.nodes if n.op == "test" and n.pred and done_test(n) is not None}
    if not tests:
        return False

    def ef(a: Node, b: Node, lab: Label) -> bool:
        if a in tests and lab[0] in ("T", "F"):
            is_done_edge = (lab[0] == "T") != tests[a]
            return not is_done_edge
        return True

    copies = [n for n in g.nodes if n.ast is r.ast and n.op == r.op and n.pred]
    reachable = reach([g.entry], ef)
    return bool(copies) and not any(c in reachable for c in copies)


def _enclosing_if_texts(f: FuncInfo, n: Node) -> List[str]:
    out = []
    target = n.stmt

    def rec(body, conds):
        for st in body:
            if st is target:
                out.extend(conds)
                return True
            if isinstance(st, ast.If):
                if rec(st.body, conds + [ast.unparse(st.test)]) or rec(st.orelse, conds + ["not " + ast.unparse(st.test)]):
                    return True
            else:
                for fld in ("body", "orelse", "finalbody", "handlers"):
                    sub = getattr(st, fld, None)
                    if sub:
                        items = []
                        for x in sub:
                            items += x.body if isinstance(x, ast.ExceptHandler) else [x]
                        if rec(items, conds):
                            return True
        return False

    rec(f.node.body, [])
    return out


# ---------------------------------------------------------------------- R02.x
def r_wrapper_armed(ctx: Ctx, rule="R02.2"):
    rep = ctx.rep
    rep.rule(rule, "in _task_wrapper no suspension step and no user-code step precedes the protected region whose clean-up awaits _task_ending; "
                   "the user coroutine is awaited inside it")
    for w in ctx.pool_funcs("_task_wrapper"):
        g = ctx.an.cfg(w)
        aw = ctx.nodes(w, lambda n: n.op == "await" and n.awaited_user)
        rep.floor(rule, "await of the user coroutine in the wrapper", len(ctx.distinct_sites(aw)), 1)
        pre = set()
        for a in aw:
            pre |= between([g.entry], [a])
        bad = [m for m in pre if ctx.effective(m) or m.user]
        rep.ob(rule, "nothing can suspend or run user code before the user coroutine is awaited under protection", not bad, func=w,
               construct=bad[0] if bad else "entry .. await awaitable", detail="" if not bad else f"{bad[0].where()} {bad[0].text(60)}")


def r_spawner_capacity_info(ctx: Ctx, rule="R02.5"):
    rep = ctx.rep
    rep.rule(rule, "spawners never own pool capacity: the pool slot is acquired only inside _start_task (recorded: coroutine.close() and the "
                   "map semaphore release on interruption are reported, not required)")
    for name in ("_apply_spawner", "_arg_consumer", "_start_num"):
        for f in ctx.pool_funcs(name, required=False):
            acq = [e for e in ctx.eff.of_func(f) if e.kind == "acquire" and e.path == SLOT]
            rep.ob(rule, "spawner does not acquire pool slots itself", not acq, func=f, construct=acq[0].node if acq else f"{f.name}: no pool-slot acquire")
            closes = ctx.nodes(f, lambda n: n.op == "call" and isinstance(n.ast.func, ast.Attribute) and n.ast.func.attr == "close")
            rep.ob(rule, "unused coroutine closed on interruption (recorded only)", "info", func=f, construct=f"close() sites: {len(ctx.distinct_sites(closes))}")


# ---------------------------------------------------------------------- R03.1
REG_TABLE = {
    # field: kind -> allowed hosts
    "_tasks_running": {"insert": {"_start_task"}, "remove": {"_task_cancellation", "_task_ending"}, "clear": {"gather_and_close"}, "assign": {"__init__"}},
    "_tasks_cancelled": {"insert": {"_task_cancellation"}, "remove": {"_task_ending", "flush", "gather_and_close"}, "clear": {"flush", "gather_and_close"}, "assign": {"__init__"}},
    "_tasks_ended": {"insert": {"_task_ending"}, "remove": {"flush", "gather_and_close"}, "clear": {"flush", "gather_and_close"}, "assign": {"__init__"}},
}


def r_registry_who(ctx: Ctx, rule="R03.1"):
    rep = ctx.rep
    rep.rule(rule, "registry transition table = WHO(write of _tasks_running/_tasks_cancelled/_tasks_ended): insert->running only in _start_task; "
                   "running->cancelled only in _task_cancellation; ->ended only in _task_ending; forgetting only in flush (ended, cancelled) and "
                   "gather_and_close (all three)")
    counts = {"insert": 0, "move": 0, "forget": 0}
    for fld, table in REG_TABLE.items():
        for e in ctx.effects(fields=[fld], kinds=["insert", "remove", "clear", "assign", "aug", "maybe-pop", "maybe-clear", "maybe-popitem", "maybe-update"]):
            # only the registry itself, not its elements (self._tasks_running[] is a Task)
            if not re.search(r"\." + fld + r"$", e.path):
                continue
            kind = e.kind.replace("maybe-", "")
            kind = {"pop": "remove", "popitem": "remove", "update": "insert", "aug": "assign"}.get(kind, kind)
            allowed = table.get(kind, set())
            hosts = ctx.hosts_of(e.node)
            ok = hosts <= allowed and ctx.in_pool(e.node.func)
            if kind == "assign" and not ok and hosts <= {"flush", "gather_and_close"} and fld != "_tasks_running" or (kind == "assign" and hosts <= {"gather_and_close"}):
                ok = True  # rebuilding idiom; judged by SNAPSHOT-FORGET
            if not ok and ctx.in_pool(e.node.func) and kind in ("insert", "remove"):
                # an additional writer is acceptable if all it does are legal, atomic registry moves
                lm = legal_moves(ctx, e.node.root if e.node.root is not None else e.node.func)
                if lm is True:
                    rep.ob(rule, f"{kind} on {fld} by an additional writer that performs only legal atomic moves (running->cancelled->ended, running->ended)", True, node=e.node,
                           detail=f"{e.kind} {e.path} on behalf of {sorted(hosts)}")
                    continue
                if lm is None:
                    ok = None
            rep.ob(rule, f"{kind} on {fld} only by {sorted(allowed)}", ok, node=e.node, detail=f"{e.kind} {e.path} on behalf of {sorted(hosts)}")
            if kind == "insert":
                counts["insert" if fld == "_tasks_running" else "move"] += 1
            elif kind in ("clear",) or (kind in ("remove", "assign") and hosts <= {"flush", "gather_and_close"}):
                counts["forget"] += 1
            elif kind == "remove":
                counts["move"] += 1
    rep.floor(rule, "inserts into the running registry", counts["insert"], 1)
    rep.floor(rule, "registry moves (pop/insert pairs)", counts["move"], 5)
    rep.floor(rule, "forgetting sites", counts["forget"], 5)
    # keyed moves use the function's task id on both sides
    for name in ("_task_cancellation", "_task_ending"):
        for f in ctx.pool_funcs(name):
            for n in ctx.distinct_sites(ctx.nodes(f, lambda n: n.op == "assign" and any(e.kind == "insert" and field_of(e.path) in REG_TABLE for e in ctx.eff.of_node(n)))):
                tgt = (n.ast.targets if isinstance(n.ast, ast.Assign) else [n.ast.target])[0]
                keys = [tgt.slice] if isinstance(tgt, ast.Subscript) else []
                val = n.ast.value
                if isinstance(val, ast.Call) and isinstance(val.func, ast.Attribute) and val.func.attr == "pop" and val.args:
                    keys.append(val.args[0])
                same = len({ast.unparse(k) for k in keys}) == 1 and all(isinstance(k, ast.Name) and k.id in f.param_names() for k in keys)
                rep.ob(rule, "a registry move files the same id it removed (the function's task id)", same if keys else None, node=n)


def legal_moves(ctx: Ctx, f: FuncInfo) -> Optional[bool]:
    """Does this function, for an id filed anywhere, only perform legal registry moves (R->C, R->E, C->E), each in one atomic segment,
    and never leave the id in no registry?  True / False / None (not understood)."""
    regs = {"_tasks_running": "R", "_tasks_cancelled": "C", "_tasks_ended": "E"}
    legal = {("R", "C"), ("R", "E"), ("C", "E")}
    P = ctx.eff.paths(f)
    verdict = [True]
    keys: Set[str] = set()

    def reg(e) -> Optional[str]:
        p = P.of(e)
        if p is None or "[" in p or p.count(".") != 1:
            return None
        return regs.get(field_of(p))

    def transfer(ai: AbsInt, n: Node, lab: Label, st):
        loc, src = st  # src: registry the id was taken from while in limbo
        a = n.ast
        normal = lab[0] in NORMAL_KINDS
        if n.op == "test" and lab[0] in ("T", "F"):
            # `id in <registry>` / `id not in <registry>`: decided by where the id is filed
            t_, neg = a, False
            while isinstance(t_, ast.UnaryOp) and isinstance(t_.op, ast.Not):
                t_, neg = t_.operand, not neg
            if isinstance(t_, ast.Compare) and len(t_.ops) == 1 and isinstance(t_.ops[0], (ast.In, ast.NotIn)) and reg(t_.comparators[0]) is not None:
                holds = (loc == reg(t_.comparators[0])) == isinstance(t_.ops[0], ast.In)
                if neg:
                    holds = not holds
                return [st] if holds == (lab[0] == "T") else []
        if n.op == "call" and isinstance(a, ast.Call) and isinstance(a.func, ast.Attribute) and a.func.attr == "pop" and a.args:
            r = reg(a.func.value)
            if r is not None:
                keys.add(ast.unparse(a.args[0]))
                if lab == ("x", (KEYERROR, True)):
                    return [] if loc == r else [st]
                if normal:
                    if loc == r:
                        return [("-", r)]
                    return [st] if len(a.args) > 1 else []
        if n.op == "call" and isinstance(a, ast.Call) and isinstance(a.func, ast.Attribute) and a.func.attr in ("clear", "popitem", "update") and reg(a.func.value) is not None and normal:
            verdict[0] = False
        if n.op == "del" and normal:
            for t in a.targets:
                if isinstance(t, ast.Subscript) and reg(t.value) is not None:
                    keys.add(ast.unparse(t.slice))
                    if loc == reg(t.value):
                        return [("-", loc)]
        if n.op == "assign" and normal:
            for t in (a.targets if isinstance(a, ast.Assign) else [a.target]):
                if isinstance(t, ast.Subscript) and reg(t.value) is not None:
                    r = reg(t.value)
                    keys.add(ast.unparse(t.slice))
                    if loc == "N":
                        verdict[0] = False  # files an id that is in no registry: a task the pool has forgotten (flushed) comes back
                        return [(r, None)]
                    if loc == "-":
                        if (src, r) not in legal:
                            verdict[0] = False
                        return [(r, None)]
                    if loc != r:
                        verdict[0] = False  # filed twice
                    return [st]
                if isinstance(t, ast.Attribute) and reg(t) is not None:
                    verdict[0] = False  # rebinding a registry
        if (ctx.effective(n) or n.user) and loc == "-":
            verdict[0] = False
        return [st]

    per_init: Dict[str, bool] = {}
    for init in ("R", "C", "E", "N"):
        verdict[0] = True
        ai = AbsInt(ctx.an, transfer)
        exits = ai.run(f, (init, None))
        for k, sts in exits.items():
            for loc, src in sts:
                if loc == "-":
                    verdict[0] = False
        per_init[init] = verdict[0]
    if len(keys) > 1:
        return None
    if all(per_init.values()):
        return True
    if not per_init["N"]:
        return False
    # which registries does the function take ids from?  If the moves are legal for ids that really are filed there, the
    # function may rely on a guard the analysis cannot see (e.g. task.cancelled()): not understood, not a violation
    sources = {regs[field_of(e.path)] for e in ctx.eff.of_func(f) if e.kind == "remove" and field_of(e.path) in regs and e.path.count(".") == 1}
    if sources and all(per_init[s] for s in sources):
        return None
    return False


# ---------------------------------------------------------------------- R03.4
def r_lifecycle_callers(ctx: Ctx, rule="R03.4"):
    rep = ctx.rep
    rep.rule(rule, "_task_cancellation is called only from the handler for exactly asyncio.CancelledError attached to the try that awaits the user "
                   "coroutine, _task_ending only from that try's clean-up; neither from a loop nor from anywhere else")
    for name in ("_task_cancellation", "_task_ending"):
        sites = []
        for f in ctx.pool_funcs(name):
            sites += ctx.callers(f)
        sites = [(g, n) for g, n in sites]
        rep.floor(rule, f"callers of {name}", len({(g.qual, id(n.ast)) for g, n in sites}), 1)
        for g, n in {(g.qual, id(n.ast)): (g, n) for g, n in sites}.values():
            rep.ob(rule, f"{name} is called only by the task wrapper", ctx.hosts(g) <= {"_task_wrapper"}, node=n, detail=f"called from {g.short}")
            rep.ob(rule, f"{name} is not called from inside a loop", not n.loops, node=n)
    for w in ctx.pool_funcs("_task_wrapper"):
        g = ctx.an.cfg(w)
        for h in ctx.nodes(w, lambda n: n.op == "handler"):
            inside = reach([h], lambda a, b, lab: lab[0] in NORMAL_KINDS)
            calls = [m for m in inside if ctx.is_call_to(m, "_task_cancellation")]
            if not calls:
                continue
            exact = all(ctx.hier.canon(t) == CANCELLED for t in h.types)
            rep.ob(rule, "the handler that runs the cancel protocol catches exactly asyncio.CancelledError", exact, node=h,
                   detail=f"handler classes: {[t.rpartition('.')[2] for t in h.types]}")


# ---------------------------------------------------------------------- R03.5
ROLE_BY_NAME = {
    "group_name": "GROUP", "func": "FUNC", "_func": "FUNC", "args": "ARGS", "_args": "ARGS", "kwargs": "KWARGS", "_kwargs": "KWARGS",
    "num": "NUM", "num_concurrent": "NCONC", "arg_iter": "ITER", "args_iter": "ITER", "kwargs_iter": "ITER", "arg_stars": "STARS",
    "end_callback": "END", "_end_callback": "END", "actual_end_callback": "END", "cancel_callback": "CANCEL", "_cancel_callback": "CANCEL",
    "return_exceptions": "RETEXC", "task_id": "ID", "awaitable": "CORO", "coroutine": "CORO", "msg": "MSG", "ignore_lock": "IGNLOCK",
    "map_semaphore": "MAPSEM", "semaphore": "MAPSEM",
}
CUSTOM_CB_ROLE = {"_task_ending": "END", "_task_cancellation": "CANCEL"}


def param_role(f: FuncInfo, pname: str) -> Optional[str]:
    if pname == "custom_callback":
        return CUSTOM_CB_ROLE.get(f.name)
    return ROLE_BY_NAME.get(pname)


def expr_role(ctx: Ctx, f: FuncInfo, e: Optional[ast.AST], _depth: int = 0) -> Optional[str]:
    if e is not None and id(e) in ctx.an.syn_arg_frame and _depth == 0:
        # an argument of a stand-in call, written in another frame: judged where it was written (through helper parameters)
        fr_, env_ = ctx.an.syn_arg_frame[id(e)]
        f, _env2, e = ctx.vals.trace(fr_, env_, e)
    sc = ctx.an.scope(f)
    if e is None or _depth > 4:
        return None
    if isinstance(e, ast.Constant) and e.value is None:
        return "NONE"
    if isinstance(e, ast.Name):
        if e.id in sc.params:
            return param_role(f, e.id)
        if e.id in sc.defs:
            roles = set()
            for h in sc.defs[e.id]:
                if h[0] == "assign":
                    roles.add(expr_role(ctx, f, h[1], _depth + 1))
                elif h[0] == "ann":
                    roles.add(expr_role(ctx, f, h[2], _depth + 1))
                else:
                    roles.add(None)
            roles.discard("NONE")
            if len(roles) == 1:
                return roles.pop()
            return None
        if f.parent is not None:
            return expr_role(ctx, f.parent, e, _depth + 1)
        return None
    if isinstance(e, ast.Attribute) and isinstance(e.value, ast.Name) and e.value.id == sc.selfname:
        return ROLE_BY_NAME.get(e.attr)
    if isinstance(e, ast.Attribute) or (isinstance(e, ast.Subscript) and isinstance(e.slice, ast.Constant) and isinstance(e.slice.value, int)):
        # a component of a record / tuple built in this function: `callbacks.end_callback`, `pair[0]` - the role of what was filed there
        lv = ctx.vals.leaves(f, None, e)
        if lv and not any(x[2] is e for x in lv):
            roles = {expr_role(ctx, fr_, v_, _depth + 1) for fr_, _e2, v_ in lv}
            roles.discard("NONE")
            return roles.pop() if len(roles) == 1 else None
        return None
    if isinstance(e, ast.IfExp):
        a, b = expr_role(ctx, f, e.body, _depth + 1), expr_role(ctx, f, e.orelse, _depth + 1)
        if a == b or b in ("NONE", None):
            return a
        if a in ("NONE", None):
            return b
        return None
    if isinstance(e, ast.Call):
        cal = sc.callee(e)
        if cal.kind == "pkg" and any(t.name == "_get_map_end_callback" for t in cal.targets):
            return "END"
        if cal.kind == "ctor" and cal.name.endswith("Semaphore"):
            return "MAPSEM"
    return None


_FORWARD_ROLES = {"END", "CANCEL"}


def _holds_role(ctx: Ctx, f: FuncInfo, role: str) -> bool:
    """does function f hold a value of this role: one of its parameters, or a field its class stores it in"""
    if any(param_role(f, p) == role for p in f.param_names()):
        return True
    if f.cls is not None:
        for k in ctx.prog.mro(f.cls):
            for m in k.methods.values():
                sn = m.param_names()[0] if m.param_names() else None
                for x in ast.walk(m.node):
                    if isinstance(x, ast.Attribute) and isinstance(x.ctx, ast.Store) and isinstance(x.value, ast.Name) and x.value.id == sn and ROLE_BY_NAME.get(x.attr) == role:
                        return True
    return False


def _unpassable(t: FuncInfo) -> Set[str]:
    return set()


def r_wiring(ctx: Ctx, rule: str, roles: Set[str], floor: int, what: str):
    rep = ctx.rep
    rep.rule(rule, f"WIRING({what}): at every call between package functions an argument whose source has one of the roles {sorted(roles)} "
                   "is bound to a parameter of the same role (positional order, keywords and defaults resolved against the callee's signature)")
    n_checked = 0

    def derived(fr: FuncInfo, arg: ast.AST, prole: str) -> bool:
        """a computed quantity (`num + 1`, `min(num, 8)`, `-n`) that mentions a value of the parameter's role without being it"""
        if prole not in ("NUM", "NCONC", "STARS") or not isinstance(arg, (ast.BinOp, ast.UnaryOp, ast.Call)):
            return False
        if isinstance(arg, ast.Call) and not (isinstance(arg.func, ast.Name) and arg.func.id in ("min", "max", "abs", "int", "round")):
            return False
        return any(isinstance(x, (ast.Name, ast.Attribute)) and expr_role(ctx, fr, x) == prole for x in ast.walk(arg))

    sites: List[tuple] = []  # (function, frame function, frame env, call expression, callee)
    for f in ctx.pool_functions():
        sc = ctx.an.scope(f)
        for node in sc._own_nodes():
            if isinstance(node, ast.Call):
                sites.append((f, f, None, node, sc.callee(node)))
        ctx.an.cfg(f)
    # calls made through a callable handed to a helper / frozen with functools.partial: judged on the stand-in call that spells
    # out the callee and its arguments (each argument in the frame that wrote it)
    for key, syn in list(ctx.an.partial_syn.items()):
        fr, env = ctx.an.partial_frame[key]
        if ctx.in_pool(fr):
            sites.append((fr, fr, env, syn, ctx.an.scope(fr).callee(syn)))
    for f, fr, env, node, cal in sites:
        if True:
            if cal.kind not in ("pkg", "ctor"):
                continue
            targets = cal.targets
            if cal.kind == "ctor":
                init = ctx.prog.lookup(cal.cls, "__init__") if cal.cls is not None else None
                targets = [init] if init is not None else []
            for t in targets:
                if not (ctx.in_pool(t) or t.module.name == "internals.helpers"):
                    continue
                for pname in t.param_names():
                    prole = param_role(t, pname)
                    arg = ctx.call_arg(node, t, pname)
                    if arg is None:
                        # FORWARDED: a callback of the request that the callee could take and the caller holds is passed on (left
                        # out, the callee's default None stands in and the callback never runs)
                        if prole in roles and prole in _FORWARD_ROLES and t is not f and _holds_role(ctx, f, prole) and pname not in _unpassable(t):
                            opaque = [k for k in node.keywords if k.arg is None and not (isinstance(k.value, ast.Name) and k.value.id in ctx.an.scope(fr).params)]
                            n_checked += 1
                            rep.ob(rule, f"the request's {prole} callback is passed on to parameter `{pname}` of {t.short}", False, func=f, construct=node,
                                   detail=(f"`**{ast.unparse(opaque[0].value)[:40]}` hides what is passed" if opaque else f"`{pname}` is left at its default") +
                                          ": the callback the request carries would never run")
                        continue
                    afr = f
                    if env is not None or id(arg) in ctx.an.syn_arg_frame:
                        afr0, aenv0 = ctx.an.syn_arg_frame.get(id(arg), (fr, env))
                        afr, _aenv, arg = ctx.vals.trace(afr0, aenv0, arg)
                    arole = expr_role(ctx, afr, arg)
                    if prole in roles and prole in ("NUM", "NCONC", "STARS") and isinstance(arg, ast.Name) and arg.id in ctx.an.scope(afr).params and ctx.an.scope(afr).defs.get(arg.id):
                        n_checked += 1
                        rep.ob(rule, f"the value bound to parameter `{pname}` of {t.short} (role {prole}) is the request's own, not a quantity computed from it", False,
                               func=f, construct=node, detail=f"`{arg.id}` is re-bound in {afr.short} before it is passed on")
                        continue
                    if prole in roles and arole is None and derived(afr, arg, prole):
                        n_checked += 1
                        rep.ob(rule, f"the value bound to parameter `{pname}` of {t.short} (role {prole}) is the request's own, not a quantity computed from it", False,
                               func=f, construct=node, detail=f"{ast.unparse(arg)} -> {pname}")
                        continue
                    if prole is None or arole in (None, "NONE"):
                        continue
                    if prole not in roles and arole not in roles:
                        continue
                    n_checked += 1
                    rep.ob(rule, f"argument with role {arole} bound to parameter `{pname}` of {t.short} (role {prole})", arole == prole, func=f,
                           construct=node, detail=f"{ast.unparse(arg)} -> {pname}")
    # field stores in constructors: self._end_callback = end_callback
    for f in ctx.pool_functions():
        sc = ctx.an.scope(f)
        for node in sc._own_nodes():
            tgt = val = None
            if isinstance(node, ast.Assign) and len(node.targets) == 1:
                tgt, val = node.targets[0], node.value
            elif isinstance(node, ast.AnnAssign) and node.value is not None:
                tgt, val = node.target, node.value
            if isinstance(tgt, ast.Attribute) and isinstance(tgt.value, ast.Name) and tgt.value.id == sc.selfname:
                prole, arole = ROLE_BY_NAME.get(tgt.attr), expr_role(ctx, f, val)
                if prole in roles and arole not in (None, "NONE"):
                    n_checked += 1
                    rep.ob(rule, f"value with role {arole} stored in field {tgt.attr} (role {prole})", arole == prole, func=f, construct=node)
    rep.floor(rule, f"role-carrying bindings checked ({what})", n_checked, floor)


# ---------------------------------------------------------------------- R03.6
def r_execute_optional(ctx: Ctx, rule="R03.6"):
    rep = ctx.rep
    rep.rule(rule, "execute_optional: whenever `function` is callable it is called exactly once with *args, **kwargs; under the "
                   "iscoroutinefunction guard the call is awaited")
    f = ctx.prog.func("internals.helpers.execute_optional")
    g = ctx.an.cfg(f)
    params = f.param_names()
    fn, pa, pk = params[0], params[1], params[2]
    V = ctx.vals

    def is_root_param(n: Node, e: ast.AST, pname: str) -> bool:
        """e, evaluated at step n (possibly inside a helper spliced into f), is f's never re-bound parameter pname"""
        fr, env, leaf = V.trace(n.func, n.env, e)
        return fr is f and not env and V.is_param(f, leaf, pname)

    ucalls = ctx.nodes(f, lambda n: n.op == "call" and n.callee is not None and n.callee.kind == "user" and is_root_param(n, n.ast.func, fn))
    rep.floor(rule, "calls of the optional function", len(ctx.distinct_sites(ucalls)), 1)

    def mentions(t: Node, name: str) -> bool:
        # the test itself, or the flag it reads (`must_await = iscoroutinefunction(function)`, also when a helper spliced in
        # computes it and hands it back as a component of its result)
        e = t.ast
        inner = e.operand if isinstance(e, ast.UnaryOp) and isinstance(e.op, ast.Not) else e
        fr, env, leaf = V.trace(t.func, t.env, inner)

        from types import SimpleNamespace
        _At = SimpleNamespace(func=fr, env=env)  # a step-like handle for the frame the leaf lives in
        return any(isinstance(c, ast.Call) and isinstance(c.func, ast.Name) and c.func.id == name and c.args and is_root_param(_At, c.args[0], fn)
                   for c in ast.walk(leaf))

    def guard_branch(name: str, want: bool):
        """Edge filter keeping only the branch on which `name(function)` is `want`."""
        def ef(a: Node, b: Node, lab: Label) -> bool:
            if a.op == "test" and lab[0] in ("T", "F") and mentions(a, name):
                neg = isinstance(a.ast, ast.UnaryOp) and isinstance(a.ast.op, ast.Not)
                return (lab[0] == "T") == (want != neg)
            return True
        return ef

    is_callable = guard_branch("callable", True)
    res = count_paths(ctx.an, f, lambda n: n in ucalls, ef=is_callable, interproc=False)
    ret = res.get(("ret", None), frozenset())
    # a call that raises leaves through an exceptional exit: there the call has begun exactly once as well
    rep.ob(rule, "a callable `function` is called exactly once before execute_optional returns", ret == frozenset({1}), func=f,
           construct="paths with callable(function)", detail=f"call counts on normal return: {sorted(ret)}")
    for u in ctx.distinct_sites(ucalls):
        c: ast.Call = u.ast
        fwd_pos = len(c.args) == 1 and isinstance(c.args[0], ast.Starred) and is_root_param(u, c.args[0].value, pa)
        fwd_kw = False
        if len(c.keywords) == 1 and c.keywords[0].arg is None:
            # `kwargs`, or the local standing for `{} if kwargs is None else kwargs`
            leaves = V.leaves(u.func, u.env, c.keywords[0].value)
            is_pk = lambda x: x[0] is f and not x[1] and isinstance(x[2], ast.Name) and x[2].id == pk
            fwd_kw = any(is_pk(x) for x in leaves) and all(is_pk(x) or (isinstance(x[2], ast.Dict) and not x[2].keys) for x in leaves)
        rep.ob(rule, "the function is called with exactly *args, **kwargs", fwd_pos and fwd_kw, node=u)
    # awaited under the coroutine-function guard
    tests = ctx.nodes(f, lambda n: n.op == "test" and mentions(n, "iscoroutinefunction"))
    if not tests:
        # no guard at all: if nothing ever awaits the result of the call, a coroutine callback is created and dropped - a violation;
        # some other way of telling (isawaitable(result), ...) is beyond this rule
        any_await = [m for m in g.nodes if m.pred and m.op == "await" and any(V.trace(m.func, m.env, m.ast.value)[2] is u.ast for u in ucalls)]
        rep.ob(rule, "whether a callback is awaited is decided by iscoroutinefunction(function) alone", False, func=f, construct="(no iscoroutinefunction test)",
               detail="what a plain callback returns is awaited whenever it happens to be awaitable (a Future / Task it hands back): the task then sits in its "
                      "callback until that completes - with its slot, or its place in the cancelled registry, held" if any_await else
                      "the result of calling the callback is never awaited: an `async def` callback is called, its coroutine dropped, and never runs")
        return
    is_coro = guard_branch("iscoroutinefunction", True)

    def both(a: Node, b: Node, lab: Label) -> bool:
        return lab[0] in NORMAL_KINDS and is_callable(a, b, lab) and is_coro(a, b, lab)

    live_calls = [u for u in ucalls if u in reach([g.entry], both)]
    rep.ob(rule, "the coroutine-function branch calls the function", bool(live_calls), node=tests[0])
    for u in ctx.distinct_sites(live_calls):
        copies = [x for x in live_calls if x.ast is u.ast]
        awaits = {m for m in g.nodes if m.op == "await" and V.trace(m.func, m.env, m.ast.value)[2] is u.ast}
        # with iscoroutinefunction(function) true, every way from the call to a normal return awaits its result
        escaped = g.exit in reach(copies, both, avoid=awaits)
        rep.ob(rule, "under the coroutine-function guard the call is awaited (the callback runs to completion)", bool(awaits) and not escaped, node=u)
    # ... and only there: what a plain callback returns is not the pool's to wait for
    not_coro = guard_branch("iscoroutinefunction", False)

    def plain(a: Node, b: Node, lab: Label) -> bool:
        return lab[0] in NORMAL_KINDS and is_callable(a, b, lab) and not_coro(a, b, lab)

    plain_reach = reach([g.entry], plain)
    for u in ctx.distinct_sites([u for u in ucalls if u in plain_reach]):
        # (awaiting a coroutine helper of the package that *returns* the call's result is not awaiting that result)
        aw = [m for m in g.nodes if m.op == "await" and m in plain_reach and not (m.awaited is not None and m.awaited.kind == "pkg") and
              (V.trace(m.func, m.env, m.ast.value)[2] is u.ast or any(x[2] is u.ast for x in V.leaves(m.func, m.env, m.ast.value)))]
        rep.ob(rule, "the result of a plain (not coroutine-function) callback is not awaited", not aw, node=u,
               detail="" if not aw else "a Future / Task a plain callback hands back would keep the task inside its callback until it completes")


# ------------------------------------------------------------------ spawner registries
META_TABLE = {
    "_group_meta_tasks_running": {
        "insert": {"apply", "_map", "start", "_pop_ended_meta_tasks"},
        "remove": {"_cancel_group_meta_tasks", "_pop_ended_meta_tasks"},
        "clear": {"gather_and_close"},
        "assign": {"__init__", "_pop_ended_meta_tasks"},
    },
    "_meta_tasks_cancelled": {
        "insert": {"_cancel_group_meta_tasks"},
        "remove": set(),
        "clear": {"flush", "gather_and_close"},
        "assign": {"__init__"},
    },
}


def r_spawner_registry_who(ctx: Ctx, rule: str):
    """A spawner is forgotten only when it is done (flush), cancelled together with its group, or when the pool closes."""
    rep = ctx.rep
    rep.rule(rule, "WHO(write of the spawner registries): spawner tasks enter _group_meta_tasks_running only in apply/_map/start, leave it only "
                   "by group cancellation (moved to _meta_tasks_cancelled), by _pop_ended_meta_tasks (done ones) or at close; nothing else "
                   "forgets a spawner (cancel_group and gather_and_close must be able to find every live one)")
    n = 0
    for fld, table in META_TABLE.items():
        for e in ctx.effects(fields=[fld], kinds=["insert", "remove", "clear", "assign", "aug", "maybe-pop", "maybe-clear", "maybe-popitem", "maybe-update", "maybe-discard", "maybe-remove", "maybe-add"]):
            names = re.findall(r"\.([A-Za-z_0-9]+)", e.path)
            if fld not in names or not e.path.startswith("self"):
                continue
            kind = e.kind.replace("maybe-", "")
            kind = {"pop": "remove", "popitem": "remove", "discard": "remove", "update": "insert", "add": "insert", "aug": "assign"}.get(kind, kind)
            allowed = table.get(kind, set())
            hosts = ctx.hosts_of(e.node)
            n += 1
            rep.ob(rule, f"{kind} on {fld} only by {sorted(allowed)}", hosts <= allowed and ctx.in_pool(e.node.func), node=e.node,
                   detail=f"{e.kind} {e.path} on behalf of {sorted(hosts)}")
    rep.floor(rule, "writes of the spawner registries", n, 12)
    # a bulk `clear()` forgets live spawners too: it may only follow the completed wait for them (gather_and_close awaits every running
    # spawner first) - cleared earlier, a spawner that is still producing tasks can no longer be found by cancel_group / cancel_all
    from . import close as CL
    for fld in META_TABLE:
        for e in ctx.effects(fields=[fld], kinds=["clear", "maybe-clear"]):
            if not e.path.startswith("self") or not ctx.in_pool(e.node.func):
                continue
            f = e.node.root if e.node.root is not None else e.node.func
            g = ctx.an.cfg(f)
            waited = [x for x in CL.gathers(ctx, f) if fld in CL.gather_fields(ctx, f, x) and dominated_by_completion(g, [x], e.node)]
            rep.ob(rule, f"{fld} is cleared only after its members were awaited (a spawner still running stays findable for cancel_group / cancel_all)",
                   bool(waited), node=e.node,
                   detail="" if waited else f"no completed gather over {fld} dominates this clear(): spawners that are still producing tasks are forgotten while they run")


# ---------------------------------------------------------------------- counters
COUNTERS = {"num_running": "_tasks_running", "num_cancelled": "_tasks_cancelled", "num_ended": "_tasks_ended"}


def r_counters(ctx: Ctx, rule: str, names=("num_running", "num_cancelled", "num_ended")):
    """The public counters count their registry, all of it (stop_all() = stop(num_running) relies on it, and so does the
    balance num_running + num_cancelled + num_ended = created - forgotten)."""
    rep = ctx.rep
    rep.rule(rule, "COUNTERS: num_running / num_cancelled / num_ended return len() of the running / cancelled / ended registry itself - "
                   "not of a filtered or reduced view of it")
    n = 0
    for nm in names:
        fld = COUNTERS[nm]
        for c in ctx.pool_classes:
            f = c.methods.get(nm)
            if f is None or f.kind != "property":
                continue
            n += 1
            P = ctx.eff.paths(f)
            for r in [x for x in ctx.an.scope(f)._own_nodes() if isinstance(x, ast.Return) and x.value is not None]:
                v = ctx.vals.resolve(f, r.value)
                ok: Optional[bool] = None
                why = ""
                if isinstance(v, ast.Call) and isinstance(v.func, ast.Name) and v.func.id == "len" and len(v.args) == 1:
                    a = ctx.vals.resolve(f, v.args[0])
                    inner = a
                    while isinstance(inner, ast.Call) and ((isinstance(inner.func, ast.Attribute) and inner.func.attr in ("keys", "values", "items", "copy") and not inner.args)
                                                           or (isinstance(inner.func, ast.Name) and inner.func.id in ("list", "tuple", "set", "dict") and len(inner.args) == 1)):
                        inner = inner.func.value if isinstance(inner.func, ast.Attribute) else inner.args[0]
                    if isinstance(inner, ast.Attribute) and P.of(inner) == "self." + fld:
                        ok = True
                    elif any(isinstance(x, ast.Attribute) and P.of(x) == "self." + fld for x in ast.walk(a)):
                        ok = False
                        why = f"`{ast.unparse(a)[:70]}` leaves out part of {fld}: tasks that are still filed there are not counted"
                elif any(isinstance(x, ast.Attribute) and (P.of(x) or "").startswith("self._tasks_") for x in ast.walk(v)):
                    ok = None
                    why = "cannot classify the computation"
                rep.ob(rule, f"{nm} is the size of {fld}", ok, func=f, construct=r, detail=why)
    rep.floor(rule, "counter properties", n, len(names))


def r_published_before_first_step(ctx: Ctx, rule: str) -> None:
    """PUBLISHED-BEFORE-FIRST-STEP (F10).  `create_task` may run the first step of the coroutine inside the call: a loop whose task
    factory is asyncio.eager_task_factory (Python >= 3.12) does.  The creator files the new task as running only AFTER create_task
    returned (it needs the Task object), while the task's body - reachable from the wrapper's entry without any guaranteed
    suspension, the user coroutine may finish in its first step - takes the task OUT of that registry in _task_ending: under an
    eager factory the ending runs first, finds nothing, raises before it releases the slot, and the creator then files a finished
    task as running.  Discharged only by a creation that cannot start eagerly (`eager_start=False`)."""
    rep = ctx.rep
    rep.rule(rule, "PUBLISHED-BEFORE-FIRST-STEP: the new task is filed in the running registry before any step of its body can run; "
                   "`self._tasks_running[id] = create_task(...)` files it after the call, and with an eager task factory "
                   "(asyncio.eager_task_factory) the body of a coroutine that finishes in its first step - _task_ending included - has run by then")
    sites = wrapper_sites(ctx)
    rep.floor(rule, "create_task(_task_wrapper(...)) sites", len(sites), 1)
    for site in sites:
        f = site.root if site.root is not None else site.func
        g = ctx.an.cfg(f)
        call: ast.Call = site.ast
        lazy = any(kw.arg == "eager_start" and isinstance(kw.value, ast.Constant) and kw.value.value is False for kw in call.keywords)
        if lazy:
            rep.ob(rule, "the task cannot start inside create_task (eager_start=False)", True, node=site)
            continue
        # registry inserts that follow the creation without a suspension of the creator in between
        later = [m for m in g.nodes if m.pred and (m.stmt is site.stmt or (can_follow(site, m) and not any(ctx.effective(x) for x in between([site], [m]))))
                 and any(e.kind == "insert" and field_of(e.path) == "_tasks_running" for e in ctx.eff.of_node(m))]
        earlier = [m for m in g.nodes if m.pred and can_follow(m, site) and m.stmt is not site.stmt
                   and any(e.kind == "insert" and field_of(e.path) == "_tasks_running" for e in ctx.eff.of_node(m))]
        if earlier and not later:
            rep.ob(rule, "the task is filed as running before it is created", True, node=site)
            continue
        # does the body reach its own removal from the registry without a guaranteed suspension?
        _arg, body_fns = coro_of(ctx, site)
        early_end = False
        for t in body_fns or []:
            tg = ctx.an.cfg(t)
            sure = {n for n in tg.nodes if ctx.is_ext_await(n, "sleep")}
            seen = reach([tg.entry], lambda a, b, l: l[0] in ("n", "T", "F", "x", "c"), avoid=sure)
            if any(e.kind == "remove" and field_of(e.path) == "_tasks_running" for m in seen for e in ctx.trans_effects(m)):
                early_end = True
        rep.ob(rule, "no step of the new task that takes it out of the running registry can run before the creator has filed it there",
               (not early_end) if later else None, func=f, construct="create_task(...) evaluated before the task is filed as running",
               detail="" if not early_end else "with asyncio.eager_task_factory a coroutine that finishes in its first step reaches _task_ending inside create_task: "
                                               "the pop from the running registry raises KeyError before the slot is released, no callback fires, and the finished "
                                               "task is then filed as running for good")
