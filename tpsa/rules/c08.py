"""C08 — gather_and_close waits for everything, then closes for good."""
from .lib import Ctx
from . import shared as S
from . import close as CL
from . import accept as A
from . import spawner as SP


def check(ctx: Ctx) -> None:
    CL.r_close_order(ctx, "R08.1")
    CL.r_gather_complete(ctx, "R08.2", ("gather_and_close", "flush"))
    CL.r_forget_only_gathered(ctx, "R08.2f")
    CL.r_fresh_members(ctx, "R08.12")
    S.r_spawner_registry_who(ctx, "R08.4")
    from .elemtrack import r_spawner_kept
    r_spawner_kept(ctx, "R08.5")
    A.r_check_precedence(ctx, "R08.3")
    A.r_raise_inventory(ctx, "R09.3", classes={"PoolIsClosed"}, guards=set())
    SP.r_unreachable_lock_raise(ctx, "R04.2")
    S.r_handoff(ctx, "R02.1")
    # gather_and_close finds a task only through the three registries: at every point where the task can be suspended or runs
    # user code it is filed in one of them (life-cycle typestate, `loc` facet)
    from .lifecycle import check_lifecycle
    ctx.rep.rule("R08.6", "a task is filed in one of the registries gather_and_close gathers at every suspension / user-code step of its life cycle")
    check_lifecycle(ctx, "R08.6", {"loc"})
    # gather_and_close waits for what the registries show: a task overwritten by another one with the same id is invisible to it (id discipline shared with C11)
    from . import naming as _N
    _N.r_id_discipline(ctx, "R08.9")
    # 'it returns': a spawner blocked on a full pool is woken only by a released slot - a slot that is acquired and then neither handed
    # to a task nor given back (e.g. the acquirer is interrupted in between) leaves that spawner, and gather_and_close with it, waiting forever
    S.r_who_release(ctx, "R08.10")
    # '... whatever was requested or cancelled just before it': a cancelled group whose spawner was left alive goes on starting tasks the close then waits for
    from . import cancel as K
    K.r_group_helper(ctx, "R08.11")
    # "returns only after every task ... has finished" - and it does return: a task ends when its callbacks have run, not when some
    # Future a plain callback handed back completes (that may well wait for the close itself)
    S.r_execute_optional(ctx, "R08.13")
    # a task flush() forgot while it was still inside a callback is invisible to the close that follows (premise shared with C13)
    S.r_snapshot_forget(ctx, "R13.1")
    # "provided no task or callback raised, it returns normally": no loop over a live registry with a suspension in its body
    CL.r_no_live_iteration(ctx, "R08.14", ("gather_and_close",))
