"""C19 — control server lifecycle (resource discipline)."""
import ast

from ..cfg import NORMAL_KINDS
from ..exc import CANCELLED
from ..model import AnalysisError
from ..queries import between, can_follow, count_paths, reach
from .lib import CREATE_TASK, Ctx, dominated_by_completion


def close_pred(ctx: Ctx):
    def pred(n):
        return any(e.kind == "close" and e.container == "StreamWriter" for e in ctx.eff.of_node(n))
    return pred


def r_who_server(ctx: Ctx, rule: str) -> None:
    """WHO(write self._server) = {__init__ (None), serve_forever (the server just started)}"""
    rep = ctx.rep
    rep.rule(rule, "WHO(write ControlServer._server) = {__init__, serve_forever}: is_serving() - the condition of every session's listen loop - "
                   "speaks for the serving cycle that is running, not for an earlier one that is winding up")
    wr = [e for e in ctx.effects(fields=["_server"], kinds=["assign", "aug", "del"]) if e.path.endswith("._server") and e.node.func.module.name == "control.server"]
    rep.floor(rule, "writes of the server attribute", len(wr), 2)
    for e in wr:
        # (judged on the function the store is written in - a helper spliced into it counts as that function; everything that merely runs
        #  on behalf of serve_forever, like the serving task's final callback, runs when a cycle ENDS)
        writer = ctx.fname(e.node.root if e.node.root is not None else e.node.func)
        rep.ob(rule, "the server attribute is written only by the constructor and by serve_forever", writer in {"__init__", "serve_forever"}, node=e.node,
               detail=f"written by {writer}")


def check(ctx: Ctx) -> None:
    rep = ctx.rep
    prog = ctx.prog
    srv = prog.cls("control.server.ControlServer")
    sess = prog.cls("control.session.ControlSession")
    for nm in ("serve_forever", "_serve_forever", "_client_connected_cb", "is_serving"):
        if nm not in srv.methods:
            raise AnalysisError(f"anchor: ControlServer.{nm} missing")
    # ---------------------------------------------------------------- R19.1
    rep.rule("R19.1", "serve_forever awaits only the construction of the server, stores it, and returns create_task(self._serve_forever()) "
                      "(it never blocks on serving)")
    f = srv.methods["serve_forever"]
    susp = ctx.distinct_sites(ctx.nodes(f, lambda n: n.suspends))
    for s in susp:
        rep.ob("R19.1", "the only thing serve_forever waits for is the server start-up", ctx.is_await_of(s, "_get_server_instance"), node=s)
    rep.floor("R19.1", "await of _get_server_instance", len([s for s in susp if ctx.is_await_of(s, "_get_server_instance")]), 1)
    for r in ctx.distinct_sites(ctx.nodes(f, lambda n: n.op == "return")):
        v = ctx.vals.resolve(f, r.ast.value) if r.ast.value is not None else None
        co = ctx.vals.resolve(f, v.args[0]) if isinstance(v, ast.Call) and v.args else None
        ok = isinstance(v, ast.Call) and ctx.an.scope(f).callee(v).name in CREATE_TASK and isinstance(co, ast.Call) and \
            any(t.name == "_serve_forever" for t in ctx.an.scope(f).callee(co).targets)
        rep.ob("R19.1", "serve_forever returns the task running _serve_forever()", ok, node=r)
    st = ctx.nodes(f, lambda n: n.op == "assign" and any(e.path == "self._server" for e in ctx.eff.of_node(n)))
    rep.ob("R19.1", "the started server is remembered (is_serving / _serve_forever use it)", bool(st), func=f, construct=st[0] if st else "(self._server not stored)")
    # WHO(write self._server) = {__init__ (None), serve_forever (the server just started)}: the attribute belongs to the ControlServer, not to
    # one serving cycle - a reset by anything that runs when an EARLIER cycle winds up (final callback, a session ending) would make
    # is_serving() false for the cycle that is running now, and every session loop of it would end
    r_who_server(ctx, "R19.1")
    for c in ctx.distinct_sites(ctx.nodes(f, lambda n: ctx.is_call_to(n, "_get_server_instance"))):
        a = c.ast.args[0] if c.ast.args else None
        ok = isinstance(a, ast.Attribute) and a.attr == "_client_connected_cb"
        rep.ob("R19.1", "clients are handled by _client_connected_cb", ok, node=c)
    # ---------------------------------------------------------------- R19.2
    rep.rule("R19.2", "_serve_forever: ALL-EXITS(serving begun => _final_callback(), exactly once) and a cancellation is absorbed so the task completes")
    f = srv.methods["_serve_forever"]
    g = ctx.an.cfg(f)
    finals = ctx.nodes(f, lambda n: ctx.is_call_to(n, "_final_callback"))
    rep.floor("R19.2", "_final_callback call", len(ctx.distinct_sites(finals)), 1)
    serving = ctx.nodes(f, lambda n: n.suspends)
    rep.floor("R19.2", "suspension steps of _serve_forever (entering/serving/leaving the server)", len(ctx.distinct_sites(serving)), 1)
    first = [n for n in serving if not any(can_follow(m, n) and not can_follow(n, m) for m in serving if m is not n)]
    starts = first or serving
    for s0 in ctx.distinct_sites(starts)[:1]:
        res = count_paths(ctx.an, f, lambda n: n in finals, start=s0, interproc=False, started=True)
        for k, c in sorted(res.items(), key=str):
            rep.ob("R19.2", "once serving has begun the final callback runs exactly once on every way out", c == frozenset({1}), func=f,
                   construct=f"exit {k[0]}:{k[1][0].rpartition('.')[2] if k[1] else ''}", detail=f"counts {sorted(c)}")
    cexits = [x for x in g.raise_exits.values() if x.pred and x.kind == "c"]
    cexits += [x for x in g.raise_exits.values() if x.pred and x.kind == "x" and x.tok[0] == CANCELLED]
    rep.ob("R19.2", "cancelling the serving task makes it complete (CancelledError is absorbed)", not cexits, func=f, construct="cancellation exits",
           detail=str([x.tok for x in cexits]))
    for n in ctx.distinct_sites(serving):
        if ctx.is_ext_await(n, "Server.serve_forever"):
            rep.ob("R19.2", "the asyncio server's serve_forever() is what the task waits on", True, node=n)
    # ---------------------------------------------------------------- R19.3
    rep.rule("R19.3", "UnixControlServer._final_callback unlinks the path that was handed to start_unix_server")
    ux = prog.cls("control.server.UnixControlServer")
    fc, gi = ux.methods.get("_final_callback"), ux.methods.get("_get_server_instance")
    if fc is None or gi is None:
        raise AnalysisError("anchor: UnixControlServer._final_callback/_get_server_instance missing")
    unl = ctx.distinct_sites(ctx.nodes(fc, lambda n: n.op == "call" and isinstance(n.ast.func, ast.Attribute) and n.ast.func.attr == "unlink"))
    rep.floor("R19.3", "unlink in the unix final callback", len(unl), 1)
    starts = ctx.distinct_sites(ctx.nodes(gi, lambda n: n.op == "call" and isinstance(n.ast.func, ast.Attribute) and n.ast.func.attr in ("_start_unix_server", "start_unix_server") or
                                          (n.op == "call" and isinstance(n.ast.func, ast.Name) and n.ast.func.id == "start_unix_server")))
    rep.floor("R19.3", "start_unix_server call", len(starts), 1)
    for u in unl:
        p = ctx.eff.paths(fc).of(u.ast.func.value)
        for s in starts:
            a = s.ast.args[1] if len(s.ast.args) > 1 else next((k.value for k in s.ast.keywords if k.arg == "path"), None)
            rep.ob("R19.3", "the socket file removed is the one the server listened on", p is not None and p == ctx.eff.paths(gi).of(a), node=u,
                   detail=f"unlink {p} vs listen {ctx.eff.paths(gi).of(a)}")
    # whatever the server start-up calls on self must exist: fields used as callables are assigned by the constructor
    for cls_ in (ux, prog.cls("control.server.TCPControlServer")):
        gi_ = cls_.methods.get("_get_server_instance")
        if gi_ is None:
            continue
        for n in ctx.distinct_sites(ctx.nodes(gi_, lambda n: n.op == "call" and isinstance(n.ast.func, ast.Attribute) and isinstance(n.ast.func.value, ast.Name) and n.ast.func.value.id == "self")):
            nm = n.ast.func.attr
            defined = prog.lookup(cls_, nm) is not None or prog.lookup_field(cls_, nm) is not None
            rep.ob("R19.3", "the start-up routine only calls attributes the server object really has", defined, node=n, detail=f"self.{nm}")
        for node in ast.walk(gi_.node):
            if isinstance(node, ast.Attribute) and isinstance(node.value, ast.Name) and node.value.id == "self" and isinstance(node.ctx, ast.Load):
                if prog.lookup(cls_, node.attr) is None and prog.lookup_field(cls_, node.attr) is None:
                    rep.ob("R19.3", "the start-up routine only reads attributes the server object really has", False, func=gi_, construct=node)
    res = count_paths(ctx.an, fc, lambda n: n in unl or any(n.ast is u.ast for u in unl), interproc=False, started=True)
    rep.ob("R19.3", "the final callback always removes the socket file", res.get(("ret", None)) == frozenset({1}), func=fc, construct="unlink count", detail=str(sorted(res.get(("ret", None), []))))
    # ---------------------------------------------------------------- R19.4
    rep.rule("R19.4", "ALL-EXITS(_client_connected_cb entry => writer.close(), at least once) over normal, exception and cancellation edges, "
                      "directly or through the session (asyncio >= 3.12.1: Server.wait_closed() waits for every connection to be closed)")
    f = srv.methods["_client_connected_cb"]
    res = count_paths(ctx.an, f, close_pred(ctx))
    rep.floor("R19.4", "exits of _client_connected_cb", len(res), 2)
    for k, c in sorted(res.items(), key=str):
        rep.ob("R19.4", "the client's StreamWriter is closed on every way out of the connection callback", 0 not in c, func=f,
               construct=f"exit {k[0]}:{k[1][0].rpartition('.')[2] if k[1] else ''}", detail=f"close counts {sorted(c)}")
    for c in ctx.distinct_sites(ctx.nodes(f, close_pred(ctx))):
        p = [e.path for e in ctx.eff.of_node(c) if e.kind == "close"]
        rep.ob("R19.4", "what is closed is this connection's writer", bool(p) and (p[0] == "<writer>" or p[0].endswith("._writer")), node=c, detail=str(p))
    hs = ctx.nodes(f, lambda n: ctx.is_await_of(n, "client_handshake"))
    ls = ctx.nodes(f, lambda n: ctx.is_await_of(n, "listen"))
    g = ctx.an.cfg(f)
    for l in ctx.distinct_sites(ls):
        rep.ob("R19.4", "a session listens only after its handshake completed", bool(hs) and dominated_by_completion(g, hs, l), node=l)
    rep.floor("R19.4", "session.listen() in the connection callback", len(ls), 1)
    # a client connecting or disconnecting affects no other session: per-connection objects stay in the callback's locals
    from . import control as CT
    CT.r_session_local(ctx, "R19.9")
    # ---------------------------------------------------------------- R19.5
    rep.rule("R19.5", "ControlSession.listen re-tests is_serving() before every read and leaves its loop on EOF / an empty line")
    f = sess.methods.get("listen")
    if f is None:
        raise AnalysisError("anchor: ControlSession.listen missing")
    g = ctx.an.cfg(f)
    reads = ctx.nodes(f, lambda n: n.op == "await" and n.awaited is not None and n.awaited.name.startswith("StreamReader."))
    rep.floor("R19.5", "reads in listen", len(ctx.distinct_sites(reads)), 1)
    for r in ctx.distinct_sites(reads):
        loop_tests = [t for t in ctx.nodes(f, lambda n: n.op == "test" and n.loops and isinstance(n.stmt, ast.While) and n.stmt in r.loops)]
        ok = any(any(isinstance(c, ast.Call) and isinstance(c.func, ast.Attribute) and c.func.attr == "is_serving" for c in ast.walk(t.ast)) for t in loop_tests)
        rep.ob("R19.5", "the session checks that the server is still serving before each read", ok, node=r)
        # after the read a test on the message can leave the loop
        heads = {h for h in g.nodes if h.op == "loophead" and h.ast in r.loops}
        after = reach([s for s, lab in r.succ if lab[0] in NORMAL_KINDS], lambda a, b, lab: lab[0] in NORMAL_KINDS, avoid=heads)
        ok2 = False
        for t in after:
            if t.op == "test" and any(isinstance(x, ast.Name) for x in ast.walk(t.ast)):
                for s2, lab in t.succ:
                    if g.exit in reach([s2], lambda a, b, l: l[0] in NORMAL_KINDS, avoid=heads):
                        ok2 = True
        rep.ob("R19.5", "an empty read (EOF / blank line) ends the session loop", ok2, node=r)
    rx = [x for x in g.raise_exits.values() if x.pred and x.kind == "x" and x.tok[0] not in ("builtins.Exception",)]
    # ---------------------------------------------------------------- R19.8
    rep.rule("R19.8", "NO-SPIN-AT-EOF: a stream read that returns nothing (EOF: `readline()` then returns b'' at once, without yielding to the "
                      "event loop) is never repeated before the session has either left the loop or passed a step that really suspends - "
                      "otherwise one client hanging up freezes the whole loop: no other session is served and the server cannot be stopped")
    n_reads = 0
    for f in list(sess.methods.values()) + list(srv.methods.values()):
        if not f.is_async:
            continue
        g = ctx.an.cfg(f)
        reads = [n for n in g.nodes if n.pred and n.op == "await" and n.awaited is not None and n.awaited.name.startswith("StreamReader.")]
        for r in reads:
            n_reads += 1
            # the local the (decoded) message is bound to: target of the first assignment of the analysed function after the read
            start = [s_ for s_, lab in r.succ if lab[0] in NORMAL_KINDS]
            var = None
            seen_, work = set(), list(start)
            while work and var is None:
                x = work.pop(0)
                if id(x) in seen_:
                    continue
                seen_.add(id(x))
                if x.func is f and x.op == "assign" and isinstance(x.ast, (ast.Assign, ast.AnnAssign)):
                    t_ = x.ast.targets[0] if isinstance(x.ast, ast.Assign) else x.ast.target
                    if isinstance(t_, ast.Name):
                        var = t_.id
                    break
                if x.func is f and x.op == "test":
                    w_ = [y for y in ast.walk(x.ast) if isinstance(y, ast.NamedExpr)]
                    if w_:
                        var = w_[0].target.id
                    break
                work += [s_ for s_, lab in x.succ if lab[0] in NORMAL_KINDS]

            def falsy_branch(t: ast.AST):
                """the branch label taken when `var` holds an empty message, or None when the test is about something else"""
                neg = False
                while isinstance(t, ast.UnaryOp) and isinstance(t.op, ast.Not):
                    neg, t = not neg, t.operand
                if isinstance(t, ast.NamedExpr):
                    t = t.target
                if isinstance(t, ast.Name) and t.id == var:
                    return "T" if neg else "F"
                if isinstance(t, ast.Compare) and len(t.ops) == 1 and isinstance(t.left, ast.Name) and t.left.id == var and isinstance(t.comparators[0], ast.Constant) \
                        and t.comparators[0].value in ("", b""):
                    if isinstance(t.ops[0], ast.Eq):
                        return "F" if neg else "T"
                    if isinstance(t.ops[0], ast.NotEq):
                        return "T" if neg else "F"
                return None

            def ef(a, b, lab) -> bool:
                if lab[0] not in NORMAL_KINDS:
                    return False
                if a is not r and a.suspends and ctx.effective(a) and not (a.awaited is not None and a.awaited.name.startswith("StreamReader.")):
                    return False  # the loop yields here: not a spin
                if a.op == "test" and a.func is f and var is not None and lab[0] in ("T", "F"):
                    fb = falsy_branch(a.ast)
                    if fb is not None:
                        return lab[0] == fb
                return True

            again = r in reach(start, ef)
            rep.ob("R19.8", "a read that hits EOF is not repeated at once (the loop is left, or yields first)", not again, node=r,
                   detail="" if not again else f"with `{var}` empty the path from the read leads straight back to it: readline() at EOF returns immediately, so this loop never yields")
    rep.floor("R19.8", "stream reads in the session / server coroutines", n_reads, 2)
    # ---------------------------------------------------------------- R19.6
    rep.rule("R19.6", "client: the exit command / EOF closes the writer and clears _connected; start() loops on _connected")
    cl = prog.cls("control.client.ControlClient")
    gc, start = cl.methods.get("_get_command"), cl.methods.get("start")
    if gc is None or start is None:
        raise AnalysisError("anchor: ControlClient._get_command/start missing")
    g = ctx.an.cfg(gc)
    closes = ctx.nodes(gc, close_pred(ctx))
    rep.floor("R19.6", "writer.close() in the client", len(ctx.distinct_sites(closes)), 1)
    for c in ctx.distinct_sites(closes):
        clr = ctx.nodes(gc, lambda n: n.op == "assign" and any(e.path == "self._connected" for e in ctx.eff.of_node(n)) and isinstance(n.ast.value, ast.Constant) and n.ast.value.value is False)
        ok = bool(clr) and g.exit not in reach([c], lambda a, b, lab: lab[0] in NORMAL_KINDS, avoid=set(clr), include_starts=False)
        rep.ob("R19.6", "closing the connection also clears the connected flag", ok, node=c)
        tests = [t for t in ctx.nodes(gc, lambda n: n.op == "test" and any(isinstance(x, ast.Name) and x.id == "CLIENT_EXIT" for x in ast.walk(n.ast))) if can_follow(t, c)]
        rep.ob("R19.6", "the connection is closed on the exit command", bool(tests), node=c)
    eof = ctx.nodes(gc, lambda n: n.op == "handler" and any(t.endswith("EOFError") for t in n.types))
    for h in ctx.distinct_sites(eof):
        r = reach([h], lambda a, b, lab: lab[0] in NORMAL_KINDS)
        rep.ob("R19.6", "EOF on stdin is treated as the exit command", any(c in r for c in closes), node=h)
    loops = ctx.nodes(start, lambda n: n.op == "test" and isinstance(n.stmt, ast.While))
    ok = any(ctx.eff.paths(start).of(t.ast) == "self._connected" for t in loops)
    rep.ob("R19.6", "the client's interaction loop runs while connected", ok, func=start, construct=loops[0] if loops else "(no while loop)")
    r_no_shared_lock(ctx, "R19.7")
    # "clients ... are served": a session ends when its client leaves or the server stops - never because of what a line contained
    from .control import r_containment
    r_containment(ctx, "R19.10")
    # positive/negative controls for the effect table
    ctl = [e for e in ctx.eff.all() if e.kind == "close" and e.container == "StreamWriter"]
    rep.floor("R19.6", "StreamWriter.close sites in the package (server side + client side)", len(ctl), 2)
    # "the bundled CLI client included": the two ends agree on what a blank line means
    from .control import r_blank_agreement
    r_blank_agreement(ctx, "R19.11")



def r_no_shared_lock(ctx: Ctx, rule: str) -> None:
    """R19.7 / R18.9: no lock shared between sessions is held across a suspension step"""
    from ..queries import between
    rep = ctx.rep
    prog = ctx.prog
    sess = prog.cls("control.session.ControlSession")
    if sess is None:
        raise AnalysisError("anchor: control.session.ControlSession missing")
    rep.rule(rule, "sessions are served concurrently: no function of session.py / server.py holds a lock, semaphore or condition that is shared between "
                      "sessions (reachable through the server, a class or a module) across a suspension step - one client's waiting command would block "
                      "every other session, hide its EOF and delay the stop")
    n_regions = 0
    for fn in [x for x in prog.all_functions() if x.module.name in ("control.session", "control.server")]:
        g2 = ctx.an.cfg(fn)
        sc2 = ctx.an.scope(fn)
        for en in ctx.nodes(fn, lambda n: n.op == "enter" and isinstance(n.stmt, ast.AsyncWith)):
            t = sc2.ty(en.ast.context_expr)
            if t is None or t.head not in ("Lock", "Semaphore", "Condition", "asyncio.locks.Condition"):
                continue
            n_regions += 1
            exits = [x for x in g2.nodes if x.op == "exit_ctx" and x.ast is en.ast]
            inside = between([en], exits)
            susp = [m for m in inside if m.suspends]
            path = ctx.eff.paths(fn).of(en.ast.context_expr) or ast.unparse(en.ast.context_expr)
            own = path.startswith("self._") and path.count(".") == 1 and prog.enclosing_class(fn) is sess and \
                (sess.fields.get(path.split(".")[1]) is not None and sess.fields[path.split(".")[1]][2].name == "__init__")
            rep.ob(rule, "a synchronisation object shared between sessions is not held across a suspension step", own or not susp, node=en,
                   detail="" if (own or not susp) else f"{path} is held while `{susp[0].text(50)}` waits ({susp[0].where()})")
        for aw in ctx.nodes(fn, lambda n: n.op == "await" and n.awaited is not None and n.awaited.kind == "ext" and n.awaited.name in ("Lock.acquire", "Semaphore.acquire", "Condition.acquire")):
            n_regions += 1
            rep.ob(rule, "no explicit acquire of a lock/semaphore in the serving path", False, node=aw)
    rep.ob(rule, "lock regions in session.py / server.py examined", True, construct=f"{n_regions} region(s)")
