"""Rules about cancel / cancel_group / cancel_all (C06, C07) and stop (C14)."""
from __future__ import annotations

import ast
import re
from typing import List, Optional, Set, Tuple

from ..absint import AbsInt
from ..cfg import NORMAL_KINDS, Label, Node
from ..exc import KEYERROR
from ..model import FuncInfo
from ..queries import between, can_follow, count_paths, reach
from .lib import GROUPS, META_CAN, META_RUN, RUN, Ctx, dominated_by_completion, field_of, key_lookup_guarded, r_not_found_only_when_absent
from .shared import expr_role

REG_OF_FIELD = {"_tasks_running": "R", "_tasks_cancelled": "C", "_tasks_ended": "E"}


def cancel_nodes(ctx: Ctx, f: FuncInfo, which: str = "any") -> List[Node]:
    """steps that cancel a task, directly or through a package helper they run; which = any | member (pool tasks) | spawner"""
    def sel(e) -> bool:
        if e.kind not in ("cancel", "maybe-cancel"):
            return False
        spawner = "_group_meta_tasks_running" in e.path or "_meta_tasks_cancelled" in e.path
        return which == "any" or (which == "spawner") == spawner
    return ctx.nodes(f, lambda n: any(sel(e) for e in ctx.trans_effects(n)))


def loop_body_always_runs(ctx: Ctx, f: FuncInfo, head: Node, must: List[Node]) -> Tuple[bool, str]:
    """Every iteration of the loop passes through every node of `must`, and the loop is left only through its header."""
    loop = head.ast
    body_starts = [s for s, lab in head.succ if lab[0] == "T"]
    # test node for while loops
    if head.op == "loophead":
        tests = [n for n in ctx.an.cfg(f).nodes if n.op == "test" and n.stmt is loop]
        body_starts = [s for t in tests for s, lab in t.succ if lab[0] == "T"]
    inside = lambda n: loop in n.loops
    for m in must:
        # can we get from the body start back to the header (or out of the loop) without passing m?
        r = reach(body_starts, lambda a, b, lab: lab[0] in NORMAL_KINDS, avoid={m})
        if head in r:
            return False, f"an iteration can skip `{m.text(50)}`"
    # early exits: any normal-edge path from inside the body to a node outside the loop that does not go through the header
    r = reach(body_starts, lambda a, b, lab: lab[0] in NORMAL_KINDS, avoid={head})
    outside = [n for n in r if not inside(n) and n.op not in ("raise_exit",)]
    if outside:
        return False, f"the loop can be left early at {outside[0].where()} ({outside[0].text(40)})"
    return True, ""


# ------------------------------------------------------------------------ C06
def r_two_phase(ctx: Ctx, rule: str):
    rep = ctx.rep
    rep.rule(rule, "two-phase cancel: in `cancel` no Task.cancel step can be followed by a look-up or by any step that may raise "
                   "(all look-ups dominate every cancellation, so an invalid id cancels nothing)")
    for f in ctx.pool_funcs("cancel"):
        g = ctx.an.cfg(f)
        cs = cancel_nodes(ctx, f)
        rep.floor(rule, "Task.cancel steps in cancel", len(ctx.distinct_sites(cs)), 1)
        lookups = ctx.nodes(f, lambda n: ctx.is_call_to(n, "_get_running_task"))
        rep.floor(rule, "look-ups in cancel", len(ctx.distinct_sites(lookups)), 1)
        # what a look-up raises (AlreadyCancelled / AlreadyEnded / InvalidTaskID) is what cancel() raises: nothing in cancel catches it
        for l_ in ctx.distinct_sites(lookups):
            caught = [(s_, lab) for c_ in [x for x in g.nodes if x.ast is l_.ast and x.op == l_.op and x.pred] for s_, lab in c_.succ
                      if lab[0] == "x" and s_.op in ("handler", "suppressed")]
            rep.ob(rule, "the exception of a look-up leaves cancel() (an id that is not running makes the whole call fail)", not caught, node=l_,
                   detail="" if not caught else f"{caught[0][1][1][0].rpartition('.')[2]} raised by the look-up is caught by `{caught[0][0].text(40)}`: the call goes on and "
                                                "cancels the other ids although one of them was not running")
        rexits = [x for x in g.raise_exits.values() if x.pred]
        for c in ctx.distinct_sites(cs):
            later = [l for l in lookups if can_follow(c, l)]
            rep.ob(rule, "no look-up can follow a cancellation", not later, node=c, detail="" if not later else f"look-up at {later[0].where()} can run after it (fused loop)")
            bad = [x for x in rexits if x in reach([c], include_starts=False)]
            rep.ob(rule, "cancel() cannot raise after it has cancelled a task", not bad, node=c,
                   detail="" if not bad else f"raising exit {bad[0].tok[0].rpartition('.')[2]} reachable after the cancellation")


def r_lookup_table(ctx: Ctx, rule: str):
    rep = ctx.rep
    rep.rule(rule, "TABLE(_get_running_task): id filed as running -> that task is returned; cancelled -> AlreadyCancelled; ended -> "
                   "AlreadyEnded; in no registry -> TaskNotFound (<= InvalidTaskID); decided by abstract interpretation over the four cases")
    want = {"R": "return", "C": "AlreadyCancelled", "E": "AlreadyEnded", "N": "TaskNotFound"}
    for f in ctx.pool_funcs("_get_running_task"):
        params = f.param_names()
        idp = params[1] if params and params[0] == "self" else params[0]
        P = ctx.eff.paths(f)

        V = ctx.vals
        cur: List[Optional[Node]] = [None]  # the step being interpreted (frames of spliced helpers have their own names)

        def reg(e) -> Optional[str]:
            p = ctx.path_at(cur[0], e) if cur[0] is not None else P.of(e)
            if p is None or "[" in p or p.count(".") != 1:
                return None
            return REG_OF_FIELD.get(field_of(p))

        def is_id(e) -> bool:
            if cur[0] is None:
                return isinstance(e, ast.Name) and e.id == idp
            fr, env, leaf = V.trace(cur[0].func, cur[0].env, e)
            return fr is f and env is None and isinstance(leaf, ast.Name) and leaf.id == idp

        def truth(e: ast.AST, loc: str) -> Optional[bool]:
            if isinstance(e, ast.UnaryOp) and isinstance(e.op, ast.Not):
                v = truth(e.operand, loc)
                return None if v is None else not v
            if isinstance(e, ast.Call) and isinstance(e.func, ast.Attribute) and e.func.attr == "get" and e.args and is_id(e.args[0]):
                r = reg(e.func.value)
                if r is not None and len(e.args) == 1:
                    return loc == r
            if isinstance(e, ast.Compare) and len(e.ops) == 1 and is_id(e.left):
                r = reg(e.comparators[0])
                if r is not None and isinstance(e.ops[0], (ast.In, ast.NotIn)):
                    return (loc == r) == isinstance(e.ops[0], ast.In)
            if isinstance(e, ast.Compare) and len(e.ops) == 1 and isinstance(e.comparators[0], ast.Constant) and e.comparators[0].value is None:
                v = truth(e.left, loc)
                if v is not None:
                    return (not v) if isinstance(e.ops[0], (ast.Is, ast.Eq)) else v
            if isinstance(e, ast.Name) and cur[0] is not None:
                # a once-bound flag: `found = self._tasks_cancelled.get(task_id)`
                r = V.resolve(cur[0].func, e)
                if r is not e:
                    return truth(r, loc)
            return None

        def transfer(ai: AbsInt, n: Node, lab: Label, loc):
            cur[0] = n
            if n.op == "subscript" and is_id(n.ast.slice):
                r = reg(n.ast.value)
                if r is not None:
                    if lab == ("x", (KEYERROR, True)):
                        return [] if loc == r else [loc]
                    if lab[0] in NORMAL_KINDS:
                        return [loc] if loc == r else []
            if n.op == "call" and isinstance(n.ast.func, ast.Attribute) and n.ast.func.attr == "pop" and n.ast.args and is_id(n.ast.args[0]):
                r = reg(n.ast.func.value)
                if r is not None:
                    ai.event(n, "the look-up removes the task from a registry", loc)
            if n.op == "test" and lab[0] in ("T", "F"):
                v = truth(n.ast, loc)
                if v is not None and v != (lab[0] == "T"):
                    return []
            return [loc]

        g = ctx.an.cfg(f)
        for loc, expect in want.items():
            ai = AbsInt(ctx.an, transfer)
            exits = ai.run(f, loc)
            got = set()
            for k in exits:
                if k[0] == "ret":
                    got.add("return")
                else:
                    got.add(k[1][0].rpartition(".")[2])
            name = {"R": "running", "C": "cancelled", "E": "ended", "N": "unknown"}[loc]
            rep.ob(rule, f"look-up of a {name} id yields {expect}", got == {expect}, func=f, construct=f"id {name}", detail=f"possible outcomes {sorted(got)}")
            for e in ai.events:
                rep.ob(rule, e.msg, False, node=e.node)
        # the value returned is the running-registry entry for that id
        for r in ctx.distinct_sites(ctx.nodes(f, lambda n: n.op == "return" and n.func is f and n.ast.value is not None)):
            v = r.ast.value
            cur[0] = r
            ok = isinstance(v, ast.Subscript) and P.of(v.value) == RUN and is_id(v.slice)
            if not ok and isinstance(v, ast.Name):
                sc = ctx.an.scope(f)
                vals = [h[1] for h in sc.defs.get(v.id, []) if h[0] == "assign"]
                ok = bool(vals) and all(isinstance(x, ast.Subscript) and P.of(x.value) == RUN and is_id(x.slice) or
                                        (isinstance(x, ast.Call) and isinstance(x.func, ast.Attribute) and x.func.attr == "get" and P.of(x.func.value) == RUN) for x in vals)
            rep.ob(rule, "the task returned is the running-registry entry of that id", ok, node=r)
        rep.ob(rule, "TaskNotFound is an InvalidTaskID", ctx.hier.is_sub("exceptions.TaskNotFound", "exceptions.InvalidTaskID"), construct="exceptions.TaskNotFound")
        for a, b in (("AlreadyCancelled", "AlreadyEnded"), ("AlreadyEnded", "AlreadyCancelled"), ("AlreadyCancelled", "InvalidTaskID"), ("AlreadyEnded", "InvalidTaskID"), ("TaskNotFound", "TaskEnded")):
            rep.ob(rule, f"{a} is not a {b} (the three errors stay distinguishable)", not ctx.hier.is_sub(f"exceptions.{a}", f"exceptions.{b}"), construct=f"exceptions.{a} vs {b}")


def r_who_cancel(ctx: Ctx, rule: str):
    rep = ctx.rep
    rep.rule(rule, "WHO(Task.cancel in the pool classes) = {cancel, _cancel_group_meta_tasks, _cancel_and_remove_all_from_group}; the tasks "
                   "cancelled by `cancel` are exactly the looked-up ones, each once, for every id given")
    effs = [e for e in ctx.effects(kinds=["cancel", "maybe-cancel"]) if ctx.in_pool(e.node.func)]
    rep.floor(rule, "Task.cancel sites", len(effs), 3)
    for e in effs:
        hosts = ctx.hosts_of(e.node)
        rep.ob(rule, "Task.cancel is called only by the three cancelling functions",
               hosts <= {"cancel", "_cancel_group_meta_tasks", "_cancel_and_remove_all_from_group"}, node=e.node, detail=f"on behalf of {sorted(hosts)}")
    for f in ctx.pool_funcs("cancel"):
        sc = ctx.an.scope(f)
        varargs = f.node.args.vararg.arg if f.node.args.vararg else None
        for c in ctx.distinct_sites(cancel_nodes(ctx, f)):
            recv = c.ast.func.value if isinstance(c.ast, ast.Call) and isinstance(c.ast.func, ast.Attribute) else None
            ok: Optional[bool] = None
            src = None
            if isinstance(recv, ast.Name) and c.loops:
                lp = c.loops[-1]
                it0 = lp.iter if isinstance(lp, ast.For) else None
                tgt_ok = isinstance(lp, ast.For) and isinstance(lp.target, ast.Name) and lp.target.id == recv.id
                if isinstance(it0, ast.Call) and isinstance(it0.func, ast.Attribute) and not it0.args and isinstance(lp, ast.For):
                    # `for task in tasks.values()` / `for task_id, task in tasks.items()` over the dictionary of look-ups
                    if it0.func.attr == "values" and tgt_ok:
                        it0 = it0.func.value
                    elif it0.func.attr == "items" and isinstance(lp.target, ast.Tuple) and len(lp.target.elts) == 2 and isinstance(lp.target.elts[1], ast.Name) \
                            and lp.target.elts[1].id == recv.id:
                        it0, tgt_ok = it0.func.value, True
                if tgt_ok and c.func is f and (isinstance(it0, (ast.ListComp, ast.DictComp, ast.GeneratorExp)) or (
                        isinstance(it0, ast.Call) and isinstance(it0.func, ast.Name) and it0.func.id in ("tuple", "list") and len(it0.args) == 1)):
                    src = it0  # the collection of look-ups written in the loop header itself
                elif tgt_ok and isinstance(it0, ast.Name):
                    from .shared import _caller_frame

                    fr, fenv, it = _caller_frame(ctx, c.func, c.env, it0)
                    if fr is f and fenv is None and isinstance(it, ast.Name):
                        src = it.id
                    elif fr is f and fenv is None and (isinstance(it, (ast.ListComp, ast.DictComp, ast.GeneratorExp)) or (
                            isinstance(it, ast.Call) and isinstance(it.func, ast.Name) and it.func.id in ("tuple", "list") and len(it.args) == 1)):
                        src = it  # the collection of look-ups written in place (as the argument of a helper)
            if src is not None and (not isinstance(src, str) or src in sc.defs):
                ok = _collects_all_lookups(ctx, f, src, varargs)
                head = [h for h in ctx.nodes(f, lambda n: n.op == "iter" and n.ast is c.loops[-1])]
                if ok and head:
                    full, why = loop_body_always_runs(ctx, f, head[0], [c])
                    rep.ob(rule, "the cancel loop cancels every looked-up task (no skip, no early exit)", full, node=c, detail=why)
            rep.ob(rule, "the tasks cancelled are exactly the results of the look-ups for the given ids", ok, node=c,
                   detail="" if ok else "cannot show that the receiver of cancel() ranges over the list of looked-up tasks")


def _collects_all_lookups(ctx: Ctx, f: FuncInfo, name, varargs: Optional[str], _depth: int = 0) -> Optional[bool]:
    sc = ctx.an.scope(f)
    if isinstance(name, ast.AST):
        v = name
    else:
        hows = sc.defs.get(name, [])
        vals = [h[1] for h in hows if h[0] == "assign"] + [h[2] for h in hows if h[0] == "ann"]
        if len(vals) != 1:
            return None
        v = vals[0]

    def is_lookup(e: ast.AST, var: str) -> bool:
        return isinstance(e, ast.Call) and any(t.name == "_get_running_task" for t in sc.callee(e).targets) and len(e.args) == 1 \
            and isinstance(e.args[0], ast.Name) and e.args[0].id == var

    if isinstance(v, ast.Call) and not (isinstance(v.func, ast.Name) and v.func.id in ("tuple", "list")) and _depth < 3:
        # the collection is built by a helper that does nothing but return it: judged in the helper, for the parameter the ids arrive in
        tg = [t for t in sc.callee(v).targets]
        if len(tg) == 1 and not tg[0].is_async and tg[0].name != "_get_running_task":
            h = tg[0]
            body = [b for b in h.node.body if not (isinstance(b, ast.Expr) and isinstance(b.value, ast.Constant) and isinstance(b.value.value, str))]
            if len(body) == 1 and isinstance(body[0], ast.Return) and body[0].value is not None and not h.node.decorator_list or \
                    (len(body) == 1 and isinstance(body[0], ast.Return) and body[0].value is not None and h.kind in ("static", "method")):
                for pname in h.param_names():
                    a = ctx.call_arg(v, h, pname)
                    if isinstance(a, ast.Name) and a.id == varargs:
                        return _collects_all_lookups(ctx, h, body[0].value, pname, _depth + 1)
        return None

    if isinstance(v, ast.Call) and isinstance(v.func, ast.Name) and v.func.id in ("tuple", "list") and len(v.args) == 1 and not v.keywords \
            and isinstance(v.args[0], (ast.GeneratorExp, ast.ListComp)):
        v = v.args[0]  # tuple(<look-up> for ...): built in full, in order, before anything else runs
    elif isinstance(v, ast.GeneratorExp):
        return False  # a bare generator looks the ids up one by one while the tasks before are already being cancelled
    if isinstance(v, (ast.ListComp, ast.GeneratorExp)) and len(v.generators) == 1:
        gen = v.generators[0]
        if gen.ifs:
            return False
        if isinstance(gen.target, ast.Name) and isinstance(gen.iter, ast.Name) and gen.iter.id == varargs and is_lookup(v.elt, gen.target.id):
            return True
        return False if isinstance(gen.iter, ast.Name) and gen.iter.id == varargs else None
    if isinstance(v, ast.DictComp) and len(v.generators) == 1:
        # {task_id: look-up(task_id) for task_id in task_ids}
        gen = v.generators[0]
        if gen.ifs:
            return False
        if isinstance(gen.target, ast.Name) and isinstance(gen.iter, ast.Name) and gen.iter.id == varargs and is_lookup(v.value, gen.target.id) \
                and isinstance(v.key, ast.Name) and v.key.id == gen.target.id:
            return True
        return False if isinstance(gen.iter, ast.Name) and gen.iter.id == varargs else None
    if isinstance(v, ast.List) and not v.elts or (isinstance(v, ast.Call) and isinstance(v.func, ast.Name) and v.func.id == "list" and not v.args):
        # explicit loop appending look-ups
        apps = ctx.distinct_sites(ctx.nodes(f, lambda n: n.op == "call" and isinstance(n.ast.func, ast.Attribute) and n.ast.func.attr == "append"
                                            and isinstance(n.ast.func.value, ast.Name) and n.ast.func.value.id == name))
        if len(apps) != 1 or not apps[0].loops:
            return None
        a = apps[0]
        lp = a.loops[-1]
        if not (isinstance(lp, ast.For) and isinstance(lp.target, ast.Name) and isinstance(lp.iter, ast.Name) and lp.iter.id == varargs):
            return None
        arg = a.ast.args[0] if a.ast.args else None
        good = is_lookup(arg, lp.target.id)
        if not good and isinstance(arg, ast.Name):
            vs = [h[1] for h in sc.defs.get(arg.id, []) if h[0] == "assign"]
            good = len(vs) == 1 and is_lookup(vs[0], lp.target.id)
        if not good:
            return None
        head = [h for h in ctx.nodes(f, lambda n: n.op == "iter" and n.ast is lp)]
        full, _ = loop_body_always_runs(ctx, f, head[0], [a]) if head else (False, "")
        return full
    return None


def value_sources(ctx: Ctx, frame: FuncInfo, env, e: Optional[ast.AST], _depth: int = 0) -> Set[str]:
    """Where may the task denoted by e come from?  Tags: R / C / E (an entry of that task registry), META (a spawner table),
    ? (not understood).  Follows locals, parameters of spliced helpers, loop variables, look-ups and helper results."""
    from ..cfg import bind_args, strip_cast

    if e is None or _depth > 10:
        return {"?"}
    e = strip_cast(e)
    V = ctx.vals
    p = ctx.eff.paths(frame).of(e)
    p = ctx.eff.rebase(p, frame, env) if p is not None else None
    if p is not None:
        if "_group_meta_tasks_running" in p or "_meta_tasks_cancelled" in p:
            return {"META"}
        for fld, tag in REG_OF_FIELD.items():
            if re.search(r"\." + fld + r"(\[\])+$", p):
                return {tag}
        if p.startswith("<ret:_get_running_task>"):
            return {"R"}
    if isinstance(e, ast.IfExp):
        return value_sources(ctx, frame, env, e.body, _depth + 1) | value_sources(ctx, frame, env, e.orelse, _depth + 1)
    if isinstance(e, ast.Constant) and e.value is None:
        return set()
    if isinstance(e, ast.Name):
        sc = ctx.an.scope(frame)
        if e.id in sc.params and env and e.id in env and not sc.defs.get(e.id):
            caller, arg, cenv = env[e.id]
            return value_sources(ctx, caller, cenv, arg, _depth + 1)
        out: Set[str] = set()
        hows = sc.defs.get(e.id, [])
        if not hows:
            return {"?"}
        for h in hows:
            if h[0] == "assign":
                out |= value_sources(ctx, frame, env, h[1], _depth + 1)
            elif h[0] == "ann":
                out |= value_sources(ctx, frame, env, h[2], _depth + 1)
            elif h[0] == "iter":
                out |= element_sources(ctx, frame, env, h[1], _depth + 1)
            elif h[0] == "elt" and h[1][0] == "iter" and h[2] == 1 and isinstance(strip_cast(h[1][1]), ast.Call) and isinstance(strip_cast(h[1][1]).func, ast.Attribute) \
                    and strip_cast(h[1][1]).func.attr == "items" and not strip_cast(h[1][1]).args:
                # `for key, task in <dict>.items()`: a value of that dictionary
                out |= element_sources(ctx, frame, env, strip_cast(h[1][1]).func.value, _depth + 1)
            else:
                out.add("?")
        return out
    if isinstance(e, ast.Subscript):
        return element_sources(ctx, frame, env, e.value, _depth + 1)
    if isinstance(e, ast.Call):
        cal = ctx.an.scope(frame).callee(e)
        if cal.kind == "pkg" and any(t.name == "_get_running_task" for t in cal.targets):
            return {"R"}
        if isinstance(e.func, ast.Attribute) and e.func.attr in ("pop", "get", "setdefault") and e.args:
            return element_sources(ctx, frame, env, e.func.value, _depth + 1)
        t = ctx.an.spliced_at.get(id(e))
        if t is not None:
            sub = bind_args(e, t, frame, env)
            out = set()
            for r in ctx.an.scope(t)._own_nodes():
                if isinstance(r, ast.Return) and r.value is not None:
                    out |= value_sources(ctx, t, sub, r.value, _depth + 1)
            return out or {"?"}
    return {"?"}


def element_sources(ctx: Ctx, frame: FuncInfo, env, coll: Optional[ast.AST], _depth: int = 0) -> Set[str]:
    """sources of the elements (values) of a collection expression"""
    from ..cfg import strip_cast

    if coll is None or _depth > 10:
        return {"?"}
    coll = strip_cast(coll)
    p = ctx.eff.paths(frame).of(coll)
    p = ctx.eff.rebase(p, frame, env) if p is not None else None
    if p is not None:
        if "_group_meta_tasks_running" in p or "_meta_tasks_cancelled" in p:
            return {"META"}
        for fld, tag in REG_OF_FIELD.items():
            if re.search(r"\." + fld + r"(\[\])*$", p):
                return {tag}
    if isinstance(coll, (ast.Tuple, ast.List, ast.Set)):
        out: Set[str] = set()
        for x in coll.elts:
            out |= value_sources(ctx, frame, env, x.value if isinstance(x, ast.Starred) else x, _depth + 1) if not isinstance(x, ast.Starred) \
                else element_sources(ctx, frame, env, x.value, _depth + 1)
        return out
    if isinstance(coll, (ast.ListComp, ast.SetComp, ast.GeneratorExp)):
        return value_sources(ctx, frame, env, coll.elt, _depth + 1)
    if isinstance(coll, ast.DictComp):
        return value_sources(ctx, frame, env, coll.value, _depth + 1)
    if isinstance(coll, ast.Dict):
        out = set()
        for k, x in zip(coll.keys, coll.values):
            # `{**a, **b}`: the values of a and of b
            out |= value_sources(ctx, frame, env, x, _depth + 1) if k is not None else element_sources(ctx, frame, env, x, _depth + 1)
        return out
    if isinstance(coll, ast.BinOp) and isinstance(coll.op, ast.BitOr):
        return element_sources(ctx, frame, env, coll.left, _depth + 1) | element_sources(ctx, frame, env, coll.right, _depth + 1)
    if isinstance(coll, ast.Attribute) and isinstance(coll.value, ast.Name) and coll.value.id == ctx.an.scope(frame).selfname and frame.cls is not None:
        # `self._view` with a property of the class that returns a combined view of registries: what its returns denote
        prop = ctx.prog.lookup(frame.cls, coll.attr)
        if prop is not None and prop.kind == "property":
            out = set()
            for r in ctx.an.scope(prop)._own_nodes():
                if isinstance(r, ast.Return) and r.value is not None:
                    out |= element_sources(ctx, prop, None, r.value, _depth + 1)
            return out or {"?"}
    if isinstance(coll, ast.Call) and id(coll) in ctx.an.spliced_at:
        # a helper spliced in here (also: a private property written as the method it is) that returns a view of registries
        from ..cfg import bind_args
        t_ = ctx.an.spliced_at[id(coll)]
        sub_ = bind_args(coll, t_, frame, env)
        out = set()
        for r in ctx.an.scope(t_)._own_nodes():
            if isinstance(r, ast.Return) and r.value is not None:
                out |= element_sources(ctx, t_, sub_, r.value, _depth + 1)
        return out or {"?"}
    if isinstance(coll, ast.Call):
        fn = coll.func
        cname = ctx.an.scope(frame).callee(coll).name.rpartition(".")[2]
        if cname in ("ChainMap", "chain") and coll.args and not coll.keywords:
            # a look-up in `ChainMap(a, b)` finds an entry of a or of b; `chain(xs, ys)` yields the items of both
            out = set()
            for a_ in coll.args:
                out |= element_sources(ctx, frame, env, a_.value if isinstance(a_, ast.Starred) else a_, _depth + 1)
            return out
        if isinstance(fn, ast.Name) and fn.id == "dict" and coll.args:
            out = element_sources(ctx, frame, env, coll.args[0], _depth + 1)
            for k in coll.keywords:
                out |= element_sources(ctx, frame, env, k.value, _depth + 1) if k.arg is None else value_sources(ctx, frame, env, k.value, _depth + 1)
            return out
        if isinstance(fn, ast.Name) and fn.id in ("list", "tuple", "set", "sorted", "reversed", "iter", "frozenset") and len(coll.args) == 1:
            return element_sources(ctx, frame, env, coll.args[0], _depth + 1)
        if isinstance(fn, ast.Attribute) and fn.attr in ("values", "copy") and not coll.args:
            return element_sources(ctx, frame, env, fn.value, _depth + 1)
    if isinstance(coll, ast.Name):
        sc = ctx.an.scope(frame)
        if coll.id in sc.params and env and coll.id in env and not sc.defs.get(coll.id):
            caller, arg, cenv = env[coll.id]
            return element_sources(ctx, caller, cenv, arg, _depth + 1)
        out = set()
        hows = sc.defs.get(coll.id, [])
        if not hows:
            return {"?"}
        for h in hows:
            v = h[1] if h[0] == "assign" else (h[2] if h[0] == "ann" else None)
            if v is None:
                # a loop variable that is itself a container (for container in (a, b, c))
                if h[0] == "iter":
                    it = strip_cast(h[1])
                    if isinstance(it, (ast.Tuple, ast.List)):
                        for x in it.elts:
                            out |= element_sources(ctx, frame, env, x, _depth + 1)
                        continue
                out.add("?")
                continue
            out |= element_sources(ctx, frame, env, v, _depth + 1)
        # elements added in place: x.append(v) / x.add(v) / x.extend(c) / x.update(c)
        for node in sc._own_nodes():
            if isinstance(node, ast.Call) and isinstance(node.func, ast.Attribute) and isinstance(node.func.value, ast.Name) and node.func.value.id == coll.id and node.args:
                if node.func.attr in ("append", "add", "insert"):
                    out |= value_sources(ctx, frame, env, node.args[-1], _depth + 1)
                elif node.func.attr in ("extend", "update"):
                    out |= element_sources(ctx, frame, env, node.args[0], _depth + 1)
        return out
    return {"?"}


def registry_view(ctx: Ctx, frame: FuncInfo, env, e: Optional[ast.AST], _depth: int = 0) -> Optional[Set[str]]:
    """e as a mapping from task ids to tasks built from the task registries alone - a registry, a copy (`dict(r)`, `r.copy()`,
    `{**r}`), a combination (`{**a, **b}`, `a | b`, `ChainMap(a, b)`), a private property returning one -> the registries shown
    (tags R / C / E); None when e is anything else"""
    from ..cfg import strip_cast

    if e is None or _depth > 6:
        return None
    e = strip_cast(e)
    p = ctx.eff.paths(frame).of(e)
    p = ctx.eff.rebase(p, frame, env) if p is not None else None
    if p is not None:
        for fld, tag in REG_OF_FIELD.items():
            if re.search(r"\." + fld + r"$", p):
                return {tag}
    if isinstance(e, ast.Call) and id(e) in ctx.an.spliced_at:
        from ..cfg import bind_args
        t_ = ctx.an.spliced_at[id(e)]
        sub_ = bind_args(e, t_, frame, env)
        rets_ = [r.value for r in ctx.an.scope(t_)._own_nodes() if isinstance(r, ast.Return)]
        if not rets_ or any(r is None for r in rets_):
            return None
        out_: Set[str] = set()
        for r in rets_:
            sv = registry_view(ctx, t_, sub_, r, _depth + 1)
            if sv is None:
                return None
            out_ |= sv
        return out_
    parts: List[ast.AST] = []
    if isinstance(e, ast.Dict) and e.keys and all(k is None for k in e.keys):
        parts = list(e.values)
    elif isinstance(e, ast.BinOp) and isinstance(e.op, ast.BitOr):
        parts = [e.left, e.right]
    elif isinstance(e, ast.Call) and isinstance(e.func, ast.Attribute) and e.func.attr == "copy" and not e.args and not e.keywords:
        parts = [e.func.value]
    elif isinstance(e, ast.Call) and not e.keywords and e.args and not any(isinstance(a, ast.Starred) for a in e.args) \
            and (ctx.an.scope(frame).callee(e).name.rpartition(".")[2] == "ChainMap" or (isinstance(e.func, ast.Name) and e.func.id == "dict" and len(e.args) == 1)):
        parts = list(e.args)
    elif isinstance(e, ast.Attribute) and isinstance(e.value, ast.Name) and e.value.id == ctx.an.scope(frame).selfname and frame.cls is not None:
        prop = ctx.prog.lookup(frame.cls, e.attr)
        if prop is None or prop.kind != "property":
            return None
        rets = [r.value for r in ctx.an.scope(prop)._own_nodes() if isinstance(r, ast.Return)]
        if not rets or any(r is None for r in rets):
            return None
        out: Set[str] = set()
        for r in rets:
            sub = registry_view(ctx, prop, None, r, _depth + 1)
            if sub is None:
                return None
            out |= sub
        return out
    elif isinstance(e, ast.Name):
        sc = ctx.an.scope(frame)
        if e.id in sc.params and env and e.id in env and not sc.defs.get(e.id):
            caller, arg, cenv = env[e.id]
            return registry_view(ctx, caller, cenv, arg, _depth + 1)
        hows = sc.defs.get(e.id, [])
        if len(hows) == 1 and hows[0][0] in ("assign", "ann"):
            return registry_view(ctx, frame, env, hows[0][1] if hows[0][0] == "assign" else hows[0][2], _depth + 1)
        return None
    if not parts:
        return None
    out = set()
    for x in parts:
        sub = registry_view(ctx, frame, env, x, _depth + 1)
        if sub is None:
            return None
        out |= sub
    return out


def r_cancel_targets(ctx: Ctx, rule: str):
    """Only tasks taken from the running registry (or spawners) are cancelled.  A task filed as cancelled or ended may still be
    inside its cancel/end callback; cancelling it again throws a second CancelledError into that callback."""
    rep = ctx.rep
    rep.rule(rule, "WHAT(Task.cancel in the pool classes): the receiver of every cancel() is an entry of _tasks_running (directly, through "
                   "_get_running_task, or a collection of such) or a spawner task - never an entry of _tasks_cancelled / _tasks_ended, whose "
                   "callbacks may still be in progress")
    n = 0
    for f in ctx.pool_functions():
        for c in ctx.distinct_sites(ctx.nodes(f, lambda m: any(e.kind in ("cancel", "maybe-cancel") for e in ctx.eff.of_node(m)))):
            copies = [x for x in ctx.nodes(f, lambda m: m.ast is c.ast and m.op == c.op)]
            recv = c.ast.func.value if isinstance(c.ast, ast.Call) and isinstance(c.ast.func, ast.Attribute) else None
            if isinstance(c.ast, ast.Call) and not (isinstance(c.ast.func, ast.Attribute) and c.ast.func.attr == "cancel"):
                # the bound method `<task>.cancel` handed to a call as a value
                handed = [a for a in list(c.ast.args) + [k.value for k in c.ast.keywords] if isinstance(a, ast.Attribute) and a.attr == "cancel"]
                if handed:
                    recv = handed[0].value
            src: Set[str] = set()
            for x in copies:
                src |= value_sources(ctx, x.func, x.env, recv)
            n += 1
            bad = src & {"C", "E"}
            ok: Optional[bool] = False if bad else (None if "?" in src or not src else True)
            rep.ob(rule, "a task that is cancelled is one filed as running (or a spawner)", ok, node=c,
                   detail=f"possible sources of the receiver: {sorted(src)}" + ("" if not bad else
                          "; a task filed as cancelled/ended can still be inside its cancel/end callback: a second cancel() interrupts that callback"))
    rep.floor(rule, "Task.cancel sites in the pool classes", n, 3)


# ------------------------------------------------------------------------ C07
def r_cancel_group_entry(ctx: Ctx, rule: str):
    rep = ctx.rep
    rep.rule(rule, "cancel_group: removing the group from the table (KeyError -> TaskGroupNotFound <= InvalidGroupName) is the first effect and "
                   "nothing is cancelled before it; cancel_all leaves the group table empty and applies the group helper to every entry")
    for f in ctx.pool_funcs("cancel_group"):
        g = ctx.an.cfg(f)
        pops = ctx.nodes(f, lambda n: any(e.kind == "remove" and e.path == GROUPS for e in ctx.eff.of_node(n)))
        rep.floor(rule, "removal of the group from the table in cancel_group", len(ctx.distinct_sites(pops)), 1)
        effects = ctx.nodes(f, lambda n: any(e.kind in ("cancel", "insert", "remove", "clear", "assign", "maybe-cancel") and e.path.startswith("self") for e in ctx.trans_effects(n)) and n not in pops)
        for e in ctx.distinct_sites(effects):
            rep.ob(rule, "every effect of cancel_group comes after the group was found and removed", dominated_by_completion(g, pops, e), node=e)
        # (a keyed look-up behind a test that found the key - `if D.get(k) is None: raise ...; del D[k]` - raises no KeyError)
        rexits = [x for x in g.raise_exits.values() if x.pred and not (x.tok[0] == KEYERROR and all(key_lookup_guarded(ctx, f, p_) for p_, _l in x.pred))]
        names = {x.tok[0].rpartition(".")[2] for x in rexits}
        rep.ob(rule, "an unknown group name raises TaskGroupNotFound (and nothing else escapes)", names == {"TaskGroupNotFound"}, func=f, construct="raising exits",
               detail=f"raising exits: {sorted(names)}")
        for x in rexits:
            traces = [e for e in effects + pops if x in reach([s for s, lab in e.succ if lab[0] in NORMAL_KINDS])]
            rep.ob(rule, "a rejected cancel_group changed nothing", not traces, func=f, construct=f"raise exit {x.tok[0].rpartition('.')[2]}",
                   detail="" if not traces else f"{traces[0].text(50)} completes before the raise")
        r_not_found_only_when_absent(ctx, rule, f, GROUPS, "TaskGroupNotFound")
        for p in ctx.distinct_sites(pops):
            key = p.ast.args[0] if isinstance(p.ast, ast.Call) and p.ast.args else None
            if p.op == "del" and isinstance(p.ast, ast.Delete) and len(p.ast.targets) == 1 and isinstance(p.ast.targets[0], ast.Subscript):
                key = p.ast.targets[0].slice
            rep.ob(rule, "the group removed is the one named by the caller", expr_role(ctx, f, key) == "GROUP", node=p)
        # helper gets the same name and the register just removed
        for h in ctx.distinct_sites(ctx.nodes(f, lambda n: ctx.is_call_to(n, "_cancel_and_remove_all_from_group"))):
            t = h.callee.targets[0]
            a_name, a_reg = ctx.call_arg(h.ast, t, "group_name"), ctx.call_arg(h.ast, t, "group_reg")
            ok = expr_role(ctx, f, a_name) == "GROUP" and ctx.eff.paths(f).of(a_reg) == GROUPS + "[]"
            rep.ob(rule, "the helper receives the group's name and the register removed from the table", ok, node=h)
    rep.ob(rule, "TaskGroupNotFound is an InvalidGroupName", ctx.hier.is_sub("exceptions.TaskGroupNotFound", "exceptions.InvalidGroupName"), construct="exceptions.TaskGroupNotFound")
    for f in ctx.pool_funcs("cancel_all"):
        g = ctx.an.cfg(f)
        # the normal exit is reached only with an empty table: through the false outcome of a truth test of the table, or after clear()
        tests = ctx.nodes(f, lambda n: n.op == "test" and ctx.eff.paths(f).of(n.ast) == GROUPS)
        clears = ctx.nodes(f, lambda n: any(e.kind == "clear" and e.path == GROUPS for e in ctx.eff.of_node(n)))

        def ef(a: Node, b: Node, lab: Label) -> bool:
            if a in tests and lab[0] == "F":
                return False
            return True

        r = reach([g.entry], ef, avoid=set(clears))
        ok = g.exit not in r
        removals = [e for e in ctx.eff.of_func(f) if e.kind in ("remove", "clear") and e.path == GROUPS]
        rep.ob(rule, "cancel_all returns only with an empty group table", ok if (tests or clears) else (None if removals else False), func=f, construct="exit of cancel_all",
               detail="" if removals else "cancel_all never removes a group from the table")
        helpers = ctx.distinct_sites(ctx.nodes(f, lambda n: ctx.is_call_to(n, "_cancel_and_remove_all_from_group")))
        rep.floor(rule, "group helper call in cancel_all", len(helpers), 1)
        for h in helpers:
            t = h.callee.targets[0]
            a_name, a_reg = ctx.call_arg(h.ast, t, "group_name"), ctx.call_arg(h.ast, t, "group_reg")
            sc = ctx.an.scope(f)
            ok = None
            if isinstance(a_name, ast.Name) and isinstance(a_reg, ast.Name):
                d1, d2 = sc.defs.get(a_name.id, []), sc.defs.get(a_reg.id, [])
                if len(d1) == 1 and len(d2) == 1 and d1[0][0] == "elt" and d2[0][0] == "elt":
                    src1, src2 = d1[0][1], d2[0][1]
                    same = src1[0] == src2[0] and src1[1] is src2[1]
                    srcexpr = src1[1]
                    from_table = ctx.eff.paths(f).of(srcexpr) in (GROUPS + "[]", GROUPS)
                    ok = same and d1[0][2] == 0 and d2[0][2] == 1 and from_table
            if ok is None and h.ast.args and isinstance(h.ast.args[0], ast.Starred) and len(h.ast.args) == 1:
                # helper(*self._task_groups.popitem(), **kw): the (name, register) pair goes in as the first two positionals
                sv = ctx.vals.resolve(f, h.ast.args[0].value)
                first_two = t.param_names()[1:3] if t.param_names() and t.param_names()[0] == "self" else t.param_names()[:2]
                if isinstance(sv, ast.Call) and isinstance(sv.func, ast.Attribute) and sv.func.attr == "popitem" and not sv.args \
                        and ctx.eff.paths(f).of(sv.func.value) == GROUPS and first_two == ["group_name", "group_reg"]:
                    ok = True
            rep.ob(rule, "the helper is applied to each (name, register) entry taken from the table", ok, node=h)
            if h.loops:
                heads = [x for x in g.nodes if x.pred and x.op in ("iter", "loophead") and x.ast is h.loops[-1]]
                if heads:
                    removal = ctx.nodes(f, lambda n: n.loops and n.loops[-1] is h.loops[-1] and any(e.kind == "remove" and e.path == GROUPS for e in ctx.eff.of_node(n)))
                    full, why = loop_body_always_runs(ctx, f, heads[0], [h] + removal[:1])
                    rep.ob(rule, "every group is removed and handed to the helper (no skip, no early exit)", full, node=h, detail=why)


def r_group_helper(ctx: Ctx, rule: str):
    rep = ctx.rep
    rep.rule(rule, "in _cancel_and_remove_all_from_group the group's spawners are cancelled before any member task; the member loop empties the "
                   "register (a missing id continues with the next); in _cancel_group_meta_tasks every spawner of the group is cancelled and "
                   "moved to the cancelled-spawner set")
    for f in ctx.pool_funcs("_cancel_and_remove_all_from_group"):
        g = ctx.an.cfg(f)
        meta = ctx.nodes(f, lambda n: ctx.is_call_to(n, "_cancel_group_meta_tasks"))
        rep.floor(rule, "call of _cancel_group_meta_tasks", len(ctx.distinct_sites(meta)), 1)
        members = [c for c in cancel_nodes(ctx, f, "member")]
        rep.floor(rule, "member cancel steps", len(ctx.distinct_sites(members)), 1)
        # a group that has not started a task yet (empty register) still owns a live spawner: no way through the helper skips its cancellation
        rep.ob(rule, "the group's spawners are cancelled on every way through the helper, whatever the register holds (an empty register is the "
                     "normal state of a group whose spawner is still waiting for room)", dominated_by_completion(g, meta, g.exit), func=f,
               construct="normal exit reached without _cancel_group_meta_tasks")
        for c in ctx.distinct_sites(members):
            rep.ob(rule, "spawners are cancelled before the first member task (no new member can start in between)", dominated_by_completion(g, meta, c), node=c)
            # the receiver, followed through locals and through the parameters of helpers spliced into this function
            rfr, renv, recv = ctx.vals.trace(c.func, c.env, c.ast.func.value)
            P = ctx.eff.paths(f)
            # (looked up by id in the running registry, or in a view that shows the running registry alone - by subscript, or by
            # `.get(id)` whose None result is told apart before the cancel)
            ok = isinstance(recv, ast.Subscript) and (ctx.eff.rebase(ctx.eff.paths(rfr).of(recv.value) or "", rfr, renv) == RUN or registry_view(ctx, rfr, renv, recv.value) == {"R"})
            key = recv.slice if isinstance(recv, ast.Subscript) else None
            if isinstance(recv, ast.Call) and isinstance(recv.func, ast.Attribute) and recv.func.attr == "get" and 1 <= len(recv.args) <= 2 and not recv.keywords \
                    and (len(recv.args) == 1 or (isinstance(recv.args[1], ast.Constant) and recv.args[1].value is None)) \
                    and (ctx.eff.rebase(ctx.eff.paths(rfr).of(recv.func.value) or "", rfr, renv) == RUN or registry_view(ctx, rfr, renv, recv.func.value) == {"R"}):
                ok, key = True, recv.args[0]
            key_ok = False
            if isinstance(key, ast.Name):
                kfr, kenv, rk = ctx.vals.trace(rfr, renv, key)
                if kfr is f and isinstance(rk, ast.Call):
                    key = rk
            if isinstance(key, ast.Call) and isinstance(key.func, ast.Attribute) and key.func.attr == "pop" and not key.args:
                key_ok = expr_role_reg(ctx, f, key.func.value)
            elif isinstance(key, ast.Name):
                sc = ctx.an.scope(f)
                for h in sc.defs.get(key.id, []):
                    if h[0] == "assign" and isinstance(h[1], ast.Call) and isinstance(h[1].func, ast.Attribute) and h[1].func.attr == "pop":
                        key_ok = expr_role_reg(ctx, f, h[1].func.value)
                    elif h[0] == "iter":
                        key_ok = expr_role_reg(ctx, f, h[1])
            rep.ob(rule, "the member cancelled is the running task whose id was taken from this group's register", ok and key_ok, node=c)
        # no member is skipped: from taking an id out of the register to the next iteration every path cancels the task - unless the
        # look-up found no running task for it (KeyError handler / the None result of `.get`)
        takes = ctx.nodes(f, lambda n: n.op == "call" and isinstance(n.ast.func, ast.Attribute) and n.ast.func.attr == "pop" and not n.ast.args
                          and expr_role_reg(ctx, f, n.ast.func.value) and bool(n.loops))
        sc_ = ctx.an.scope(f)

        def none_branch(t: ast.AST) -> Optional[str]:
            """the branch of a test on which the looked-up task is known to be missing"""
            neg = False
            while isinstance(t, ast.UnaryOp) and isinstance(t.op, ast.Not):
                neg, t = not neg, t.operand
            name, lab_ = None, None
            if isinstance(t, ast.Compare) and len(t.ops) == 1 and isinstance(t.ops[0], (ast.In, ast.NotIn)) \
                    and (ctx.eff.paths(f).of(t.comparators[0]) == RUN or registry_view(ctx, f, None, t.comparators[0]) == {"R"}):
                # `task_id not in self._tasks_running`: no running task under that id
                lab_ = "T" if isinstance(t.ops[0], ast.NotIn) else "F"
                if neg:
                    lab_ = "T" if lab_ == "F" else "F"
                return lab_
            if isinstance(t, ast.Compare) and len(t.ops) == 1 and isinstance(t.ops[0], (ast.Is, ast.IsNot)) and isinstance(t.left, ast.Name) \
                    and isinstance(t.comparators[0], ast.Constant) and t.comparators[0].value is None:
                name, lab_ = t.left.id, ("T" if isinstance(t.ops[0], ast.Is) else "F")
            elif isinstance(t, ast.Name):
                name, lab_ = t.id, "F"
            if name is None:
                return None
            hows = sc_.defs.get(name, [])
            if not (len(hows) == 1 and hows[0][0] in ("assign", "ann")):
                return None
            v_ = hows[0][1] if hows[0][0] == "assign" else hows[0][2]
            if not (isinstance(v_, ast.Call) and isinstance(v_.func, ast.Attribute) and v_.func.attr == "get"):
                return None
            if neg:
                lab_ = "T" if lab_ == "F" else "F"
            return lab_

        for tk in ctx.distinct_sites(takes):
            lp = tk.loops[-1]
            heads = {h for h in g.nodes if h.pred and h.op in ("loophead", "iter") and h.ast is lp} | {t_ for t_ in g.nodes if t_.op == "test" and t_.stmt is lp}
            copies = [x for x in takes if x.ast is tk.ast]

            def ef(a: Node, b: Node, lab: Label) -> bool:
                if lab[0] not in NORMAL_KINDS or a in members:
                    return False
                if a.op == "test" and lab[0] in ("T", "F") and none_branch(a.ast) == lab[0]:
                    return False
                return True

            # a `for x in <display handed in by the caller>` loop (helper given `(task,)`) runs its body at least once: its exit
            # edge cannot be taken on first arrival - searched over (step, loops entered so far)
            def nonempty_display(n_: Node) -> bool:
                if n_.op != "iter" or not isinstance(n_.ast, ast.For):
                    return False
                ls_ = ctx.vals.leaves(n_.func, n_.env, n_.ast.iter)
                return bool(ls_) and all(isinstance(l_[2], (ast.Tuple, ast.List)) and l_[2].elts and not any(isinstance(x_, ast.Starred) for x_ in l_[2].elts) for l_ in ls_)

            forced = {id(n_) for n_ in g.nodes if nonempty_display(n_)}
            start_ = [(s_, frozenset()) for x in copies for s_, lab in x.succ if lab[0] in NORMAL_KINDS]
            seen_st, work_st, r_ = set(), list(start_), set()
            while work_st:
                a, ent = work_st.pop()
                if (id(a), ent) in seen_st:
                    continue
                seen_st.add((id(a), ent))
                r_.add(a)
                for b, lab in a.succ:
                    if not ef(a, b, lab):
                        continue
                    ent2 = ent
                    if id(a) in forced and lab[0] == "F" and id(a) not in ent:
                        continue
                    if id(a) in forced and lab[0] == "T":
                        ent2 = ent | {id(a)}
                    work_st.append((b, ent2))
            skipped = bool(r_ & heads) or g.exit in r_
            rep.ob(rule, "every id taken from the register is cancelled if its task is running (no member is skipped)", not skipped, node=tk,
                   detail="" if not skipped else "a path from taking the id to the next iteration passes no cancel although the task was found running: that member of the group survives the group's cancellation")
        rep.floor(rule, "ids taken from the group register in the member loop", len(ctx.distinct_sites(takes)), 1)
        for m in ctx.distinct_sites(meta):
            t = m.callee.targets[0]
            rep.ob(rule, "the spawners cancelled are those of this group", expr_role(ctx, f, ctx.call_arg(m.ast, t, "group_name")) == "GROUP", node=m)
        # the member loop empties the register
        tests = ctx.nodes(f, lambda n: n.op == "test" and expr_role_reg(ctx, f, n.ast))
        iters = ctx.nodes(f, lambda n: n.op == "iter" and expr_role_reg(ctx, f, n.ast.iter))

        def ef(a: Node, b: Node, lab: Label) -> bool:
            return not ((a in tests or a in iters) and lab[0] == "F")

        r = reach([g.entry], ef)
        counted = (not tests and not iters) and any(tk_.loops for tk_ in takes)
        rep.ob(rule, "the helper returns only after every id of the register was visited", (g.exit not in r) if (tests or iters) else (False if counted else None), func=f,
               construct="member loop",
               detail=("the ids are taken in a loop that neither tests the register nor iterates over it: how often it runs was fixed by a count taken beforehand, "
                       "not by the register running empty - ids whose turn burns an iteration (ended, unflushed tasks) leave running members un-cancelled") if counted else
                      ("" if g.exit not in r else "the normal exit is reachable without the register having been exhausted (break / early return)"))
        rexits = [x for x in g.raise_exits.values() if x.pred]
        rep.ob(rule, "a member that is no longer running does not abort the group cancellation", not rexits, func=f, construct="raising exits",
               detail=str(sorted(x.tok[0] for x in rexits)))
    for f in ctx.pool_funcs("_cancel_group_meta_tasks"):
        g = ctx.an.cfg(f)
        pops = ctx.nodes(f, lambda n: any(e.kind == "remove" and e.path == META_RUN for e in ctx.eff.of_node(n)))
        rep.floor(rule, "removal of the group's running spawners", len(ctx.distinct_sites(pops)), 1)
        for p in ctx.distinct_sites(pops):
            key = p.ast.args[0] if isinstance(p.ast, ast.Call) and p.ast.args else None
            rep.ob(rule, "the spawner set removed is the group's", expr_role(ctx, f, key) == "GROUP", node=p)
        cs = cancel_nodes(ctx, f)
        for c in ctx.distinct_sites(cs):
            pth = [e.path for e in ctx.eff.of_node(c) if e.kind == "cancel"]
            rep.ob(rule, "the tasks cancelled are the members of the removed spawner set", bool(pth) and pth[0] == META_RUN + "[][]", node=c, detail=str(pth))
            if c.loops:
                heads = [x for x in g.nodes if x.pred and x.op == "iter" and x.ast is c.loops[-1]]
                if heads:
                    full, why = loop_body_always_runs(ctx, f, heads[0], [c])
                    rep.ob(rule, "every spawner of the group is cancelled", full, node=c, detail=why)
        moved = ctx.nodes(f, lambda n: any(e.kind == "insert" and e.path == META_CAN for e in ctx.eff.of_node(n)))
        for p in ctx.distinct_sites(pops):
            # `x = TABLE.pop(key, None)` followed by a test of x: on the branch where x is None nothing was removed
            tgt = None
            st_ = p.stmt
            if isinstance(st_, ast.Assign) and len(st_.targets) == 1 and isinstance(st_.targets[0], ast.Name) and st_.value is p.ast and len(p.ast.args) == 2 \
                    and isinstance(p.ast.args[1], ast.Constant) and p.ast.args[1].value is None:
                tgt = st_.targets[0].id
            if tgt is None and len(p.ast.args) == 2 and isinstance(p.ast.args[1], ast.Constant) and p.ast.args[1].value is None:
                # the same through a walrus: `if (x := TABLE.pop(key, None)) is None: return`
                we = next((x for x in ast.walk(st_) if isinstance(x, ast.NamedExpr) and x.value is p.ast and isinstance(x.target, ast.Name)), None) if st_ is not None else None
                if we is not None:
                    tgt = we.target.id

            tgt_frame = p.func
            if tgt is None and p.func is not f and isinstance(st_, ast.Return) and st_.value is p.ast and len(p.ast.args) == 2 \
                    and isinstance(p.ast.args[1], ast.Constant) and p.ast.args[1].value is None:
                # the pop-with-default is what a helper spliced in returns: `x = self._forget(name)` / `if x is None: return` in the caller
                for x in ctx.an.scope(f)._own_nodes():
                    c_ = x.value if isinstance(x, (ast.Assign, ast.AnnAssign, ast.NamedExpr)) else None
                    if isinstance(c_, ast.Call) and ctx.an.spliced_at.get(id(c_)) is p.func:
                        t_ = x.targets[0] if isinstance(x, ast.Assign) and len(x.targets) == 1 else getattr(x, "target", None)
                        if isinstance(t_, ast.Name):
                            tgt, tgt_frame = t_.id, f

            def removed_something(a: Node, b: Node, lab: Label, tgt=tgt, tgt_frame=tgt_frame) -> bool:
                if lab[0] not in NORMAL_KINDS:
                    return False
                if tgt is not None and a.op == "test" and lab[0] in ("T", "F") and a.func is tgt_frame:
                    v = _none_test(a.ast, tgt)
                    if v is not None and (lab[0] == "T") == v:
                        return False
                return True

            ok = bool(moved) and g.exit not in reach([s for s, lab in p.succ if lab[0] in NORMAL_KINDS], removed_something, avoid=set(moved))
            rep.ob(rule, "the cancelled spawners are remembered in the cancelled-spawner set (gather_and_close/flush wait for them)", ok, node=p)
        rexits = [x for x in g.raise_exits.values() if x.pred]
        rep.ob(rule, "a group without spawners is not an error", not rexits, func=f, construct="raising exits")


def _none_test(e: ast.AST, name: str) -> Optional[bool]:
    """True if the test holds exactly when `name` is None / empty, False if it holds when it is not, else None."""
    if isinstance(e, ast.UnaryOp) and isinstance(e.op, ast.Not):
        v = _none_test(e.operand, name)
        return None if v is None else not v
    if isinstance(e, ast.NamedExpr) and isinstance(e.target, ast.Name) and e.target.id == name:
        return False  # `if (x := ...):`
    if isinstance(e, ast.Name) and e.id == name:
        return False
    left = e.left.target if isinstance(e, ast.Compare) and isinstance(e.left, ast.NamedExpr) else (e.left if isinstance(e, ast.Compare) else None)
    if isinstance(e, ast.Compare) and len(e.ops) == 1 and isinstance(left, ast.Name) and left.id == name and isinstance(e.comparators[0], ast.Constant) \
            and e.comparators[0].value is None:
        if isinstance(e.ops[0], (ast.Is, ast.Eq)):
            return True
        if isinstance(e.ops[0], (ast.IsNot, ast.NotEq)):
            return False
    return None


def expr_role_reg(ctx: Ctx, f: FuncInfo, e: Optional[ast.AST]) -> bool:
    """Is e the function's own group-register parameter?"""
    return isinstance(e, ast.Name) and e.id in f.param_names() and e.id == "group_reg"


def r_no_swallow(ctx: Ctx, rule: str) -> None:
    """NO-SWALLOW.  A task of the pool that awaits one of the pool's own public coroutines (flush, gather_and_close,
    until_closed) is suspended inside library code; a cancellation delivered to it there must come out of that coroutine.
    Decided on the CFG of every public `async def` of the pool classes (helpers spliced in): no cancellation-delivery edge
    of a suspension step leads to a handler / suppress(...) from which the function can go on normally."""
    from ..cfg import NORMAL_KINDS
    from ..queries import reach

    rep = ctx.rep
    rep.rule(rule, "NO-SWALLOW: a CancelledError delivered to the caller while it is suspended inside a public coroutine of the pool "
                   "(flush / gather_and_close / until_closed) propagates out of it - no handler or suppress(...) around the suspension "
                   "absorbs it and lets the method go on (the cancelled member task would survive inside library code)")
    for anchor in ("flush", "gather_and_close", "until_closed"):
        ctx.pool_funcs(anchor)
    funcs = [f for f in ctx.pool_functions() if f.is_async and f.parent is None and not f.name.startswith("_")]
    rep.floor(rule, "public coroutines of the pool classes", len(funcs), 3)
    steps = 0
    for f in funcs:
        g = ctx.an.cfg(f)
        seen = set()
        for n in g.nodes:
            if not n.pred and n is not g.entry:
                continue
            for s, lab in n.succ:
                if lab[0] != "c":
                    continue
                steps += 1
                if s.op not in ("handler", "suppressed"):
                    continue
                goes_on = reach([s], lambda a, b, l: l[0] in NORMAL_KINDS)
                bad = g.exit in goes_on or any(m.op in ("await", "iter") and m is not n for m in goes_on)
                key = (id(n.ast), id(s.ast))
                if key in seen:
                    continue
                seen.add(key)
                rep.ob(rule, "a cancellation delivered at this suspension is not absorbed by the method", not bad, node=n,
                       detail="" if not bad else f"the CancelledError meant for the caller is caught by `{s.text(60)}` and {f.name}() continues as if nothing happened")
    rep.floor(rule, "cancellation-delivery edges of suspension steps examined", steps, 4)
