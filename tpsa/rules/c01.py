"""C01 — pool size is never exceeded (structural discipline implying the bound)."""
from .lib import Ctx
from . import shared as S


def check(ctx: Ctx) -> None:
    S.r_acquire_dominates_create(ctx)
    S.r_who_create_task(ctx)
    S.r_who_release(ctx)
    S.r_who_write_semaphore(ctx)
    S.r_atomic_slot_registry(ctx)
    S.r_is_full(ctx)
    # the bound enforced is the size that was asked for - 0 included (shared with C15)
    S.r_limit_is_assigned_value(ctx, "R01.7")
    # is_full tells the truth only while no slot is lost: a task forgotten by flush() inside its callback ends with a KeyError before its release
    S.r_snapshot_forget(ctx, "R13.1")
