"""C02 — no task and no capacity is ever lost."""
from .lib import Ctx
from . import shared as S
from .lifecycle import check_lifecycle


def check(ctx: Ctx) -> None:
    rep = ctx.rep
    S.r_handoff(ctx, "R02.1")
    S.r_wrapper_armed(ctx, "R02.2")
    rep.rule("R02.3", "ALL-EXITS(_task_wrapper entry => _task_ending effects, exactly once) decided by the life-cycle typestate over normal, "
                      "exception and cancellation edges: every exit has slot=free and registry=ended")
    check_lifecycle(ctx, "R02.3", {"slot", "loc"})
    S.r_atomic_slot_registry(ctx, "R02.4")
    S.r_who_release(ctx, "R02.4w")
    S.r_spawner_capacity_info(ctx, "R02.5")
    S.r_snapshot_forget(ctx, "R13.1")
    S.r_registry_who(ctx, "R03.1")
    # no slot is lost only if every task has an id of its own: two tasks filed under one id overwrite each other, the second one's ending finds nothing and raises before it releases (id discipline shared with C11)
    from . import naming as _N
    _N.r_id_discipline(ctx, "R02.9")
    S.r_published_before_first_step(ctx, "R02.10")
    # a task that is forgotten while it is still inside a callback ends with a KeyError before its slot is released: gather_and_close
    # forgets a registry only when every task it can hold was awaited
    from . import close as CL
    CL.r_forget_only_gathered(ctx, "R02.11")
    # "its slot is handed back exactly once and its callbacks fire": the ending waits for a callback only as long as the callback
    # itself runs - execute_optional awaits coroutine-function callbacks and nothing a plain callback merely returns
    S.r_execute_optional(ctx, "R02.12")
