"""C13 — flush forgets finished tasks only."""
from .lib import Ctx
from . import shared as S
from . import close as CL


def check(ctx: Ctx) -> None:
    rep = ctx.rep
    S.r_snapshot_forget(ctx, "R13.1")
    rep.rule("R13.2", "forget <= gathered: flush has no write effect on the running registry, reaches no Task.cancel, releases no slot and "
                      "touches neither groups nor the id counter")
    for f in ctx.pool_funcs("flush"):
        effs = ctx.func_trans_effects(f)
        bad = [e for e in effs if (e.kind in ("insert", "remove", "clear", "assign", "aug") and e.path.startswith("self._tasks_running")) or e.kind in ("cancel", "maybe-cancel", "release", "acquire")
               or (e.kind in ("insert", "remove", "clear", "assign", "aug") and any(x in e.path for x in ("._task_groups", "._num_started", "._enough_room", "._locked", "._closed")))]
        rep.ob("R13.2", "flush neither disturbs running tasks nor other pool state", not bad, func=f, construct=bad[0].node if bad else "flush: effects limited to ended/cancelled registries and finished spawners",
               detail="" if not bad else f"{bad[0].kind} {bad[0].path}")
        ins = [e for e in effs if e.kind == "insert" and e.path in ("self._tasks_ended", "self._tasks_cancelled")]
        rep.ob("R13.2", "flush does not file tasks itself", not ins, func=f, construct=ins[0].node if ins else "no inserts")
    CL.r_return_exceptions(ctx, "R13.3", ("flush",))
    CL.r_gather_complete(ctx, "R13.4", ("flush",))
    r_once_forgotten(ctx, "R13.5")
    # "no longer remembered" is observable through cancel(): an id that is in no registry is unknown (TaskNotFound), whatever
    # else the pool knows about it
    from .cancel import r_lookup_table
    r_lookup_table(ctx, "R13.6")
    # ... and stays forgotten: nothing but the task's own ending files a task as ended (a late done-callback must not re-file it)
    S.r_registry_who(ctx, "R13.7")


def r_once_forgotten(ctx: Ctx, rule: str) -> None:
    """after flush returns no task that had finished before the call is remembered"""
    from ..queries import reach
    from .lib import dominated_by_completion
    rep = ctx.rep
    rep.rule(rule, "once flush returns normally, every task that was filed as ended or cancelled when its task-gather started has been removed "
                   "from both registries: the normal exit is dominated by a removal (keyed by the snapshot / guarded by done()) on each of them")
    for f in ctx.pool_funcs("flush"):
        g = ctx.an.cfg(f)
        for fld in ("_tasks_ended", "_tasks_cancelled"):
            # a removal performed here, or by a coroutine flush awaits on its behalf
            rem = ctx.nodes(f, lambda n: any(e.kind in ("remove", "clear", "assign") and e.path == "self." + fld for e in ctx.trans_effects(n)))
            if not rem:
                rep.ob(rule, f"flush forgets the finished tasks of {fld}", False, func=f, construct=f"(no removal from {fld})")
                continue
            # removal inside a loop over the snapshot: the loop header dominates the exit
            anchors = []
            for r in rem:
                if r.loops:
                    anchors += [h for h in g.nodes if h.op in ("iter", "loophead") and h.ast is r.loops[0]]
                else:
                    anchors.append(r)
            ok = dominated_by_completion(g, anchors, g.exit)
            rep.ob(rule, f"the normal exit of flush is reached only through the forgetting of {fld}", ok, func=f, construct=rem[0])
    # "flush(return_exceptions=True) itself never raises": also not by iterating a registry that changes while it waits
    CL.r_no_live_iteration(ctx, "R13.6", ("flush",))
