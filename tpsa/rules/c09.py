"""C09 — rejected requests leave no trace; lock/unlock gate new requests."""
from .lib import Ctx
from . import accept as A


def check(ctx: Ctx) -> None:
    A.r_validate_first(ctx, "R09.1")
    A.r_simple_init(ctx, "R09.1i")
    A.r_check_precedence(ctx, "R09.2")
    A.r_raise_inventory(ctx, "R09.3")
    A.r_lock_flag(ctx, "R09.4")
    A.r_function_predicate(ctx, "R09.5")
    # TaskGroupAlreadyExists is decided by membership in the group table: a name leaves the table only by cancelling the group
    from .c07 import r_group_table_who
    r_group_table_who(ctx, "R09.6")
    # "a function that is not a coroutine function is rejected": by asyncio's notion of a coroutine function, the one the documentation names
    A.r_external_predicates(ctx, "R09.7")
    # "a closed pool rejects every request, for good": gather_and_close closes the pool on every way it returns
    from . import close as CL
    CL.r_close_order(ctx, "R09.8")
