"""C06 — cancel(ids) is exact and all-or-nothing."""
from .lib import Ctx
from . import shared as S
from . import cancel as K
from .lifecycle import check_lifecycle


def check(ctx: Ctx) -> None:
    K.r_two_phase(ctx, "R06.1")
    K.r_lookup_table(ctx, "R06.2")
    K.r_who_cancel(ctx, "R06.3")
    ctx.rep.rule("R06.4", "the state -> exception mapping of cancel() is only as good as the registries: a task that has observed its "
                          "CancelledError is filed as cancelled before any suspension step or user code (life-cycle typestate), so a second "
                          "cancel(id) meets AlreadyCancelled instead of delivering another CancelledError")
    check_lifecycle(ctx, "R06.4", {"cancel", "loc"})
    S.r_handoff(ctx, "R02.1")
    # "exactly the named tasks": an id names one task only if no two tasks are ever given the same id (shared with C11)
    from . import naming as N
    N.r_id_discipline(ctx, "R06.5")
    # "and to no other task": a cancellation delivered to one pool task must not travel on through something it awaits
    S.r_no_shared_task(ctx, "R06.6")
    # 'each observes one CancelledError at its next suspension point': also when that point lies inside a pool coroutine
    K.r_no_swallow(ctx, "R06.7")
    # "cancel(id) of a running task delivers": a running task is found only while it is in the running registry - the close must not
    # wipe the registries under tasks that are still alive (a gather left by an exception has waited for nothing)
    from . import close as _CL
    _CL.r_forget_only_gathered(ctx, "R06.8")
