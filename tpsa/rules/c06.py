"""C06 — cancel(ids) is exact and all-or-nothing."""
from .lib import Ctx
from . import shared as S
from . import cancel as K


def check(ctx: Ctx) -> None:
    K.r_two_phase(ctx, "R06.1")
    K.r_lookup_table(ctx, "R06.2")
    K.r_who_cancel(ctx, "R06.3")
    S.r_registry_who(ctx, "R03.1")
    S.r_handoff(ctx, "R02.1")
