"""SPAWNER-KEPT — element tracking through `_pop_ended_meta_tasks` (and any helper that edits the running-spawner table).

One generic spawner task `t` that is *not done* and is registered under group `g0` is followed through the
function by abstract interpretation over the CFG.  Abstract state:
  places  subset of {"T"} u {"v:x"} u {"s:x"} u {"m:x"} u {"k:x"}
          "T"    t is a member of self._group_meta_tasks_running[g0]
          "v:x"  local x is bound to t            "s:x"  t is a member of local collection x
          "m:x"  t is a member of x[g0] for a local dict x      "k:x"  g0 is a member of local key list x
  env     local -> "g0" | "other" (a group key) | "aT" (the very set object stored under g0)
Required at every normal exit: "T" in places (a spawner that is still running must stay findable for
cancel_group / gather_and_close).  Constructs the interpreter does not understand and that touch the table
or a tracked local make the verdict inconclusive.
"""
from __future__ import annotations

import ast
from typing import Dict, FrozenSet, List, Optional, Set, Tuple

from ..absint import AbsInt
from ..cfg import NORMAL_KINDS, Label, Node
from ..model import FuncInfo
from .lib import META_RUN, Ctx

TABLE_FIELD = "_group_meta_tasks_running"


class Tracker:
    def __init__(self, ctx: Ctx, f: FuncInfo):
        self.ctx = ctx
        self.f = f
        self.sc = ctx.an.scope(f)
        self.P = ctx.eff.paths(f)
        self.unknown: List[Tuple[Node, str]] = []
        self._site_no: Dict[int, int] = {}
        self._qcache: Dict[Tuple[int, int], ast.AST] = {}
        self.extra_locals: Set[str] = set()

    # ---------------------------------------------------- frames of spliced helpers
    # Steps of a helper spliced into f use the helper's own names.  They are rewritten into one flat name space: a parameter
    # bound to a plain variable of the caller IS that variable (same object), every other helper local gets the suffix @<site>,
    # `return v` becomes `__ret@<site> = v` and the call expression in the caller reads `__ret@<site>`.
    def site_no(self, call_id: int) -> int:
        return self._site_no.setdefault(call_id, len(self._site_no) + 1)

    def qname(self, frame: FuncInfo, env, name: str) -> str:
        if env is None:
            return name
        sc = self.ctx.an.scope(frame)
        if name in env and name in sc.params and not sc.defs.get(name):
            caller, arg, cenv = env[name]
            if isinstance(arg, ast.Name):
                return self.qname(caller, cenv, arg.id)
        if name not in sc.params and name not in sc.defs:
            return name  # global / builtin
        q = f"{name}@{self.site_no(self.ctx.an.env_site.get(id(env), id(env)))}"
        self.extra_locals.add(q)
        return q

    def qast(self, frame: FuncInfo, env, e: Optional[ast.AST]) -> Optional[ast.AST]:
        if e is None:
            return None
        key = (id(e), id(env))
        if key in self._qcache:
            return self._qcache[key]
        spl = self.ctx.an.spliced_at
        needs = env is not None or any(id(x) in spl for x in ast.walk(e))
        if not needs:
            self._qcache[key] = e
            return e
        tr = self

        def cp(x):
            if isinstance(x, ast.Call) and id(x) in spl:
                q = f"__ret@{tr.site_no(id(x))}"
                tr.extra_locals.add(q)
                return ast.copy_location(ast.Name(id=q, ctx=ast.Load()), x)
            if isinstance(x, ast.Name):
                return ast.copy_location(ast.Name(id=tr.qname(frame, env, x.id), ctx=x.ctx), x)
            if isinstance(x, ast.AST):
                new = type(x)()
                for fld, val in ast.iter_fields(x):
                    if isinstance(val, list):
                        setattr(new, fld, [cp(v) for v in val])
                    else:
                        setattr(new, fld, cp(val))
                for attr in ("lineno", "col_offset", "end_lineno", "end_col_offset"):
                    if hasattr(x, attr):
                        setattr(new, attr, getattr(x, attr))
                return new
            return x

        out = cp(e)
        self._qcache[key] = out
        return out

    def is_local(self, name: str) -> bool:
        return name in self.sc.defs or name in self.extra_locals

    # ------------------------------------------------------------ classification
    def is_table(self, e: Optional[ast.AST]) -> bool:
        if isinstance(e, ast.Name) and e.id in self.sc.defs and e.id not in self.sc.params:
            # a local alias of the table: `running = self._group_meta_tasks_running` (never a copy of it)
            return self.P.of(e) == META_RUN and not self.P.is_copy(e) and len(self.sc.defs[e.id]) == 1
        return isinstance(e, ast.Attribute) and self.P.of(e) == META_RUN

    def key_of(self, e: ast.AST, env: Dict[str, str]) -> Optional[str]:
        if isinstance(e, ast.Name):
            v = env.get(e.id)
            return v if v in ("g0", "other") else None
        return None

    def coll(self, e: Optional[ast.AST], env: Dict[str, str]) -> Optional[str]:
        """'T' for the set stored under g0, 'OTHER' for a set under another key, 'L:<x>' for a local collection, None otherwise"""
        if isinstance(e, ast.Subscript) and self.is_table(e.value):
            k = self.key_of(e.slice, env)
            return "T" if k == "g0" else ("OTHER" if k == "other" else "?")
        if isinstance(e, ast.Name):
            if env.get(e.id) == "aT":
                return "T"
            if env.get(e.id) == "aO":
                return "OTHER"
            if (env.get(e.id) or "").startswith("aL:"):
                return "L:" + env[e.id][3:]  # another name for that local collection
            if self.is_local(e.id):
                return "L:" + e.id
        if isinstance(e, ast.Call) and isinstance(e.func, ast.Name) and e.func.id in ("set", "list", "tuple", "frozenset", "sorted") and len(e.args) == 1:
            return self.coll(e.args[0], env)
        if isinstance(e, ast.Call) and isinstance(e.func, ast.Attribute) and e.func.attr == "copy" and not e.args:
            return self.coll(e.func.value, env)
        return None

    def member(self, e: ast.AST, places: FrozenSet[str], env: Dict[str, str], elem_var: Optional[str] = None) -> Optional[bool]:
        """Is t a member of the collection denoted by e?  None = unknown."""
        c = self.coll(e, env)
        if c == "T":
            return "T" in places
        if c == "OTHER":
            return False
        if c is not None and c.startswith("L:"):
            return ("s:" + c[2:]) in places
        if isinstance(e, (ast.Set, ast.List, ast.Tuple)):
            if not e.elts:
                return False
            return any(isinstance(x, ast.Name) and ("v:" + x.id) in places for x in e.elts) or None
        if isinstance(e, ast.Call) and isinstance(e.func, ast.Name) and e.func.id in ("set", "list", "dict") and not e.args:
            return False
        if isinstance(e, ast.BinOp) and isinstance(e.op, ast.Sub):
            a, b = self.member(e.left, places, env), self.member(e.right, places, env)
            if a is False:
                return False
            if a is True and b is False:
                return True
            if a is True and b is True:
                return False
            return None
        if isinstance(e, ast.BinOp) and isinstance(e.op, ast.BitOr):
            a, b = self.member(e.left, places, env), self.member(e.right, places, env)
            if a is True or b is True:
                return True
            if a is False and b is False:
                return False
            return None
        if isinstance(e, ast.BinOp) and isinstance(e.op, ast.BitAnd):
            a, b = self.member(e.left, places, env), self.member(e.right, places, env)
            if a is False or b is False:
                return False
            if a is True and b is True:
                return True
            return None
        if isinstance(e, (ast.SetComp, ast.ListComp, ast.GeneratorExp)) and len(e.generators) == 2:
            g1, g2 = e.generators
            it = g1.iter
            if isinstance(it, ast.Call) and isinstance(it.func, ast.Attribute) and it.func.attr in ("values", "items") and self.is_table(it.func.value) and not g1.ifs:
                inner_name = None
                if it.func.attr == "values" and isinstance(g1.target, ast.Name):
                    inner_name = g1.target.id
                elif it.func.attr == "items" and isinstance(g1.target, ast.Tuple) and len(g1.target.elts) == 2 and isinstance(g1.target.elts[1], ast.Name):
                    inner_name = g1.target.elts[1].id
                if inner_name and isinstance(g2.iter, ast.Name) and g2.iter.id == inner_name:
                    env2 = dict(env)
                    env2[inner_name] = "aT"
                    return self.member(type(e)(elt=e.elt, generators=[g2]) if not isinstance(e, ast.DictComp) else e, places, env2)
            return None
        if isinstance(e, (ast.SetComp, ast.ListComp, ast.GeneratorExp)) and len(e.generators) == 1:
            gen = e.generators[0]
            if not (isinstance(gen.target, ast.Name) and isinstance(e.elt, ast.Name) and e.elt.id == gen.target.id):
                return None
            src = self.member(gen.iter, places, env)
            if src is False:
                return False
            keep: Optional[bool] = True
            for cond in gen.ifs:
                v = self.cond_for_t(cond, gen.target.id)
                if v is False:
                    keep = False
                elif v is None and keep is not False:
                    keep = None
            if keep is False:
                return False
            if src is True and keep is True:
                return True
            return None
        if isinstance(e, ast.IfExp):
            a, b = self.member(e.body, places, env), self.member(e.orelse, places, env)
            return a if a == b else None
        return None

    @staticmethod
    def cond_for_t(cond: ast.AST, var: str) -> Optional[bool]:
        """value of a filter condition for the tracked (not done) task bound to `var`"""
        if isinstance(cond, ast.UnaryOp) and isinstance(cond.op, ast.Not):
            v = Tracker.cond_for_t(cond.operand, var)
            return None if v is None else not v
        if isinstance(cond, ast.Call) and isinstance(cond.func, ast.Attribute) and cond.func.attr in ("done", "cancelled") and isinstance(cond.func.value, ast.Name) \
                and cond.func.value.id == var and not cond.args:
            return False if cond.func.attr == "done" else None
        return None

    # ------------------------------------------------------------------ transfer
    def run(self):
        ctx = self.ctx
        tr = self

        def pack(places: Set[str], env: Dict[str, str], unk: bool):
            return (frozenset(places), frozenset(env.items()), unk)

        def bind(places: Set[str], env: Dict[str, str], name: str, holds_t: bool = False, envval: Optional[str] = None):
            places.discard("v:" + name)
            env.pop(name, None)
            if holds_t:
                places.add("v:" + name)
            if envval:
                env[name] = envval

        def transfer(ai: AbsInt, n: Node, lab: Label, st):
            places, envf, unk = set(st[0]), dict(st[1]), st[2]
            env = envf
            normal = lab[0] in NORMAL_KINDS
            if not normal:
                return [st]
            op = n.op
            if n.inlined is not None and op in ("call", "await") and n.benv is not None:
                # entering a spliced helper: arguments that are not plain variables are bound to the helper's parameters
                call0 = n.ast.value if isinstance(n.ast, ast.Await) else n.ast
                states = [(places, env, unk)]
                for pname, (caller, arg, cenv) in n.benv.items():
                    if isinstance(arg, ast.Name):
                        continue
                    tgt = ast.Name(id=tr.qname(n.inlined, n.benv, pname), ctx=ast.Store())
                    val = tr.qast(caller, cenv, arg)
                    nxt = []
                    for pl, en, uk in states:
                        nxt += tr.assign(n, tgt, val, set(pl), dict(en), uk)
                    states = nxt
                return [pack(pl, en, uk) for pl, en, uk in states]
            if op == "inl_ret":
                return [st]
            a = tr.recnorm(tr.qast(n.func, n.env, n.ast), env)
            if op == "ret_inl" and n.env is not None:
                if n.ast.value is None:
                    return [st]
                rn = f"__ret@{tr.site_no(ctx.an.env_site.get(id(n.env), id(n.env)))}"
                tr.extra_locals.add(rn)
                a = ast.Assign(targets=[ast.Name(id=rn, ctx=ast.Store())], value=a.value)
                op = "assign"
            # ---- loop headers
            if op == "iter" and isinstance(a, (ast.For,)):
                it, tgt = a.iter, a.target
                vis_key = "vis:%d" % a.lineno
                if lab[0] == "F":
                    b0 = it
                    if isinstance(b0, ast.Call) and isinstance(b0.func, ast.Name) and b0.func.id in ("list", "tuple", "sorted", "iter", "set") and len(b0.args) == 1:
                        b0 = b0.args[0]
                    if isinstance(b0, ast.Call) and isinstance(b0.func, ast.Attribute) and b0.func.attr in ("items", "keys", "values", "copy") and not b0.args:
                        b0 = b0.func.value
                    if tr.is_table(b0) and "T" in places and vis_key not in places:
                        return []  # a loop over the whole table cannot end without having visited the group that holds t
                    places.discard(vis_key)
                    return [pack(places, env, unk)]
                base = it
                mode = "keys"
                if isinstance(base, ast.Call) and isinstance(base.func, ast.Name) and base.func.id in ("list", "tuple", "sorted", "iter", "set") and len(base.args) == 1:
                    base = base.args[0]
                if isinstance(base, ast.Call) and isinstance(base.func, ast.Attribute) and base.func.attr in ("items", "keys", "values", "copy") and not base.args:
                    mode = {"copy": "keys"}.get(base.func.attr, base.func.attr)
                    base = base.func.value
                outs = []
                if tr.is_table(base):
                    for which in ("g0", "other"):
                        if which == "g0" and vis_key in places:
                            continue  # each key is visited once
                        p2, e2 = set(places), dict(env)
                        if which == "g0":
                            p2.add(vis_key)
                        if mode == "keys" and isinstance(tgt, ast.Name):
                            bind(p2, e2, tgt.id, envval=which)
                        elif mode == "items" and isinstance(tgt, ast.Tuple) and len(tgt.elts) == 2 and all(isinstance(x, ast.Name) for x in tgt.elts):
                            bind(p2, e2, tgt.elts[0].id, envval=which)
                            bind(p2, e2, tgt.elts[1].id, envval="aT" if which == "g0" else "aO")
                        elif mode == "values" and isinstance(tgt, ast.Name):
                            bind(p2, e2, tgt.id, envval="aT" if which == "g0" else "aO")
                        else:
                            tr.unknown.append((n, "unrecognised loop target over the spawner table"))
                            return [pack(places, env, True)]
                        outs.append(pack(p2, e2, unk))
                    return outs
                c = tr.coll(base, env)
                if c is not None and isinstance(tgt, ast.Name):
                    if c.startswith("L:") and ("k:" + c[2:]) in places or (c.startswith("L:") and tr._is_keylist(c[2:])):
                        # a list of group keys
                        for which in (("g0",) if ("k:" + c[2:]) in places else ()) + ("other",):
                            p2, e2 = set(places), dict(env)
                            bind(p2, e2, tgt.id, envval=which)
                            outs.append(pack(p2, e2, unk))
                        return outs
                    mem = tr.member(base, frozenset(places), env)
                    for holds in ((True, False) if mem else (False,)):
                        p2, e2 = set(places), dict(env)
                        bind(p2, e2, tgt.id, holds_t=holds)
                        outs.append(pack(p2, e2, unk))
                    return outs
                return [st]
            # ---- tests
            if op == "test" and lab[0] in ("T", "F"):
                want = lab[0] == "T"
                v = tr.truth(a, frozenset(places), env)
                if v is not None and v != want:
                    return []
                return [st]
            # ---- statements
            if op == "assign" and isinstance(a, (ast.Assign, ast.AnnAssign)):
                targets = a.targets if isinstance(a, ast.Assign) else [a.target]
                val = a.value
                pairs = []
                for t in targets:
                    if isinstance(t, (ast.Tuple, ast.List)) and isinstance(val, (ast.Tuple, ast.List)) and len(t.elts) == len(val.elts):
                        pairs += list(zip(t.elts, val.elts))
                    elif isinstance(t, (ast.Tuple, ast.List)) and isinstance(val, ast.Name) and (env.get(val.id) or "").startswith("rec:") \
                            and len(env[val.id][4:].split(",")) == len(t.elts) and not any(isinstance(x, ast.Starred) for x in t.elts):
                        # unpacking a pair / record built earlier (possibly by a helper): component by component
                        pairs += [(x, ast.Name(id=f"{val.id}.{fld}", ctx=ast.Load())) for x, fld in zip(t.elts, env[val.id][4:].split(","))]
                    else:
                        pairs.append((t, val))
                states = [(places, env, unk)]
                for t, v in pairs:
                    nxt = []
                    for pl, en, uk in states:
                        nxt += tr.assign(n, t, v, set(pl), dict(en), uk)
                    states = nxt
                return [pack(pl, en, uk) for pl, en, uk in states]
            if op == "aug" and isinstance(a, ast.AugAssign):
                t, v = a.target, a.value
                if isinstance(t, ast.Name) and isinstance(a.op, ast.BitOr):
                    m = tr.member(v, frozenset(places), env)
                    if m is True:
                        places.add("s:" + t.id)
                    elif m is None and tr.touches(v, env):
                        unk = True
                        tr.unknown.append((n, "union with an unknown collection"))
                    return [pack(places, env, unk)]
                if isinstance(t, ast.Name) and isinstance(a.op, ast.Sub):
                    m = tr.member(v, frozenset(places), env)
                    if m is True:
                        places.discard("s:" + t.id)
                    elif m is None and ("s:" + t.id) in places:
                        unk = True
                        tr.unknown.append((n, "difference with an unknown collection"))
                    return [pack(places, env, unk)]
                if tr.touches(t, env) or tr.touches(v, env):
                    unk = True
                    tr.unknown.append((n, "augmented assignment on tracked state"))
                return [pack(places, env, unk)]
            if op == "del":
                for t in a.targets:
                    if isinstance(t, ast.Subscript) and tr.is_table(t.value):
                        k = tr.key_of(t.slice, env)
                        if k == "g0":
                            places.discard("T")
                        elif k is None:
                            unk = True
                            tr.unknown.append((n, "del with an unknown key"))
                return [pack(places, env, unk)]
            if op == "call" and isinstance(a, ast.Call) and isinstance(a.func, ast.Attribute) and not n.comp:
                if isinstance(n.stmt, (ast.Assign, ast.AnnAssign)) and getattr(n.stmt, "value", None) is n.ast:
                    return [st]  # interpreted together with its assignment
                return [pack(pl, en, uk) for pl, en, uk in tr.call(n, a, set(places), dict(env), unk, None)]
            return [st]

        ai = AbsInt(self.ctx.an, transfer)
        exits = ai.run(self.f, (frozenset({"T"}), frozenset(), False))
        return ai, exits

    def _is_keylist(self, name: str) -> bool:
        """a local list that is only ever fed by append(<group key variable>)"""
        for node in self.sc._own_nodes():
            if isinstance(node, ast.Call) and isinstance(node.func, ast.Attribute) and isinstance(node.func.value, ast.Name) and node.func.value.id == name \
                    and node.func.attr == "append" and node.args and isinstance(node.args[0], ast.Name):
                hows = self.sc.defs.get(node.args[0].id, [])
                if any(h[0] == "iter" or (h[0] == "elt" and h[1][0] == "iter" and h[2] == 0) for h in hows):
                    return True
        return False

    def subset(self, a: ast.AST, b: ast.AST) -> bool:
        """is collection a, by construction, a filtered subset of collection b?"""
        if isinstance(a, ast.Name):
            vals = [h[1] for h in self.sc.defs.get(a.id, []) if h[0] == "assign"]
            if len(vals) == 1 and isinstance(vals[0], (ast.SetComp, ast.ListComp)) and len(vals[0].generators) == 1:
                gen = vals[0].generators[0]
                return ast.unparse(gen.iter) == ast.unparse(b) and isinstance(vals[0].elt, ast.Name) and isinstance(gen.target, ast.Name) and vals[0].elt.id == gen.target.id
        return False

    def touches(self, e: ast.AST, env: Dict[str, str]) -> bool:
        for x in ast.walk(e):
            if self.is_table(x):
                return True
            if isinstance(x, ast.Name) and env.get(x.id) in ("aT",):
                return True
        return False

    @staticmethod
    def is_flag(v: ast.AST) -> bool:
        if isinstance(v, ast.Constant) and isinstance(v.value, bool):
            return True
        if isinstance(v, ast.UnaryOp) and isinstance(v.op, ast.Not):
            return True
        if isinstance(v, ast.Compare):
            return True
        if isinstance(v, ast.BoolOp):
            return all(Tracker.is_flag(x) for x in v.values)
        if isinstance(v, ast.Call) and isinstance(v.func, ast.Name) and v.func.id in ("bool", "any", "all", "len", "isinstance"):
            return True
        if isinstance(v, ast.Call) and isinstance(v.func, ast.Attribute) and v.func.attr in ("done", "cancelled", "issubset", "issuperset", "isdisjoint"):
            return True
        return False

    def truth(self, e: ast.AST, places: FrozenSet[str], env: Dict[str, str]) -> Optional[bool]:
        if isinstance(e, ast.Name) and env.get(e.id) in ("b:1", "b:0"):
            return env[e.id] == "b:1"
        if isinstance(e, ast.Constant) and isinstance(e.value, bool):
            return e.value
        if isinstance(e, ast.Call) and isinstance(e.func, ast.Name) and e.func.id == "bool" and len(e.args) == 1:
            return self.truth(e.args[0], places, env)
        if isinstance(e, ast.Call) and isinstance(e.func, ast.Attribute) and e.func.attr in ("issubset", "issuperset") and len(e.args) == 1:
            sub, sup = (e.func.value, e.args[0]) if e.func.attr == "issubset" else (e.args[0], e.func.value)
            if self.member(sub, places, env) is True and self.member(sup, places, env) is False:
                return False  # the tracked task is in the one but not in the other
            return None
        if isinstance(e, ast.Compare) and len(e.ops) == 1 and isinstance(e.ops[0], (ast.LtE, ast.GtE, ast.Lt, ast.Gt, ast.Eq)) \
                and self.coll(e.left, env) is not None and self.coll(e.comparators[0], env) is not None:
            # set comparison A <= B / A >= B / A == B
            a_, b_ = e.left, e.comparators[0]
            ma, mb = self.member(a_, places, env), self.member(b_, places, env)
            if isinstance(e.ops[0], (ast.LtE, ast.Lt, ast.Eq)) and ma is True and mb is False:
                return False
            if isinstance(e.ops[0], (ast.GtE, ast.Gt, ast.Eq)) and mb is True and ma is False:
                return False
            return None
        if isinstance(e, ast.UnaryOp) and isinstance(e.op, ast.Not):
            v = self.truth(e.operand, places, env)
            return None if v is None else not v
        if isinstance(e, ast.Call) and isinstance(e.func, ast.Attribute) and e.func.attr == "done" and isinstance(e.func.value, ast.Name):
            if ("v:" + e.func.value.id) in places:
                return False
            return None
        if isinstance(e, (ast.Name, ast.Subscript, ast.BinOp)):
            m = self.member(e, places, env)
            if m is True:
                return True  # contains t, hence non-empty
            return None
        if isinstance(e, ast.Compare) and len(e.ops) == 1:
            l, r = e.left, e.comparators[0]

            def len_arg(x):
                return x.args[0] if isinstance(x, ast.Call) and isinstance(x.func, ast.Name) and x.func.id == "len" and len(x.args) == 1 else None
            la, ra = len_arg(l), len_arg(r)
            if la is not None and ra is not None:
                # len(A) < len(B) with A a filtered subset of B: true when t is in B but not in A
                if isinstance(e.ops[0], (ast.Lt, ast.NotEq)) and self.subset(la, ra) and self.member(ra, places, env) is True and self.member(la, places, env) is False:
                    return True
                if isinstance(e.ops[0], (ast.Gt, ast.NotEq)) and self.subset(ra, la) and self.member(la, places, env) is True and self.member(ra, places, env) is False:
                    return True
                if isinstance(e.ops[0], (ast.Eq, ast.GtE)) and self.subset(la, ra) and self.member(ra, places, env) is True and self.member(la, places, env) is False:
                    return False
                if isinstance(e.ops[0], (ast.Eq, ast.LtE)) and self.subset(ra, la) and self.member(la, places, env) is True and self.member(ra, places, env) is False:
                    return False
            return None
        if isinstance(e, ast.BoolOp):
            vals = [self.truth(v, places, env) for v in e.values]
            if isinstance(e.op, ast.And):
                if any(v is False for v in vals):
                    return False
                return True if all(v is True for v in vals) else None
            if any(v is True for v in vals):
                return True
            return False if all(v is False for v in vals) else None
        return None

    def record_parts(self, n: Node, v: ast.AST):
        """[(field, value expression)] when v builds a tuple / NamedTuple / dataclass of the package from plain parts"""
        if isinstance(v, (ast.Tuple, ast.List)) and v.elts and not any(isinstance(x, ast.Starred) for x in v.elts):
            return [(str(i), x) for i, x in enumerate(v.elts)]
        if isinstance(v, ast.Call):
            fields = self.ctx.vals.record_fields(n.func, v)
            if fields is None or any(isinstance(x, ast.Starred) for x in v.args) or any(k.arg is None or k.arg not in fields for k in v.keywords) or len(v.args) > len(fields):
                return None
            got = dict(zip(fields, v.args))
            got.update({k.arg: k.value for k in v.keywords})
            if set(got) != set(fields):
                return None
            return [(fld, got[fld]) for fld in fields]
        return None

    def recnorm(self, e: Optional[ast.AST], env: Dict[str, str]) -> Optional[ast.AST]:
        """`rec.field` / `rec[i]` of a local known to hold a record (see assign) read as the pseudo-local `rec.field`"""
        if e is None or not any(v.startswith("rec:") for v in env.values()):
            return e
        tr = self

        class R(ast.NodeTransformer):
            def visit_Attribute(self, x):
                if isinstance(x.value, ast.Name) and (env.get(x.value.id) or "").startswith("rec:") and x.attr in env[x.value.id][4:].split(","):
                    return ast.copy_location(ast.Name(id=f"{x.value.id}.{x.attr}", ctx=x.ctx), x)
                return self.generic_visit(x)

            def visit_Subscript(self, x):
                if isinstance(x.value, ast.Name) and (env.get(x.value.id) or "").startswith("rec:") and isinstance(x.slice, ast.Constant) and isinstance(x.slice.value, int):
                    flds = env[x.value.id][4:].split(",")
                    if 0 <= x.slice.value < len(flds):
                        return ast.copy_location(ast.Name(id=f"{x.value.id}.{flds[x.slice.value]}", ctx=x.ctx), x)
                return self.generic_visit(x)

        import copy
        if not any(isinstance(x, (ast.Attribute, ast.Subscript)) and isinstance(x.value, ast.Name) and (env.get(x.value.id) or "").startswith("rec:") for x in ast.walk(e)):
            return e
        return R().visit(copy.deepcopy(e))

    def assign(self, n: Node, t: ast.AST, v: ast.AST, places: Set[str], env: Dict[str, str], unk: bool):
        """returns list of (places, env, unk)"""
        if isinstance(t, ast.Name):
            parts = self.record_parts(n, v)
            src_rec = isinstance(v, ast.Name) and v.id != t.id and (env.get(v.id) or "").startswith("rec:")
            if parts is not None and len(parts) >= 2 or src_rec:
                # a pair / record: each component is followed as the pseudo-local `<name>.<field>`
                if src_rec:
                    parts = [(fld, ast.Name(id=f"{v.id}.{fld}", ctx=ast.Load())) for fld in env[v.id][4:].split(",")]
                for p in list(places):
                    if p.endswith(":" + t.id) or p.rpartition(":")[2].startswith(t.id + "."):
                        places.discard(p)
                for k_ in [k_ for k_ in env if k_ == t.id or k_.startswith(t.id + ".")]:
                    env.pop(k_)
                states = [(places, env, unk)]
                for fld, val in parts:
                    self.extra_locals.add(f"{t.id}.{fld}")
                    nxt = []
                    for pl, en, uk in states:
                        nxt += self.assign(n, ast.Name(id=f"{t.id}.{fld}", ctx=ast.Store()), val, set(pl), dict(en), uk)
                    states = nxt
                for pl, en, uk in states:
                    en[t.id] = "rec:" + ",".join(fld for fld, _v in parts)
                return states
        # value is a pop() from a tracked collection
        if isinstance(v, ast.Call) and isinstance(v.func, ast.Attribute) and v.func.attr == "pop" and not v.args:
            outs = self.call(n, v, set(places), dict(env), unk, t)
            return outs
        if isinstance(t, ast.Name) and isinstance(v, ast.IfExp):
            # `dest = a if cond else b`: the arm the condition selects for the tracked task (both when it cannot be told)
            tv = self.truth(v.test, frozenset(places), env)
            outs = []
            for arm, want in ((v.body, True), (v.orelse, False)):
                if tv is None or tv == want:
                    outs += self.assign(n, t, arm, set(places), dict(env), unk)
            return outs
        if isinstance(t, ast.Name):
            name = t.id
            if isinstance(v, ast.Name) and v.id != name and (self.coll(v, env) or "").startswith("L:") and env.get(v.id) not in ("g0", "other"):
                # a second name for a local collection (not a copy of it)
                for p in list(places):
                    if p.endswith(":" + name):
                        places.discard(p)
                env[name] = "aL:" + self.coll(v, env)[2:]
                return [(places, env, unk)]
            # key / alias bindings
            if isinstance(v, ast.Subscript) and self.is_table(v.value):
                k = self.key_of(v.slice, env)
                places.discard("v:" + name); places.discard("s:" + name)
                env.pop(name, None)
                if k == "g0":
                    env[name] = "aT"
                elif k == "other":
                    env[name] = "aO"
                else:
                    unk = True
                    self.unknown.append((n, "table look-up with an unknown key"))
                return [(places, env, unk)]
            if isinstance(v, ast.Name) and env.get(v.id) in ("g0", "other", "aT", "aO"):
                places.discard("v:" + name); places.discard("s:" + name)
                env[name] = env[v.id]
                return [(places, env, unk)]
            if isinstance(v, ast.Name) and ("v:" + v.id) in places:
                places.add("v:" + name)
                return [(places, env, unk)]
            # dict literal / comprehension for a local replacement table
            if isinstance(v, ast.Dict) and not v.keys or (isinstance(v, ast.Call) and isinstance(v.func, ast.Name) and v.func.id == "dict" and not v.args and not v.keywords):
                for p in list(places):
                    if p in ("m:" + name, "s:" + name, "k:" + name, "v:" + name):
                        places.discard(p)
                env.pop(name, None)
                return [(places, env, unk)]
            if isinstance(v, ast.DictComp):
                m = self.dictcomp_member(n, v, frozenset(places), env)
                for p in list(places):
                    if p in ("m:" + name, "s:" + name, "v:" + name):
                        places.discard(p)
                env.pop(name, None)
                if m is True:
                    places.add("m:" + name)
                elif m is None:
                    unk = True
                    self.unknown.append((n, "dict comprehension over the spawner table not understood"))
                return [(places, env, unk)]
            m = self.member(v, frozenset(places), env)
            known_coll = isinstance(v, (ast.Set, ast.List, ast.Tuple, ast.SetComp, ast.ListComp, ast.GeneratorExp, ast.BinOp)) or \
                (isinstance(v, ast.Call) and isinstance(v.func, ast.Name) and v.func.id in ("set", "list", "tuple", "frozenset", "sorted"))
            if known_coll or self.coll(v, env) is not None:
                places.discard("s:" + name); places.discard("v:" + name); places.discard("k:" + name); places.discard("m:" + name)
                env.pop(name, None)
                if m is True:
                    places.add("s:" + name)
                elif m is None and self.touches(v, env):
                    unk = True
                    self.unknown.append((n, f"cannot tell whether a running spawner is in `{ast.unparse(v)[:50]}`"))
                return [(places, env, unk)]
            if self.is_table(v) and self.is_table(ast.Name(id=name, ctx=ast.Load())):
                return [(places, env, unk)]  # a local alias of the table itself (recognised wherever it is used)
            # anything else bound to a name we track
            if any(p.endswith(":" + name) for p in places) or name in env:
                for p in list(places):
                    if p.endswith(":" + name):
                        places.discard(p)
                env.pop(name, None)
            if self.is_flag(v):
                # a truth value computed from the collections (sizes, comparisons, done() tests): it cannot hold the task; what is
                # known about it for the tracked task is remembered, otherwise both outcomes are followed where it is tested
                tv = self.truth(v, frozenset(places), env)
                if tv is not None:
                    env[name] = "b:1" if tv else "b:0"
                return [(places, env, unk)]
            if self.touches(v, env):
                unk = True
                self.unknown.append((n, f"value `{ast.unparse(v)[:50]}` derived from the spawner table not understood"))
            return [(places, env, unk)]
        if isinstance(t, ast.Subscript):
            # TABLE[k] = X   or   D[k] = X
            if self.is_table(t.value):
                k = self.key_of(t.slice, env)
                if k == "g0":
                    m = self.member(v, frozenset(places), env)
                    if m is True:
                        places.add("T")
                    elif m is False:
                        places.discard("T")
                    else:
                        unk = True
                        self.unknown.append((n, "cannot tell whether the set stored under the group still holds the running spawner"))
                elif k is None:
                    unk = True
                    self.unknown.append((n, "table store with an unknown key"))
                return [(places, env, unk)]
            if isinstance(t.value, ast.Name) and self.is_local(t.value.id):
                k = self.key_of(t.slice, env)
                if k == "g0":
                    m = self.member(v, frozenset(places), env)
                    if m is True:
                        places.add("m:" + t.value.id)
                    elif m is False:
                        places.discard("m:" + t.value.id)
                    else:
                        unk = True
                        self.unknown.append((n, "cannot tell whether the set stored in the replacement table holds the running spawner"))
                return [(places, env, unk)]
        if isinstance(t, ast.Attribute) and self.is_table(t):
            # rebinding the table itself
            if isinstance(v, ast.Name):
                if ("m:" + v.id) in places:
                    places.add("T")
                else:
                    places.discard("T")
            elif isinstance(v, ast.DictComp):
                m = self.dictcomp_member(n, v, frozenset(places), env)
                if m is True:
                    places.add("T")
                elif m is False:
                    places.discard("T")
                else:
                    unk = True
                    self.unknown.append((n, "dict comprehension over the spawner table not understood"))
            elif isinstance(v, ast.Dict) and not v.keys:
                places.discard("T")
            else:
                unk = True
                self.unknown.append((n, "the spawner table is rebound to something not understood"))
            return [(places, env, unk)]
        return [(places, env, unk)]

    def dictcomp_member(self, n: Node, v: ast.DictComp, places: FrozenSet[str], env: Dict[str, str]) -> Optional[bool]:
        """{k: <set expr over vs> for k, vs in TABLE.items() if <cond>}: is t in result[g0]?"""
        if len(v.generators) != 1:
            return None
        gen = v.generators[0]
        it = gen.iter
        if not (isinstance(it, ast.Call) and isinstance(it.func, ast.Attribute) and it.func.attr == "items" and self.is_table(it.func.value)):
            return None
        if not (isinstance(gen.target, ast.Tuple) and len(gen.target.elts) == 2 and all(isinstance(x, ast.Name) for x in gen.target.elts)):
            return None
        kv, vv = gen.target.elts[0].id, gen.target.elts[1].id
        if not (isinstance(v.key, ast.Name) and v.key.id == kv):
            return None
        env2 = dict(env)
        env2[kv] = "g0"
        env2[vv] = "aT"
        m = self.member(v.value, places, env2)
        for cond in gen.ifs:
            c = self.truth(cond, places, env2)
            if c is None:
                # a filter on the new set's emptiness keeps non-empty sets: if t is in it, it is non-empty
                inner = self.member(cond, places, env2) if isinstance(cond, (ast.SetComp, ast.BinOp, ast.Name)) else None
                if inner is True:
                    continue
                return None
            if c is False:
                return False
        return m

    def call(self, n: Node, a: ast.Call, places: Set[str], env: Dict[str, str], unk: bool, target: Optional[ast.AST]):
        meth = a.func.attr
        recv = a.func.value
        if isinstance(recv, ast.IfExp):
            # `(a if cond else b).add(x)`: the method acts on the arm the condition selects (both when it cannot be told)
            tv = self.truth(recv.test, frozenset(places), env)
            outs = []
            for arm, want in ((recv.body, True), (recv.orelse, False)):
                if tv is None or tv == want:
                    a2 = ast.copy_location(ast.Call(func=ast.copy_location(ast.Attribute(value=arm, attr=meth, ctx=ast.Load()), a.func), args=a.args, keywords=a.keywords), a)
                    outs += self.call(n, a2, set(places), dict(env), unk, target)
            return outs
        c = self.coll(recv, env)
        if meth == "pop" and not a.args and c is not None:
            outs = []
            tname = target.id if isinstance(target, ast.Name) else None
            mem = self.member(recv, frozenset(places), env)
            if mem:
                p2, e2 = set(places), dict(env)
                if c == "T":
                    p2.discard("T")
                elif c.startswith("L:"):
                    p2.discard("s:" + c[2:])
                if tname:
                    p2.discard("v:" + tname)
                    e2.pop(tname, None)
                    p2.add("v:" + tname)
                outs.append((p2, e2, unk))
            # popped some other element (only possible if the collection holds something else; always assumed possible)
            p3, e3 = set(places), dict(env)
            if tname:
                p3.discard("v:" + tname)
                e3.pop(tname, None)
            outs.append((p3, e3, unk))
            return outs
        if meth in ("add", "append") and len(a.args) == 1 and c is not None and c.startswith("L:"):
            x = a.args[0]
            if isinstance(x, ast.Name) and ("v:" + x.id) in places:
                places.add("s:" + c[2:])
            elif isinstance(x, ast.Name) and env.get(x.id) == "g0":
                places.add("k:" + c[2:])
            return [(places, env, unk)]
        if meth in ("add",) and c == "T" and len(a.args) == 1 and isinstance(a.args[0], ast.Name) and ("v:" + a.args[0].id) in places:
            places.add("T")
            return [(places, env, unk)]
        if meth in ("update", "extend") and len(a.args) == 1 and c is not None:
            m = self.member(a.args[0], frozenset(places), env)
            if m is True:
                if c == "T":
                    places.add("T")
                elif c.startswith("L:"):
                    places.add("s:" + c[2:])
            elif m is None and self.touches(a.args[0], env):
                unk = True
                self.unknown.append((n, "update from an unknown collection"))
            return [(places, env, unk)]
        if meth in ("discard", "remove") and len(a.args) == 1 and c is not None:
            x = a.args[0]
            if isinstance(x, ast.Name) and ("v:" + x.id) in places:
                if c == "T":
                    places.discard("T")
                elif c.startswith("L:"):
                    places.discard("s:" + c[2:])
            return [(places, env, unk)]
        if meth == "clear" and c is not None:
            if c == "T":
                places.discard("T")
            elif c.startswith("L:"):
                places.discard("s:" + c[2:])
            return [(places, env, unk)]
        if self.is_table(recv):
            if meth in ("pop",) and a.args:
                k = self.key_of(a.args[0], env)
                if k == "g0":
                    places.discard("T")
                elif k is None:
                    unk = True
                    self.unknown.append((n, "table pop with an unknown key"))
                return [(places, env, unk)]
            if meth in ("clear", "popitem"):
                places.discard("T")
                return [(places, env, unk)]
            if meth in ("items", "keys", "values", "get", "copy", "__len__"):
                return [(places, env, unk)]
            unk = True
            self.unknown.append((n, f"table method {meth} not understood"))
        return [(places, env, unk)]


def r_spawner_kept(ctx: Ctx, rule: str, names=("_pop_ended_meta_tasks",)):
    rep = ctx.rep
    rep.rule(rule, "SPAWNER-KEPT: following one not-yet-done spawner task registered under its group through _pop_ended_meta_tasks "
                   "(abstract interpretation of set/dict membership over the CFG), it is still a member of the running-spawner table at every "
                   "normal exit and is never part of the returned 'ended' set; so cancel_group and gather_and_close can still find it")
    for name in names:
        for f in ctx.pool_funcs(name):
            tr = Tracker(ctx, f)
            ai, exits = tr.run()
            rets = exits.get(("ret", None), set())
            lost = [st for st in rets if "T" not in st[0] and not st[2]]
            unk = [st for st in rets if st[2]]
            rep.analysed.setdefault("elemtrack", {})[f.qual] = {"product_states": ai.product_states, "exit_states": len(rets)}
            if lost:
                rep.ob(rule, "a spawner that is still running stays registered under its group", False, func=f, construct=f"{f.name}: membership of a running spawner at return",
                       detail=f"there is a path on which the tracked task ends up in {sorted(lost[0][0]) or 'no collection at all'} instead of self._group_meta_tasks_running[group]")
            elif unk or not rets:
                why = "; ".join(sorted({f"{n.where()} {m}" for n, m in tr.unknown})[:3]) or "no normal exit reached"
                rep.ob(rule, "a spawner that is still running stays registered under its group", None, func=f, construct=f"{f.name}: membership of a running spawner at return", detail=why)
            else:
                rep.ob(rule, "a spawner that is still running stays registered under its group", True, func=f, construct=f"{f.name}: membership of a running spawner at return",
                       detail=f"{len(rets)} exit state(s), {ai.product_states} product states")
            # the returned set must not contain the running spawner
            for r in ctx.distinct_sites(ctx.nodes(f, lambda n: n.op == "return" and n.func is f and n.ast.value is not None)):
                bad = False
                unknown = False
                for (node_id, st) in ai.visited.get(f.qual, set()):
                    if node_id == r.id:
                        m = tr.member(tr.qast(r.func, r.env, r.ast.value), st[0], dict(st[1]))
                        if m is True:
                            bad = True
                        elif m is None and not isinstance(r.ast.value, ast.Name):
                            unknown = True
                rep.ob(rule, "only finished spawners are handed to flush() as 'ended'", False if bad else (None if unknown else True), node=r)
