"""Shared context, anchors, lemmas and helper selectors for the rules."""
from __future__ import annotations

import ast
import re
from typing import Callable, Dict, Iterable, List, Optional, Sequence, Set, Tuple

from ..absint import AbsInt, runs_callee
from ..cfg import CFG, NORMAL_KINDS, Analyzer, Label, Node, strip_cast
from ..effects import Effect, Effects, container_kind
from ..exc import CANCELLED, EXCEPTION, KEYERROR, BASE
from ..model import AnalysisError, ClassInfo, FuncInfo, Program
from ..queries import (ALL, between, can_follow, count_paths, dominated, normal_only, post_dominated, reach, reach_back)
from ..report import Report
from ..resolve import Callee

POOL_BASE = "BaseTaskPool"
SLOT = "self._enough_room"
RUN, CAN, END = "self._tasks_running", "self._tasks_cancelled", "self._tasks_ended"
REGISTRIES = (RUN, CAN, END)
GROUPS = "self._task_groups"
META_RUN, META_CAN = "self._group_meta_tasks_running", "self._meta_tasks_cancelled"
NUM = "self._num_started"
CREATE_TASK = ("asyncio.tasks.create_task", "asyncio.create_task", "asyncio.ensure_future", "asyncio.tasks.ensure_future",
               "asyncio.tasks.Task", "asyncio.Task")
GATHER = ("asyncio.tasks.gather", "asyncio.gather")


def field_of(path: str) -> str:
    """'self._tasks_running[]' -> '_tasks_running' (first attribute after the root)."""
    m = re.match(r"^[^.]+\.([A-Za-z_0-9]+)", path)
    return m.group(1) if m else ""


class Ctx:
    def __init__(self, prog: Program, rep: Report, tier: str):
        self.prog = prog
        self.an = Analyzer(prog)
        self.eff = Effects(self.an)
        from .values import Values

        self.vals = Values(self.an)
        self._owner: Optional[Dict[int, FuncInfo]] = None
        self.hier = self.an.hier
        self.spliced = self.an.hide_spliced_helpers()
        self.rep = rep
        self.tier = tier
        self._lemmas: Dict[str, Tuple[bool, str]] = {}
        self.base = prog.cls(POOL_BASE)
        self.pool_classes: List[ClassInfo] = prog.subclasses(self.base)
        rep.analysed["modules"] = sorted(m.relpath for m in prog.modules.values())
        rep.analysed["functions"] = len(prog.functions)
        if self.spliced:
            rep.analysed["helpers_spliced_into_callers"] = sorted(self.spliced)
        rep.analysed["classes"] = len(prog.classes)
        rep.analysed["pool_classes"] = [c.qual for c in self.pool_classes]

    # ---------------------------------------------------------------- anchors
    def pool_funcs(self, name: str, required: bool = True) -> List[FuncInfo]:
        """Every definition of `name` in the pool class hierarchy (overrides included)."""
        out = []
        for c in self.pool_classes:
            if name in c.methods:
                out.append(c.methods[name])
        if required and not out:
            raise AnalysisError(f"anchor: no method {name!r} in the {POOL_BASE} hierarchy")
        return out

    def pool_setters(self, name: str) -> List[FuncInfo]:
        return [c.setters[name] for c in self.pool_classes if name in c.setters]

    def in_pool(self, f: FuncInfo, _seen: Optional[Set[str]] = None) -> bool:
        c = self.prog.enclosing_class(f)
        if c is not None and c in self.pool_classes:
            return True
        if c is None and f.qual in self.spliced:
            # a module-level helper that only ever runs spliced into pool methods
            _seen = _seen or set()
            if f.qual in _seen:
                return False
            _seen.add(f.qual)
            cs = self.callers(f)
            return bool(cs) and all(self.in_pool(g, _seen) for g, _ in cs)
        return False

    def pool_functions(self) -> List[FuncInfo]:
        return [f for f in self.prog.all_functions() if self.in_pool(f)]

    def fname(self, f: FuncInfo) -> str:
        """method name, with nested functions attributed to their outermost method"""
        while f.parent is not None:
            f = f.parent
        return f.name + (".setter" if f.kind == "setter" else "")

    # -------------------------------------------------------------- call graph
    def callers(self, f: FuncInfo) -> List[Tuple[FuncInfo, Node]]:
        cg = self.__dict__.get("_callers")
        if cg is None:
            cg = {}
            seen_steps = set()
            for g in self.prog.all_functions():
                for n in self.nodes(g, lambda n: n.op in ("call", "enter", "exit_ctx")):
                    cal = n.callee
                    # a step of a spliced helper is attributed to the helper itself, once
                    if (id(n.ast), n.op) in seen_steps:
                        continue
                    seen_steps.add((id(n.ast), n.op))
                    if cal is not None and cal.kind == "pkg":
                        for t in cal.targets:
                            cg.setdefault(t.qual, []).append((n.func, n))
                    elif cal is not None and cal.kind == "ctor" and cal.cls is not None:
                        init = self.prog.lookup(cal.cls, "__init__")
                        if init is not None:
                            cg.setdefault(init.qual, []).append((n.func, n))
            self._callers = cg
        return cg.get(f.qual, [])

    ANCHOR_NAMES = frozenset({
        "__init__", "pool_size.setter", "pool_size", "lock", "unlock", "_check_start", "_task_cancellation", "_task_ending", "_task_wrapper",
        "_start_task", "_get_running_task", "cancel", "_cancel_group_meta_tasks", "_cancel_and_remove_all_from_group", "cancel_group",
        "cancel_all", "_pop_ended_meta_tasks", "flush", "gather_and_close", "until_closed", "_apply_spawner", "apply",
        "_get_map_end_callback", "_arg_consumer", "_map", "map", "starmap", "doublestarmap", "_start_num", "start", "stop", "stop_all",
        "get_group_ids", "_generate_group_name", "is_full", "num_running", "num_cancelled", "num_ended", "is_locked",
    })

    def hosts(self, f: FuncInfo) -> Set[str]:
        """Names of the anchored functions on whose behalf `f` runs: f itself if anchored, else its
        (transitive) callers up to the first anchored function."""
        out: Set[str] = set()
        seen: Set[str] = set()
        work = [f]
        while work:
            g = work.pop()
            if g.qual in seen:
                continue
            seen.add(g.qual)
            nm = self.fname(g)
            if nm in self.ANCHOR_NAMES and self.in_pool(g):
                out.add(nm)
                continue
            cs = self.callers(g if g.parent is None else g)
            if g.parent is not None:
                # nested function: runs on behalf of whoever the enclosing function serves
                work.append(g.parent)
                continue
            if not cs:
                out.add(nm)
            for c, _ in cs:
                work.append(c)
        return out

    def hosts_of(self, n: Node) -> Set[str]:
        """On whose behalf does this step run?  A step of a helper spliced into a function runs on behalf of that function's
        hosts (this instance of it), not of every caller the helper has."""
        return self.hosts(n.root if n.root is not None and n.root is not n.func else n.func)

    # ----------------------------------------------------------------- effects
    def effects(self, fields: Optional[Sequence[str]] = None, kinds: Optional[Sequence[str]] = None,
                funcs: Optional[Iterable[FuncInfo]] = None, exact_paths: Optional[Sequence[str]] = None) -> List[Effect]:
        out = []
        src = self.eff.all() if funcs is None else [e for f in funcs for e in self.eff.of_func(f)]
        for e in src:
            if kinds is not None and e.kind not in kinds:
                continue
            if exact_paths is not None and e.path not in exact_paths:
                continue
            if fields is not None:
                # any path mentioning the field: self._x, self._x[], self._pool._x ...
                names = re.findall(r"\.([A-Za-z_0-9]+)", e.path)
                if not any(n in fields for n in names):
                    continue
            out.append(e)
        return out

    def nodes(self, f: FuncInfo, pred: Callable[[Node], bool]) -> List[Node]:
        g = self.an.cfg(f)
        live = reach([g.entry])
        return [n for n in g.nodes if n in live and pred(n)]

    def all_nodes(self, pred: Callable[[Node], bool], funcs: Optional[Iterable[FuncInfo]] = None) -> List[Node]:
        out = []
        for f in (funcs if funcs is not None else self.prog.all_functions()):
            out += self.nodes(f, pred)
        return out

    @staticmethod
    def distinct_sites(nodes: Iterable[Node]) -> List[Node]:
        seen, out = set(), []
        for n in nodes:
            k = (n.func.qual, id(n.ast), n.op)
            if k not in seen:
                seen.add(k)
                out.append(n)
        return out

    # ------------------------------------------------------------ call helpers
    @staticmethod
    def is_call_to(n: Node, *names: str) -> bool:
        """step that calls (creates the coroutine of / runs) a package function with one of these names"""
        if n.op == "call" and n.callee is not None and n.callee.kind == "pkg":
            return any(t.name in names for t in n.callee.targets)
        return False

    @staticmethod
    def is_await_of(n: Node, *names: str) -> bool:
        if n.op == "await" and n.awaited is not None and n.awaited.kind == "pkg":
            return any(t.name in names for t in n.awaited.targets)
        return False

    @staticmethod
    def is_ext_call(n: Node, *names: str) -> bool:
        return n.op == "call" and n.callee is not None and n.callee.kind in ("ext", "ctor") and n.callee.name in names

    @staticmethod
    def is_ext_await(n: Node, *names: str) -> bool:
        return n.op == "await" and n.awaited is not None and n.awaited.kind == "ext" and n.awaited.name in names

    def has_effect(self, n: Node, kind: str, field: str) -> bool:
        for e in self.eff.of_node(n):
            if e.kind == kind and field in re.findall(r"\.([A-Za-z_0-9]+)", e.path):
                return True
        return False

    def trans_effects(self, n: Node, _depth: int = 0) -> List[Effect]:
        """Effects of a step including those of the package callees that run at it (transitively)."""
        out = list(self.eff.of_node(n))
        cal = runs_callee(n)
        if cal is not None and _depth < 6:
            for t in cal.targets:
                out += self.func_trans_effects(t, _depth + 1)
        return out

    def func_trans_effects(self, f: FuncInfo, _depth: int = 0) -> List[Effect]:
        key = f.qual
        cache = self.__dict__.setdefault("_fte", {})
        if key in cache:
            return cache[key]
        cache[key] = []
        out: List[Effect] = []
        for n in self.nodes(f, lambda n: True):
            out += self.trans_effects(n, _depth)
        cache[key] = out
        return out

    def path_at(self, n: Node, e: Optional[ast.AST]) -> Optional[str]:
        """Access path of expression e evaluated at step n (in the caller's terms when n lies in a spliced helper)."""
        p = self.eff.paths(n.func).of(e)
        return self.eff.rebase(p, n.func, n.env) if p is not None else None

    def owner(self, node: ast.AST) -> Optional[FuncInfo]:
        """The function whose own body contains this AST node."""
        if self._owner is None:
            self._owner = {}
            from .values import _own_nodes

            for fn in self.prog.functions.values():
                for n in _own_nodes(fn.node):
                    self._owner[id(n)] = fn
        return self._owner.get(id(node))

    def call_arg(self, call: ast.Call, f: FuncInfo, param: str) -> Optional[ast.expr]:
        """The argument expression bound to `param` of callee f (None if defaulted / not determinable).
        `**name` is expanded when name is a never-mutated local dict display with constant keys."""
        syns = self.an.syn_by_call.get(id(call))
        if syns and any(isinstance(x, ast.Starred) for x in call.args) or syns and any(k.arg is None for k in call.keywords) or syns and not isinstance(call.func, ast.Attribute):
            # a call made through a callable value (`spawner(*args, **kwargs)` inside a helper, `factory()` of a partial): read off the
            # stand-in call that spells out callee and arguments; each argument remembers the frame it was written in
            mine = [s_ for s_ in syns if s_ is not call and id(s_) in self.an.syn_callee and f in self.an.syn_callee[id(s_)].targets]
            got = [self.call_arg(s_, f, param) for s_ in (mine or [s_ for s_ in syns if s_ is not call])]
            if got and all(g_ is not None for g_ in got) and len({ast.dump(g_) for g_ in got}) == 1:
                return got[0]
            if got:
                return None
        names = f.param_names()
        a = f.node.args
        pos = [p.arg for p in a.posonlyargs + a.args]
        if f.cls is not None and f.kind not in ("static",) and pos:
            pos = pos[1:]  # bound method: self already supplied
        for i, arg in enumerate(call.args):
            if isinstance(arg, ast.Starred):
                return None
            if i < len(pos) and pos[i] == param:
                return arg
        for kw in call.keywords:
            if kw.arg == param:
                return kw.value
        for kw in call.keywords:
            if kw.arg is None:
                caller = self.owner(call)
                d = self.vals.dict_literal(caller, kw.value) if caller is not None else None
                if d is not None and param in d:
                    return d[param]
        return None

    # ------------------------------------------------------------------ lemmas
    def effective(self, n: Node) -> bool:
        """Is this step a point where control may really pass to another task?"""
        if not n.suspends:
            return False
        ok, _ = self.llock()
        if ok:
            cal = n.callee if n.op in ("enter", "exit_ctx") else n.awaited
            if cal is not None and cal.kind == "pkg" and cal.targets and all(
                t.cls is not None and t.cls.name == "TaskGroupRegister" and t.name in ("__aenter__", "acquire", "__aexit__") for t in cal.targets
            ):
                return False
        return True

    def llock(self) -> Tuple[bool, str]:
        """L-LOCK: the group register's lock is never held across a suspension, hence never contended,
        hence `Lock.acquire()` takes its non-suspending fast path."""
        if "llock" in self._lemmas:
            return self._lemmas["llock"]
        self._lemmas["llock"] = (False, "in progress")  # guard recursion: be pessimistic meanwhile
        res = self._llock()
        self._lemmas["llock"] = res
        return res

    def _llock(self) -> Tuple[bool, str]:
        try:
            reg = self.prog.cls("TaskGroupRegister")
        except AnalysisError as e:
            return False, str(e)
        # (1) the register's own lock wrappers
        aenter, aexit = reg.methods.get("__aenter__"), reg.methods.get("__aexit__")
        if aenter is None or aexit is None:
            return False, "TaskGroupRegister has no __aenter__/__aexit__"
        def lock_only(f: FuncInfo, want: str, depth: int = 0) -> Optional[str]:
            """None when f consists of exactly one lock `want` - itself, or by delegating to another method of the register that does"""
            effs = [e for e in self.eff.of_func(f) if e.container == "Lock"]
            dele = [n for n in self.nodes(f, lambda n: n.op in ("call", "await") and n.inlined is None and n.func is f and id(n.ast) not in self.an.spliced_at) if (n.callee if n.op == "call" else n.awaited) is not None
                    and (n.callee if n.op == "call" else n.awaited).kind == "pkg" and any(t.cls is reg for t in (n.callee if n.op == "call" else n.awaited).targets)]
            dele = [n for n in dele if n.op == "await" or not any(m.op == "await" and m.awaited is n.callee for m in dele)]
            targets = {t.qual: t for n in dele for t in (n.callee if n.op == "call" else n.awaited).targets}
            if not effs and len(targets) == 1 and depth < 3 and len({id(n.ast) for n in dele if n.op == ("await" if want == "acquire" else "call")}) == 1:
                sub = lock_only(next(iter(targets.values())), want, depth + 1)
                if sub is not None:
                    return sub
            elif [e.kind for e in effs] != [want] or targets:
                return f"{f.qual} does not consist of exactly one lock {want}"
            susp = [n for n in self.nodes(f, lambda n: n.suspends)]
            if want == "release" and susp:
                return f"{f.qual} suspends"
            if want == "acquire" and any(not self.is_ext_await(n, "Lock.acquire") and n not in dele for n in susp):
                return f"{f.qual} awaits something other than the lock"
            return None

        for f, want in ((aenter, "acquire"), (aexit, "release")):
            why = lock_only(f, want)
            if why is not None:
                return False, why
        # (2) nobody takes the lock except through async-with (explicit acquire/release wrappers have no caller)
        for f in self.prog.all_functions():
            if f.cls is reg:
                continue
            for n in self.nodes(f, lambda n: n.op in ("call", "await")):
                cal = n.callee if n.op == "call" else n.awaited
                if cal is not None and cal.kind == "pkg" and any(t.cls is reg and t.name in ("acquire", "release") for t in cal.targets):
                    return False, f"explicit register lock use in {f.qual} at {n.where()}"
                if cal is not None and cal.recv_path and cal.recv_path.endswith("._lock"):
                    return False, f"direct access to a register lock in {f.qual} at {n.where()}"
        # (3) every async-with region on a register is free of suspension steps and user code
        regions = 0
        for f in self.prog.all_functions():
            g = self.an.cfg(f)
            enters = [n for n in self.nodes(f, lambda n: n.op == "enter" and n.callee is not None and n.callee.kind == "pkg"
                                            and any(t.cls is reg for t in n.callee.targets))]
            for en in enters:
                regions += 1
                exits = [x for x in g.nodes if x.op == "exit_ctx" and x.ast is en.ast]
                inside = between([en], exits)
                for m in inside:
                    if m.suspends or m.user:
                        return False, f"suspension or user code inside `async with` register region: {m.where()} {m.text(60)}"
        return True, f"{regions} async-with region(s) on a TaskGroupRegister, none contains a suspension step"

    # ----------------------------------------------------------- edge filters
    def feasible(self) -> Callable[[Node, Node, Label], bool]:
        """Edge filter removing the KeyError edges of registry moves that the registry-integrity
        lemma (R13.1 + R03.1, checked as obligations of their own) excludes."""
        infeasible = self.registry_infeasible_edges()

        def ef(a: Node, b: Node, lab: Label) -> bool:
            return (a.func.qual, id(a.ast), lab) not in infeasible

        return ef

    def registry_infeasible_edges(self) -> Set[Tuple[str, int, Label]]:
        if hasattr(self, "_infeasible"):
            return self._infeasible
        out: Set[Tuple[str, int, Label]] = set()
        self._infeasible = out
        for fname, init in (("_task_ending", frozenset({"R", "C"})), ("_task_cancellation", frozenset({"R"}))):
            for f in self.pool_funcs(fname, required=False):
                out |= self._loc_analysis(f, init)
        # propagate to callers: a call step cannot leave by an exception that its callees can no longer raise
        def ef(a: Node, b: Node, lab: Label) -> bool:
            return (a.func.qual, id(a.ast), lab) not in out
        changed = True
        rounds = 0
        while changed and rounds < 6:
            changed = False
            rounds += 1
            for f in self.prog.all_functions():
                g = self.an.cfg(f)
                for n in g.nodes:
                    cal = runs_callee(n)
                    if cal is None:
                        continue
                    for s, lab in n.succ:
                        if lab[0] != "x" or (f.qual, id(n.ast), lab) in out:
                            continue
                        possible = False
                        for t in cal.targets:
                            tg = self.an.cfg(t)
                            rx = tg.raise_exits.get(lab)
                            if rx is not None and rx in reach([tg.entry], ef):
                                possible = True
                        if not possible:
                            out.add((f.qual, id(n.ast), lab))
                            changed = True
        return out

    def _loc_analysis(self, f: FuncInfo, init: frozenset) -> Set[Tuple[str, int, Label]]:
        """Where may the ending task's id be filed?  Returns the KeyError edges that cannot be taken."""
        idp0 = "task_id" if "task_id" in f.param_names() else None
        if idp0 is None:
            return set()
        regs = {"_tasks_running": "R", "_tasks_cancelled": "C", "_tasks_ended": "E"}
        feasible_edges: Set[Tuple[str, int, Label]] = set()
        all_edges: Set[Tuple[str, int, Label]] = set()
        node_by_id: Dict[Tuple[str, int], Node] = {}

        def transfer(ai: AbsInt, n: Node, lab: Label, state):
            idp, st = state
            fn = n.func

            def reg_of(e: Optional[ast.AST]) -> Optional[str]:
                p = self.path_at(n, e)
                if p is None:
                    return None
                return regs.get(field_of(p)) if p.count(".") == 1 and "[" not in p else None

            def is_id(e: ast.AST) -> bool:
                if not isinstance(e, ast.Name):
                    return False
                if n.env is None:
                    return e.id == idp
                # inside a spliced helper: the parameter stands for what the caller passed
                fr, fenv, leaf = self.vals.trace(n.func, n.env, e)
                return fenv is None and fr is n.root and isinstance(leaf, ast.Name) and leaf.id == idp

            return [(idp, r) for r in step(n, lab, st, reg_of, is_id)]

        def enter(ai: AbsInt, n: Node, callee: FuncInfo, state):
            idp, st = state
            call = n.ast.value if isinstance(n.ast, ast.Await) else n.ast
            call = strip_cast(call)
            if not isinstance(call, ast.Call):
                return None
            for pname in callee.param_names():
                a = self.call_arg(call, callee, pname)
                if isinstance(a, ast.Name) and a.id == idp:
                    return (pname, st)
            return None

        def leave(ai: AbsInt, n: Node, callee: FuncInfo, before, after):
            return (before[0], after[1])

        def step(n: Node, lab: Label, st: frozenset, reg_of, is_id):
            node_by_id[(n.func.qual, n.id)] = n
            res = st
            if n.op == "call" and isinstance(n.ast, ast.Call) and isinstance(n.ast.func, ast.Attribute) and n.ast.func.attr == "pop" \
                    and n.ast.args and is_id(n.ast.args[0]):
                r = reg_of(n.ast.func.value)
                if r is not None:
                    if lab == ("x", (KEYERROR, True)):
                        res = st - {r}
                        all_edges.add((n.func.qual, n.id, lab))
                        if not res:
                            return []
                        feasible_edges.add((n.func.qual, n.id, lab))
                        return [res]
                    if lab[0] in NORMAL_KINDS:
                        res = frozenset({r}) if r in st else st
            if n.op == "subscript" and isinstance(n.ast, ast.Subscript) and is_id(n.ast.slice):
                r = reg_of(n.ast.value)
                if r is not None and lab == ("x", (KEYERROR, True)):
                    res = st - {r}
                    all_edges.add((n.func.qual, n.id, lab))
                    if not res:
                        return []
                    feasible_edges.add((n.func.qual, n.id, lab))
                    return [res]
            if n.op == "test" and isinstance(n.ast, ast.Compare) and len(n.ast.ops) == 1 and isinstance(n.ast.ops[0], (ast.In, ast.NotIn)) \
                    and is_id(n.ast.left):
                r = reg_of(n.ast.comparators[0])
                if r is not None and lab[0] in ("T", "F"):
                    positive = (lab[0] == "T") == isinstance(n.ast.ops[0], ast.In)
                    res = (st & {r}) if positive else (st - {r})
                    if not res:
                        return []
            return [res]

        ai = AbsInt(self.an, transfer, enter=enter, leave=leave)
        ai.run(f, (idp0, init))
        out = set()
        for fq, nid, lab in all_edges - feasible_edges:
            out.add((fq, id(node_by_id[(fq, nid)].ast), lab))
        return out


def dominated_by_completion(g: CFG, a: Iterable[Node], b: Node, ef=None) -> bool:
    """Every path entry -> b (all edge kinds) leaves some node of `a` through a normal edge first:
    the step in `a` has *completed* before b is reached."""
    aset = {x for x in a if not x.cond}
    if not aset:
        return False

    def filt(x: Node, y: Node, lab: Label) -> bool:
        if x in aset and lab[0] in NORMAL_KINDS:
            return False
        return ef is None or ef(x, y, lab)

    return b not in reach([g.entry], filt)


def path_text(nodes: Iterable[Node]) -> List[str]:
    return [f"{n.where()} {n.op} {n.text(70)}" for n in nodes]


def _lookup_of(step: Node):
    """(container expression, key expression) of a keyed look-up step: D[k], del D[k], D.pop(k)"""
    a = step.ast
    if step.op == "del" and isinstance(a, ast.Delete) and len(a.targets) == 1 and isinstance(a.targets[0], ast.Subscript):
        return a.targets[0].value, a.targets[0].slice
    if isinstance(a, ast.Subscript):
        return a.value, a.slice
    if isinstance(a, ast.Call) and isinstance(a.func, ast.Attribute) and a.func.attr == "pop" and len(a.args) == 1 and not a.keywords:
        return a.func.value, a.args[0]
    return None


def key_presence_tests(ctx: "Ctx", f: FuncInfo, cpath: str, key_id) -> Dict[Node, str]:
    """test steps of f that establish `key in <container at cpath>` -> the label ('T'/'F') of the edge on which the key is present:
    `k in D` / `k not in D` / `D.get(k) is None` / `is not None` (also through a local or a spliced helper returning the get)."""
    V, E = ctx.vals, ctx.eff

    def same_key(fr, env, e) -> bool:
        kf, _ke, kl = V.trace(fr, env, e)
        return (kf.qual, ast.dump(kl)) == key_id

    def cont(fr, env, e) -> Optional[str]:
        if isinstance(e, ast.Call) and isinstance(e.func, ast.Attribute) and e.func.attr == "keys" and not e.args:
            e = e.func.value
        p_ = E.paths(fr).of(e)
        return E.rebase(p_, fr, env) if p_ else None

    out: Dict[Node, str] = {}
    for t in ctx.nodes(f, lambda n: n.op == "test"):
        e, flip = t.ast, False
        while isinstance(e, ast.UnaryOp) and isinstance(e.op, ast.Not):
            e, flip = e.operand, not flip
        if not (isinstance(e, ast.Compare) and len(e.ops) == 1):
            continue
        op, left, right = e.ops[0], e.left, e.comparators[0]
        present = None
        if isinstance(op, (ast.In, ast.NotIn)) and cont(t.func, t.env, right) == cpath and same_key(t.func, t.env, left):
            present = isinstance(op, ast.In)
        elif isinstance(op, (ast.Is, ast.IsNot)) and isinstance(right, ast.Constant) and right.value is None:
            if isinstance(left, ast.NamedExpr):
                left = left.value
            ls = V.leaves_at(t, left)
            if ls and all(isinstance(v, ast.Call) and isinstance(v.func, ast.Attribute) and v.func.attr == "get" and 1 <= len(v.args) <= 2
                          and (len(v.args) == 1 or (isinstance(v.args[1], ast.Constant) and v.args[1].value is None)) and not v.keywords
                          and cont(fr_, env_, v.func.value) == cpath and same_key(fr_, env_, v.args[0]) for fr_, env_, v in ls):
                present = isinstance(op, ast.IsNot)
        if present is not None:
            out[t] = "T" if present != flip else "F"
    return out


def key_lookup_guarded(ctx: "Ctx", f: FuncInfo, step: Node) -> bool:
    """A keyed look-up step (D[k], del D[k], D.pop(k)) cannot raise KeyError: every path to it runs over the key-is-present edge
    of a test of that very key in that very container, and nothing suspends in between (no one else can remove the key)."""
    lk = _lookup_of(step)
    if lk is None:
        return False
    p_ = ctx.eff.paths(step.func).of(lk[0])
    if not p_:
        return False
    cpath = ctx.eff.rebase(p_, step.func, step.env)
    kf, _ke, kl = ctx.vals.trace(step.func, step.env, lk[1])
    tests = key_presence_tests(ctx, f, cpath, (kf.qual, ast.dump(kl)))
    if not tests:
        return False
    g = ctx.an.cfg(f)
    if step in reach([g.entry], lambda a, b, lab: not (a in tests and lab[0] == tests[a])):
        return False
    after = set()
    for t, lab_ in tests.items():
        after |= reach([b for b, lab in t.succ if lab[0] == lab_])
    mid = after & reach_back([step])
    return not any(n.suspends or (n is not step and any(e.kind in ("remove", "clear", "assign") and e.path == cpath for e in ctx.eff.of_node(n))) for n in mid)


def r_not_found_only_when_absent(ctx: "Ctx", rule: str, f: FuncInfo, table: str, exc_name: str) -> int:
    """Every `raise <exc_name>` of f is reached only over a witness that the key is NOT in the table: the key-is-absent edge of a
    membership / `get(k) is None` test, or the KeyError edge of a keyed look-up in that table.  (A truthiness test of the entry is
    no witness: an existing but empty register is falsy.)  -> number of raise sites judged"""
    g = ctx.an.cfg(f)
    raises = ctx.distinct_sites(ctx.nodes(f, lambda n: n.op == "raise" and n.ast.exc is not None and any(c.endswith("." + exc_name) or c == exc_name for c in ctx.hier.resolve(n.func.module, n.ast.exc))))
    lookups = [n for n in ctx.nodes(f, lambda n: _lookup_of(n) is not None) if (ctx.eff.rebase(ctx.eff.paths(n.func).of(_lookup_of(n)[0]) or "", n.func, n.env) == table)]
    tests: Dict[Node, str] = {}
    for lk in ctx.distinct_sites(lookups):
        kf, _ke, kl = ctx.vals.trace(lk.func, lk.env, _lookup_of(lk)[1])
        tests.update(key_presence_tests(ctx, f, table, (kf.qual, ast.dump(kl))))
    # tests of keys that are never looked up with [] / pop (the `.get` form): every test of the table counts for its own key
    for t in ctx.nodes(f, lambda n: n.op == "test"):
        for x in ast.walk(t.ast):
            key = None
            if isinstance(x, ast.Compare) and len(x.ops) == 1 and isinstance(x.ops[0], (ast.In, ast.NotIn)):
                key = x.left
            elif isinstance(x, ast.Compare) and len(x.ops) == 1 and isinstance(x.ops[0], (ast.Is, ast.IsNot)):
                for fr_, env_, v in ctx.vals.leaves_at(t, x.left.value if isinstance(x.left, ast.NamedExpr) else x.left):
                    if isinstance(v, ast.Call) and isinstance(v.func, ast.Attribute) and v.func.attr == "get" and v.args:
                        kf, _ke, kl = ctx.vals.trace(fr_, env_, v.args[0])
                        tests.update(key_presence_tests(ctx, f, table, (kf.qual, ast.dump(kl))))
            if key is not None:
                kf, _ke, kl = ctx.vals.trace(t.func, t.env, key)
                tests.update(key_presence_tests(ctx, f, table, (kf.qual, ast.dump(kl))))
    look_ids = {id(n) for n in lookups}

    def no_witness(a: Node, b: Node, lab) -> bool:
        if a in tests and lab[0] in ("T", "F") and lab[0] != tests[a]:
            return False
        if lab[0] == "x" and lab[1] and lab[1][0] == KEYERROR and id(a) in look_ids:
            return False
        return True

    unwitnessed = reach([g.entry], no_witness)
    for r in raises:
        copies = ctx.nodes(f, lambda n: n.ast is r.ast and n.op == "raise")
        bad = [c for c in copies if c in unwitnessed]
        ctx.rep.ob(rule, f"{exc_name} is raised only when the name is not in the table (an existing entry that is merely empty/falsy is found)", not bad, node=r,
                   detail="" if not bad else "the raise is reachable without a membership test / `get(...) is None` test / KeyError of the look-up having shown the name absent")
    return len(raises)


def surplus_forwarded_only(ctx: "Ctx", t: FuncInfo, benv, names: Set[str], target_names: Sequence[str]) -> bool:
    """The *args / **kwargs parameters `names` of helper t (spliced in with the binding benv) are only ever forwarded, starred, to a
    call through a callable parameter that this call site binds to one of the package functions `target_names`."""
    tsc = ctx.an.scope(t)
    tpar: Dict[int, ast.AST] = {}
    for node in tsc._own_nodes():
        for ch in ast.iter_child_nodes(node):
            tpar[id(ch)] = node
    for node in tsc._own_nodes():
        if isinstance(node, ast.Name) and node.id in names and isinstance(node.ctx, ast.Load):
            par = tpar.get(id(node))
            c2 = tpar.get(id(par)) if isinstance(par, (ast.Starred, ast.keyword)) else None
            if not (isinstance(c2, ast.Call) and (isinstance(par, ast.Starred) or par.arg is None) and isinstance(c2.func, ast.Name) and c2.func.id in benv
                    and not tsc.defs.get(c2.func.id)):
                return False
            fr_, _env, ref = ctx.vals.trace(benv[c2.func.id][0], benv[c2.func.id][2], benv[c2.func.id][1])
            pc = ctx.an.scope(fr_).callee(ast.copy_location(ast.Call(func=ref, args=[], keywords=[]), ref))
            if not (pc.kind == "pkg" and pc.targets and all(x.name in target_names for x in pc.targets)):
                return False
    return not any(n in tsc.defs for n in names)


_PLAIN_DECORATORS = {"property", "staticmethod", "classmethod", "overload", "abstractmethod", "final", "override", "wraps", "contextmanager", "asynccontextmanager",
                     "abstractproperty", "no_type_check", "deprecated", "dataclass"}
_MEMO_DECORATORS = {"lru_cache", "cache", "cached_property", "singledispatch", "singledispatchmethod"}


_MUTATORS = ("append", "add", "update", "setdefault", "pop", "popitem", "clear", "remove", "discard", "extend", "insert", "__setitem__", "__delitem__", "appendleft")
_CONTAINERS = ("dict", "list", "set", "defaultdict", "OrderedDict", "deque", "Counter", "WeakValueDictionary", "WeakKeyDictionary", "WeakSet", "ChainMap")


# class-level containers that are process-wide registries by design (confirmed by reading), one line of reason each
_CLASS_REGISTRIES = {
    ("BaseTaskPool", "_pools"),  # every pool of the process, appended to by the classmethod _add_pool: gives a pool its index for its default name
}


def _class_container(ctx: "Ctx", cls, name: str):
    """(class, value) when `name` is bound in the body of cls or of a package base class to a freshly built mutable container"""
    for k in ctx.prog.mro(cls):
        for st in k.node.body:
            val = None
            if isinstance(st, ast.Assign) and any(isinstance(t, ast.Name) and t.id == name for t in st.targets):
                val = st.value
            elif isinstance(st, ast.AnnAssign) and isinstance(st.target, ast.Name) and st.target.id == name:
                val = st.value
                if val is None:
                    continue
            else:
                continue
            if isinstance(val, (ast.Dict, ast.List, ast.Set, ast.ListComp, ast.SetComp, ast.DictComp)) or (
                    isinstance(val, ast.Call) and isinstance(val.func, (ast.Name, ast.Attribute))
                    and (val.func.id if isinstance(val.func, ast.Name) else val.func.attr) in _CONTAINERS):
                return k, val
            return None, None
    return None, None


def _instance_bound(ctx: "Ctx", cls, name: str) -> bool:
    """is `self.<name>` assigned by a method of the class (or of a package base): the instance then has its own object"""
    for k in ctx.prog.mro(cls):
        for m in k.methods.values():
            ps = m.param_names()
            if not ps:
                continue
            for x in ast.walk(m.node):
                if isinstance(x, ast.Attribute) and isinstance(x.ctx, ast.Store) and x.attr == name and isinstance(x.value, ast.Name) and x.value.id == ps[0]:
                    return True
    return False


def r_module_state(ctx: "Ctx", rule: str = "R00.M") -> None:
    """NO-HIDDEN-STATE: the functions this check analysed keep no state in module-level containers or globals.  The rules read a
    function as depending on its arguments and on the instance it belongs to; a module-level cache (say, answers remembered per
    `id(obj)`) survives the objects it was filled for, is shared by every pool and session of the process, and makes the function's
    answer depend on what ran before."""
    rep = ctx.rep
    rep.rule(rule, "NO-HIDDEN-STATE: no analysed function inserts into / removes from / re-binds a module-level name of its module (logging "
                   "objects aside) or declares a global")
    quals = set(ctx.an._cfgs) | {t for _r, t, _c in ctx.an.inlined_calls}
    n = 0
    for q in sorted(quals):
        fn = ctx.prog.functions.get(q)
        if fn is None:
            continue
        n += 1
        sc2 = ctx.an.scope(fn)

        def module_name(x: ast.AST) -> Optional[str]:
            while isinstance(x, (ast.Attribute, ast.Subscript)):
                x = x.value
            if isinstance(x, ast.Name) and x.id in fn.module.assigns and x.id not in sc2.defs and x.id not in sc2.params and x.id != "log":
                return x.id
            return None

        hits: List[Tuple[ast.AST, str]] = []
        for node in sc2._own_nodes():
            if isinstance(node, ast.Global):
                hits.append((node, "global " + ", ".join(node.names)))
            elif isinstance(node, (ast.Subscript, ast.Attribute)) and isinstance(node.ctx, (ast.Store, ast.Del)) and module_name(node) is not None:
                hits.append((node, f"store into module-level `{module_name(node)}`"))
            elif isinstance(node, ast.Call) and isinstance(node.func, ast.Attribute) and node.func.attr in _MUTATORS and module_name(node.func.value) is not None:
                mv = fn.module.assigns.get(module_name(node.func.value))
                if isinstance(mv, (ast.Dict, ast.List, ast.Set)) or (isinstance(mv, ast.Call) and isinstance(mv.func, (ast.Name, ast.Attribute))
                                                                      and (mv.func.id if isinstance(mv.func, ast.Name) else mv.func.attr) in _CONTAINERS):
                    hits.append((node, f"`{node.func.attr}` on module-level `{module_name(node.func.value)}`"))
        for node, how in hits:
            rep.ob(rule, "an analysed function keeps no state at module level", False, func=fn, construct=node,
                   detail=f"{how}: shared by every pool / session / call in the process and never tied to the life of the objects it describes")
        # ... nor in a container created once in a class body: `self.x.add(...)` on `x: set = set()` of the class writes into the one
        # object every instance of the class (every server, pool, session of the process) shares
        if fn.cls is not None:
            first = fn.param_names()[0] if fn.param_names() else None
            for node in sc2._own_nodes():
                tgt = None
                if isinstance(node, ast.Call) and isinstance(node.func, ast.Attribute) and node.func.attr in _MUTATORS:
                    tgt, how = node.func.value, f"`{node.func.attr}`"
                elif isinstance(node, ast.Subscript) and isinstance(node.ctx, (ast.Store, ast.Del)):
                    tgt, how = node.value, "item store"
                elif isinstance(node, ast.AugAssign) and isinstance(node.target, ast.Attribute):
                    tgt, how = node.target, "augmented assignment"
                if not (isinstance(tgt, ast.Attribute) and isinstance(tgt.value, ast.Name)):
                    continue
                base = tgt.value.id
                if base not in (first, "cls", fn.cls.name) and base not in {k.name for k in ctx.prog.mro(fn.cls)}:
                    continue
                owner, val = _class_container(ctx, fn.cls, tgt.attr)
                if owner is None or (owner.name, tgt.attr) in _CLASS_REGISTRIES:
                    continue
                if base == first and first != "cls" and _instance_bound(ctx, fn.cls, tgt.attr):
                    continue
                rep.ob(rule, "an analysed method keeps no state in a container created in a class body", False, func=fn, construct=node,
                       detail=f"{how} on `{tgt.attr}`, which is `{ast.unparse(val)[:40]}` evaluated once in the body of class {owner.name}: the one object is shared by "
                              "every instance of the class in the process")
    rep.ob(rule, "analysed functions scanned for module-level state", True, construct=f"{n} functions")


def r_decorated(ctx: "Ctx", rule: str = "R00.D") -> None:
    """WHAT-RUNS: every function this check analysed is what its callers actually run.  A decorator that replaces the function by a
    wrapper is accepted only when the wrapper is transparent: it runs the function exactly once on every path, with the caller's
    arguments, (awaited iff it is a coroutine function) and hands back its result.  Anything else - a wrapper that may skip, repeat,
    share or defer the call, a memoising decorator - means the rules looked at code that is not what runs."""
    rep = ctx.rep
    rep.rule(rule, "WHAT-RUNS: no analysed function is replaced by a non-transparent decorator wrapper (the verdicts of the other rules are about "
                   "the undecorated bodies)")
    quals = set(ctx.an._cfgs) | {t for _r, t, _c in ctx.an.inlined_calls}
    n = 0
    for q in sorted(quals):
        f = ctx.prog.functions.get(q)
        if f is None or not getattr(f.node, "decorator_list", None):
            continue
        for d in f.node.decorator_list:
            core = d.func if isinstance(d, ast.Call) else d
            name = core.attr if isinstance(core, ast.Attribute) else (core.id if isinstance(core, ast.Name) else "")
            if name in _PLAIN_DECORATORS or (isinstance(core, ast.Attribute) and core.attr in ("setter", "getter", "deleter")):
                continue
            n += 1
            if name in _MEMO_DECORATORS:
                rep.ob(rule, "an analysed function is not memoised / re-dispatched by a decorator", False, func=f, construct=f"@{ast.unparse(d)}",
                       detail="calls with equal arguments share one execution: the body the rules analysed runs at most once per argument tuple")
                continue
            dec = None
            if isinstance(core, ast.Name):
                try:
                    qn = ctx.prog.resolve_name_in_module(f.module, core)
                except Exception:
                    qn = None
                dec = next((x for x in ctx.prog.all_functions() if x.name == core.id and x.parent is None and x.cls is None
                            and (qn is None or qn.endswith("." + x.qual.rpartition(".")[2]))), None)
            why = _transparent_wrapper(ctx, dec, f) if dec is not None else "the decorator is not a function of the package and not known to be transparent"
            rep.ob(rule, "a decorator on an analysed function only wraps it transparently (runs it exactly once with the caller's arguments and returns its result)",
                   why is None, func=f, construct=f"@{ast.unparse(d)}", detail=why or "")
    rep.analysed.setdefault("decorators", {})["checked"] = n
    # the same question for the other ways of swapping what runs: re-binding a method, attribute hooks, class decorators / metaclasses
    stores: Dict[str, List[Tuple[str, ast.AST]]] = {}
    for m in ctx.prog.modules.values():
        for x in ast.walk(m.tree):
            if isinstance(x, ast.Attribute) and not isinstance(x.ctx, ast.Load):
                stores.setdefault(x.attr, []).append((m.relpath, x))
    # stores of the form `self.<attr> = ...` belong to the class of the method they are written in
    self_store_class: Dict[int, object] = {}
    for g_ in ctx.prog.every_function():
        c_ = g_.cls if g_.cls is not None else (g_.parent.cls if getattr(g_, "parent", None) is not None else None)
        sn_ = ctx.an.scope(g_).selfname
        if c_ is None or sn_ is None:
            continue
        for x in ctx.an.scope(g_)._own_nodes():
            if isinstance(x, ast.Attribute) and not isinstance(x.ctx, ast.Load) and isinstance(x.value, ast.Name) and x.value.id == sn_:
                self_store_class[id(x)] = c_
    classes = {}
    for q in sorted(quals):
        f = ctx.prog.functions.get(q)
        if f is None or f.cls is None:
            continue
        classes[f.cls.qual] = f.cls
        if f.kind in ("property", "setter"):
            continue
        for rel, x in stores.get(f.name, []):
            oc = self_store_class.get(id(x))
            if oc is not None and not _related(ctx, oc, f.cls):
                continue  # `self.<name> = ...` inside a class that has nothing to do with this method's class: another object's attribute
            rep.ob(rule, "no analysed method is re-bound after its definition (on the class or on an instance)", False, func=f,
                   construct=f"{rel}:{x.lineno}: {ast.unparse(x)} = ...", detail=f"`{f.name}` is assigned as an attribute: callers may run something else than the method analysed")
    for c in classes.values():
        hooks = [h for h in ("__getattr__", "__getattribute__", "__setattr__") if h in c.methods]
        rep.ob(rule, "classes of analysed methods define no attribute hooks", not hooks, construct=f"class {c.name}", detail=", ".join(hooks))
        bad_dec = [ast.unparse(d) for d in c.node.decorator_list
                   if (d.func if isinstance(d, ast.Call) else d) is not None
                   and ((lambda core: core.attr if isinstance(core, ast.Attribute) else getattr(core, "id", ""))(d.func if isinstance(d, ast.Call) else d)) not in ("dataclass", "final", "total_ordering", "runtime_checkable")]
        bad_meta = [ast.unparse(k.value) for k in c.node.keywords if k.arg == "metaclass" and ast.unparse(k.value).rpartition(".")[2] not in ("ABCMeta",)]
        rep.ob(rule, "classes of analysed methods are not rewritten by a class decorator or a custom metaclass", not bad_dec and not bad_meta, construct=f"class {c.name}",
               detail=", ".join(bad_dec + bad_meta))


def _related(ctx: "Ctx", a, b) -> bool:
    """a and b are the same class or one is an ancestor of the other (within the package)"""
    def ancestors(c):
        out, todo = set(), [c]
        while todo:
            k = todo.pop()
            if k.qual in out:
                continue
            out.add(k.qual)
            todo += [ctx.prog.classes[x] for x in k.bases if x in ctx.prog.classes]
        return out
    return a.qual in ancestors(b) or b.qual in ancestors(a)


def _transparent_wrapper(ctx: "Ctx", dec: FuncInfo, f: FuncInfo) -> Optional[str]:
    """None when decorator `dec` returns a wrapper that runs the decorated function exactly once, forwarding the caller's arguments,
    and returns its value; else the reason it is not transparent"""
    params = [p for p in dec.param_names()]
    if len(params) != 1:
        return "decorator factories / multi-parameter decorators are not understood"
    mparam = params[0]
    inner = [x for x in dec.node.body if isinstance(x, (ast.FunctionDef, ast.AsyncFunctionDef))]
    if len(inner) != 1:
        return "the decorator does not define exactly one wrapper function"
    w = inner[0]
    rets = [r for r in ast.walk(dec.node) if isinstance(r, ast.Return) and not any(r in ast.walk(i) for i in inner)]
    if len(rets) != 1 or not (isinstance(rets[0].value, ast.Name) and rets[0].value.id == w.name):
        return "the decorator does not simply return its wrapper"
    if isinstance(w, ast.AsyncFunctionDef) != f.is_async:
        return "the wrapper is not the same kind of function (coroutine function vs plain function) as what it wraps"
    wf = next((x for x in ctx.prog.all_functions() if x.node is w), None)
    if wf is None:
        return "the wrapper function was not found in the program model"
    calls = [c for c in ast.walk(w) if isinstance(c, ast.Call) and isinstance(c.func, ast.Name) and c.func.id == mparam]
    in_decorators = {id(x) for d_ in w.decorator_list for x in ast.walk(d_)}  # (`@wraps(method)` on the wrapper is fine)
    meta_reads = {id(x.value) for x in ast.walk(w) if isinstance(x, ast.Attribute) and isinstance(x.ctx, ast.Load) and x.attr.startswith("__")}  # method.__name__
    other_uses = [x for x in ast.walk(w) if isinstance(x, ast.Name) and x.id == mparam and not any(x is c.func for c in calls) and id(x) not in in_decorators
                  and id(x) not in meta_reads]
    if len(calls) != 1:
        return f"the wrapper calls the wrapped function at {len(calls)} places (expected exactly one)"
    if other_uses:
        return "the wrapper hands the wrapped function on instead of just calling it"
    call = calls[0]
    a = w.args
    pos = [p.arg for p in a.posonlyargs + a.args]
    fwd_ok = [ast.unparse(x) for x in call.args] == pos + (["*" + a.vararg.arg] if a.vararg else []) \
        and [(k.arg, ast.unparse(k.value)) for k in call.keywords] == [(p.arg, p.arg) for p in a.kwonlyargs] + ([(None, a.kwarg.arg)] if a.kwarg else [])
    if not fwd_ok:
        return "the wrapper does not forward exactly its own arguments to the wrapped function"
    g = ctx.an.cfg(wf)
    cn = [n for n in g.nodes if n.op == "call" and n.ast is call]
    res = count_paths(ctx.an, wf, lambda n: n in cn, interproc=False)
    normal = res.get(("ret", None), frozenset())
    if normal != frozenset({1}):
        return f"on some path the wrapper runs the wrapped function {sorted(normal)} times before returning (expected exactly once)"
    # the value returned is the (awaited) call
    for r in [r for r in ast.walk(w) if isinstance(r, ast.Return)]:
        v = r.value
        leaves = ctx.vals.leaves(wf, None, v) if v is not None else []
        ok = bool(leaves) and all((isinstance(x, ast.Await) and strip_cast(x.value) is call) if f.is_async else (x is call) for _f, _e, x in leaves)
        if not ok:
            return "the wrapper does not return the result of the wrapped function"
    if f.is_async and not any(isinstance(x, ast.Await) and strip_cast(x.value) is call for x in ast.walk(w)):
        return "the wrapper does not await the wrapped coroutine function directly (the call is deferred / shared)"
    return None
