"""Thorough tier: independent resolver cross-check with mypy (the repository's own dev dependency), used as a library.

Every receiver type the light inference of tpsa.resolve assigned to an attribute call is compared with the type mypy exports for
the same source span.  A disagreement is an analysis error (exit 2), never a verdict.
"""
from __future__ import annotations

import ast
import os
import re
from typing import Dict, List, Optional, Tuple

from .cfg import Analyzer
from .model import Program
from .resolve import _HEAD_ALIASES

_cache: Dict[str, Optional[Dict[Tuple[int, int, int, int, str], str]]] = {}


def mypy_member_types(repo: str) -> Optional[Dict[Tuple[str, int, int, int, int], str]]:
    """(file, line, col, end_line, end_col) of every `recv.attr` expression -> str(type of recv); None if mypy is unavailable"""
    if repo in _cache:
        return _cache[repo]
    try:
        from mypy import build
        from mypy.find_sources import create_source_list
        from mypy.nodes import MemberExpr
        from mypy.options import Options
    except Exception:
        _cache[repo] = None
        return None
    cwd = os.getcwd()
    out: Dict[Tuple[str, int, int, int, int], str] = {}
    try:
        os.chdir(repo)
        opts = Options()
        opts.preserve_asts = True
        opts.export_types = True
        opts.incremental = False
        opts.cache_dir = os.devnull
        opts.mypy_path = ["src"]
        try:
            opts.enable_incomplete_feature = ["TypeVarTuple", "Unpack"]
        except Exception:
            pass
        srcs = create_source_list(["src/asyncio_taskpool"], opts)
        res = build.build(srcs, opts)
        files = {}
        for mod, tree in res.graph.items():
            if tree.tree is not None and tree.path and "asyncio_taskpool" in tree.path:
                files[id(tree.tree)] = tree.path
        # map expressions to their file: walk each tree
        from mypy.traverser import TraverserVisitor  # noqa: F401  (not subclassed; see design notes)
        for mod, st in res.graph.items():
            if st.tree is None or not st.path or "asyncio_taskpool" not in st.path:
                continue
            seen = set()
            stack = [st.tree]
            while stack:
                node = stack.pop()
                if id(node) in seen:
                    continue
                seen.add(id(node))
                if isinstance(node, MemberExpr):
                    t = res.types.get(node.expr)
                    if t is not None and node.end_line is not None:
                        out[(os.path.relpath(st.path, repo), node.line, node.column, node.end_line, node.end_column)] = str(t)
                for name in dir(type(node)):
                    if name.startswith("__"):
                        continue
                    try:
                        v = getattr(node, name)
                    except Exception:
                        continue
                    if isinstance(v, (list, tuple)):
                        for x in v:
                            if hasattr(x, "accept") and hasattr(x, "line"):
                                stack.append(x)
                            elif isinstance(x, (list, tuple)):
                                for y in x:
                                    if hasattr(y, "accept") and hasattr(y, "line"):
                                        stack.append(y)
                    elif hasattr(v, "accept") and hasattr(v, "line") and not callable(v):
                        stack.append(v)
    except Exception as e:  # pragma: no cover
        _cache[repo] = None
        os.chdir(cwd)
        return None
    finally:
        os.chdir(cwd)
    _cache[repo] = out
    return out


def norm_mypy(t: str) -> str:
    t = re.sub(r"^Union\[(.*), None\]$", r"\1", t)
    t = re.sub(r"^(.*) \| None$", r"\1", t)
    t = t.split("[", 1)[0]
    t = t.rstrip("?*")
    if t.startswith("asyncio_taskpool."):
        return t[len("asyncio_taskpool."):]
    if t.startswith("Type"):
        return "type"
    return _HEAD_ALIASES.get(t, t)


def cross_check(prog: Program, an: Analyzer, modules: Optional[List[str]] = None):
    types = mypy_member_types(prog.repo)
    if types is None:
        return None
    agree = disagree = compared = missing = 0
    problems: List[str] = []
    samples: List[str] = []
    for f in prog.all_functions():
        if modules is not None and f.module.name not in modules:
            continue
        sc = an.scope(f)
        for node in sc._own_nodes():
            if not (isinstance(node, ast.Call) and isinstance(node.func, ast.Attribute)):
                continue
            fn = node.func
            mine = sc.ty(fn.value)
            if mine is None or mine.head in ("Any", "UserValue", "None"):
                continue
            key = (f.module.relpath, fn.lineno, fn.col_offset, fn.end_lineno, fn.end_col_offset)
            theirs = types.get(key)
            if theirs is None:
                missing += 1
                continue
            compared += 1
            th = norm_mypy(theirs)
            mh = mine.head
            if re.fullmatch(r"(internals\.helpers\.|pool\.)?_[A-Z][A-Za-z]*", mh) or "Unpack" in str(mine):
                compared -= 1
                continue  # a type variable / unpacked TypedDict: not a receiver type the rules use
            ok = th == mh or (mh == "type" and theirs.startswith(("Type", "def", "type"))) or (th in ("Any",)) or \
                (mh in prog.classes and th in prog.classes and (prog.classes[mh] in prog.mro(prog.classes[th]) or prog.classes[th] in prog.mro(prog.classes[mh]))) or \
                (mh == "Server" and th.endswith("AbstractServer")) or (mh == "IO" and th.endswith("IO")) or (mh == "tuple" and th in ("tuple", "builtins.tuple", "Tuple")) or \
                (mh == "Iterable" and th in ("typing.Iterable", "Iterable", "typing.Iterator", "dict_values", "dict_keys", "dict_items", "_collections_abc.dict_values", "_collections_abc.dict_keys", "_collections_abc.dict_items"))
            if ok:
                agree += 1
                if len(samples) < 6:
                    samples.append(f"{f.module.relpath}:{fn.lineno} {ast.unparse(fn)[:50]} : {mine} == {theirs}")
            else:
                disagree += 1
                problems.append(f"{f.module.relpath}:{fn.lineno} {ast.unparse(fn.value)[:40]}: tpsa says {mine}, mypy says {theirs}")
    return {"compared": compared, "agree": agree, "disagree": disagree, "not_in_mypy_export": missing, "problems": problems[:10], "samples": samples}
