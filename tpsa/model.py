"""E1 — program model: modules, imports, classes, functions, fields.

Everything is rebuilt from the working tree of the repository on every run.
Nothing of the analysed package is imported or executed.
"""
from __future__ import annotations

import ast
import os
from dataclasses import dataclass, field
from typing import Dict, Iterator, List, Optional, Tuple

PKG = "asyncio_taskpool"


class AnalysisError(Exception):
    """The analysis cannot give a verdict (exit 2), never a violation."""


@dataclass
class Module:
    name: str  # dotted, relative to the package: "pool", "control.session"
    path: str
    relpath: str
    source: str
    tree: ast.Module
    future_annotations: bool = False
    imports: Dict[str, str] = field(default_factory=dict)  # alias -> qualified
    tc_only: set = field(default_factory=set)  # aliases imported under TYPE_CHECKING
    assigns: Dict[str, ast.expr] = field(default_factory=dict)  # module-level NAME = expr


@dataclass
class FuncInfo:
    qual: str  # "pool.BaseTaskPool._start_task" / "internals.helpers.star_function"
    name: str
    module: Module
    node: ast.AST  # FunctionDef | AsyncFunctionDef
    cls: Optional["ClassInfo"] = None
    kind: str = "function"  # function|method|static|class|property|setter|nested
    parent: Optional["FuncInfo"] = None  # for nested functions

    @property
    def is_async(self) -> bool:
        return isinstance(self.node, ast.AsyncFunctionDef)

    @property
    def short(self) -> str:
        q = self.qual.split(".")
        # drop module path
        mod = self.module.name
        return self.qual[len(mod) + 1:]

    @property
    def loc(self) -> str:
        return f"{self.module.relpath}:{self.node.lineno}"

    def params(self) -> List[ast.arg]:
        a = self.node.args
        out = list(a.posonlyargs) + list(a.args)
        if a.vararg:
            out.append(a.vararg)
        out += list(a.kwonlyargs)
        if a.kwarg:
            out.append(a.kwarg)
        return out

    def param_names(self) -> List[str]:
        return [p.arg for p in self.params()]

    def param_default(self, name: str) -> Optional[ast.expr]:
        a = self.node.args
        pos = list(a.posonlyargs) + list(a.args)
        nd = len(a.defaults)
        for i, p in enumerate(pos):
            if p.arg == name:
                j = i - (len(pos) - nd)
                return a.defaults[j] if j >= 0 else None
        for p, d in zip(a.kwonlyargs, a.kw_defaults):
            if p.arg == name:
                return d
        return None

    def param_annotation(self, name: str) -> Optional[ast.expr]:
        for p in self.params():
            if p.arg == name:
                return p.annotation
        return None


@dataclass
class ClassInfo:
    name: str
    qual: str  # "pool.BaseTaskPool"
    module: Module
    node: ast.ClassDef
    base_exprs: List[ast.expr] = field(default_factory=list)
    bases: List[str] = field(default_factory=list)  # resolved qualified names (package or external)
    methods: Dict[str, FuncInfo] = field(default_factory=dict)  # name -> FuncInfo (getter under its name)
    setters: Dict[str, FuncInfo] = field(default_factory=dict)
    class_attrs: Dict[str, Tuple[Optional[ast.expr], Optional[ast.expr]]] = field(default_factory=dict)  # name -> (annotation, value)
    fields: Dict[str, Tuple[Optional[ast.expr], Optional[ast.expr], FuncInfo]] = field(default_factory=dict)  # self.x -> (ann, first value, where)


def _is_type_checking_test(test: ast.expr) -> bool:
    return (isinstance(test, ast.Name) and test.id == "TYPE_CHECKING") or (
        isinstance(test, ast.Attribute) and test.attr == "TYPE_CHECKING"
    )


def _decorator_names(node) -> List[str]:
    out = []
    for d in node.decorator_list:
        if isinstance(d, ast.Call):
            d = d.func
        try:
            out.append(ast.unparse(d))
        except Exception:  # pragma: no cover
            out.append("?")
    return out


class Program:
    def __init__(self, repo: str):
        self.repo = repo
        self.src_root = os.path.join(repo, "src", PKG)
        self.modules: Dict[str, Module] = {}
        self.classes: Dict[str, ClassInfo] = {}  # by qual
        self.classes_by_name: Dict[str, List[ClassInfo]] = {}
        self.functions: Dict[str, FuncInfo] = {}
        self._load()

    # ------------------------------------------------------------------ load
    def _load(self) -> None:
        if not os.path.isdir(self.src_root):
            raise AnalysisError(f"package directory missing: {self.src_root}")
        for dirpath, dirnames, filenames in sorted(os.walk(self.src_root)):
            dirnames[:] = sorted(d for d in dirnames if d != "__pycache__")
            for fn in sorted(filenames):
                if not fn.endswith(".py"):
                    continue
                path = os.path.join(dirpath, fn)
                rel = os.path.relpath(path, self.src_root)
                modname = rel[:-3].replace(os.sep, ".")
                if modname.endswith("__init__"):
                    modname = modname[: -len("__init__")].rstrip(".") or "__init__"
                try:
                    with open(path, encoding="utf-8") as fh:
                        src = fh.read()
                    tree = ast.parse(src, filename=path)
                except (OSError, SyntaxError, ValueError) as e:
                    raise AnalysisError(f"cannot parse {path}: {e}") from e
                m = Module(modname, path, os.path.relpath(path, self.repo), src, tree)
                self.modules[modname] = m
        if os.environ.get("TPSA_NO_NORMALISE") != "1":
            from .normalise import normalise, closed_generators
            import copy as _copy
            # generators a module imports by name from a sibling module are written out like its own (see normalise._GenInline)
            gens = {name: closed_generators(m.tree) for name, m in self.modules.items()}
            offered: Dict[str, Dict[str, ast.FunctionDef]] = {}
            for name, m in self.modules.items():
                off: Dict[str, ast.FunctionDef] = {}
                for st in m.tree.body:
                    if isinstance(st, ast.ImportFrom):
                        src_mod = self._import_target(m, st)
                        for a in st.names:
                            if src_mod in gens and a.name in gens[src_mod]:
                                off[a.asname or a.name] = _copy.deepcopy(gens[src_mod][a.name])
                offered[name] = off
            for name, m in self.modules.items():
                try:
                    m.tree = normalise(m.tree, offered[name])
                except (SyntaxError, ValueError) as e:
                    raise AnalysisError(f"cannot normalise {m.path}: {e}") from e
        for m in self.modules.values():
            self._scan_module(m)
        for c in self.classes.values():
            c.bases = [self.resolve_name_in_module(c.module, b) for b in c.base_exprs]
        for c in self.classes.values():
            self._collect_fields(c)

    def _import_target(self, m: Module, st: ast.ImportFrom) -> Optional[str]:
        """module name (as keyed in self.modules) that `from X import ...` in m refers to, when it is a module of the package"""
        if st.level:
            base = self._pkg_of(m)
            up = st.level - 1
            if up > len(base):
                return None
            base = base[: len(base) - up] if up else base
            parts = base + (st.module.split(".") if st.module else [])
        else:
            parts = (st.module or "").split(".")
            if not parts or parts[0] != PKG:
                return None
            parts = parts[1:]
        name = ".".join(parts) or "__init__"
        return name if name in self.modules else None

    def _pkg_of(self, m: Module) -> List[str]:
        parts = m.name.split(".") if m.name != "__init__" else []
        if os.path.basename(m.path) == "__init__.py":
            return parts
        return parts[:-1]

    def _scan_imports(self, m: Module, stmts, tc: bool) -> None:
        for st in stmts:
            if isinstance(st, ast.Import):
                for a in st.names:
                    alias = a.asname or a.name.split(".")[0]
                    m.imports[alias] = a.name if a.asname else a.name.split(".")[0]
                    if tc:
                        m.tc_only.add(alias)
            elif isinstance(st, ast.ImportFrom):
                if st.level:
                    base = self._pkg_of(m)
                    if st.level > 1:
                        base = base[: len(base) - (st.level - 1)]
                    modq = ".".join([PKG] + base + ([st.module] if st.module else []))
                else:
                    modq = st.module or ""
                if modq == "__future__":
                    if any(a.name == "annotations" for a in st.names):
                        m.future_annotations = True
                    continue
                for a in st.names:
                    alias = a.asname or a.name
                    m.imports[alias] = f"{modq}.{a.name}"
                    if tc:
                        m.tc_only.add(alias)
            elif isinstance(st, ast.If):
                if _is_type_checking_test(st.test):
                    self._scan_imports(m, st.body, True)
                    self._scan_imports(m, st.orelse, tc)
                else:
                    self._scan_imports(m, st.body, tc)
                    self._scan_imports(m, st.orelse, tc)
            elif isinstance(st, (ast.Try,)):
                self._scan_imports(m, st.body, tc)

    def _scan_module(self, m: Module) -> None:
        self._scan_imports(m, m.tree.body, False)
        # imports made inside functions (`import textwrap` in a method body): the alias resolves the same way wherever it is not
        # bound to something else (a scope consults the module's imports only for names it does not define itself)
        top = set(m.imports)
        for fn in [x for x in ast.walk(m.tree) if isinstance(x, (ast.FunctionDef, ast.AsyncFunctionDef))]:
            for st in ast.walk(fn):
                if isinstance(st, (ast.Import, ast.ImportFrom)):
                    names = [(a.asname or (a.name.split(".")[0] if isinstance(st, ast.Import) else a.name)) for a in st.names]
                    if not any(n in top for n in names):
                        self._scan_imports(m, [st], False)
        for st in m.tree.body:
            if isinstance(st, ast.Assign) and len(st.targets) == 1 and isinstance(st.targets[0], ast.Name):
                m.assigns[st.targets[0].id] = st.value
            elif isinstance(st, ast.Assign) and len(st.targets) == 1 and isinstance(st.targets[0], ast.Tuple) and isinstance(st.value, ast.Tuple) \
                    and len(st.targets[0].elts) == len(st.value.elts) and all(isinstance(x, ast.Name) for x in st.targets[0].elts) \
                    and not any(isinstance(x, ast.Starred) for x in st.value.elts):
                for t_, v_ in zip(st.targets[0].elts, st.value.elts):  # NAME, PROG = "name", "prog"
                    m.assigns[t_.id] = v_
            elif isinstance(st, ast.AnnAssign) and isinstance(st.target, ast.Name) and st.value is not None:
                m.assigns[st.target.id] = st.value
        self._scan_body(m, m.tree.body, None, None)

    def _scan_body(self, m: Module, body, cls: Optional[ClassInfo], parent: Optional[FuncInfo]) -> None:
        for st in body:
            if isinstance(st, ast.ClassDef):
                if parent is not None:
                    qual = f"{parent.qual}.<locals>.{st.name}"
                elif cls is not None:
                    qual = f"{cls.qual}.{st.name}"
                else:
                    qual = f"{m.name}.{st.name}"
                ci = ClassInfo(st.name, qual, m, st, list(st.bases))
                self.classes[qual] = ci
                self.classes_by_name.setdefault(st.name, []).append(ci)
                for s in st.body:
                    if isinstance(s, ast.AnnAssign) and isinstance(s.target, ast.Name):
                        ci.class_attrs[s.target.id] = (s.annotation, s.value)
                    elif isinstance(s, ast.Assign):
                        for t in s.targets:
                            if isinstance(t, ast.Name):
                                ci.class_attrs[t.id] = (None, s.value)
                self._scan_body(m, st.body, ci, None)
            elif isinstance(st, (ast.FunctionDef, ast.AsyncFunctionDef)):
                decos = _decorator_names(st)
                if any(d.endswith("overload") for d in decos):
                    continue
                if parent is not None:
                    qual = f"{parent.qual}.<locals>.{st.name}"
                    kind = "nested"
                elif cls is not None:
                    qual = f"{cls.qual}.{st.name}"
                    kind = "method"
                    if any(d.endswith("staticmethod") for d in decos):
                        kind = "static"
                    elif any(d.endswith(".setter") for d in decos):
                        kind = "setter"
                    elif any(d == "property" or d.endswith(".property") for d in decos):
                        kind = "property"
                    elif any(d.endswith("classmethod") for d in decos):
                        kind = "class"
                else:
                    qual = f"{m.name}.{st.name}"
                    kind = "function"
                if kind == "setter":
                    qual += ".setter"
                fi = FuncInfo(qual, st.name, m, st, cls if parent is None else None, kind, parent)
                self.functions[qual] = fi
                if cls is not None and parent is None:
                    if kind == "setter":
                        cls.setters[st.name] = fi
                    else:
                        cls.methods[st.name] = fi
                self._scan_nested(m, st.body, fi)
            elif isinstance(st, (ast.If, ast.Try, ast.With)):
                # definitions under module-level conditionals
                for sub in ("body", "orelse", "finalbody"):
                    self._scan_body(m, getattr(st, sub, []) or [], cls, parent)

    def _scan_nested(self, m: Module, body, parent: FuncInfo) -> None:
        # find directly nested defs anywhere in the body (not inside deeper defs)
        stack = list(body)
        while stack:
            st = stack.pop()
            if isinstance(st, (ast.FunctionDef, ast.AsyncFunctionDef, ast.ClassDef)):
                self._scan_body(m, [st], None, parent)
                continue
            for ch in ast.iter_child_nodes(st):
                if isinstance(ch, (ast.stmt, ast.ExceptHandler)) or isinstance(ch, (ast.FunctionDef, ast.AsyncFunctionDef, ast.ClassDef)):
                    stack.append(ch)

    # ---------------------------------------------------------------- fields
    def _collect_fields(self, c: ClassInfo) -> None:
        for fi in list(c.methods.values()) + list(c.setters.values()):
            args = fi.node.args.posonlyargs + fi.node.args.args
            if not args or fi.kind in ("static",):
                continue
            selfname = args[0].arg
            for node in ast.walk(fi.node):
                pairs = []  # (target, annotation, value)
                if isinstance(node, ast.AnnAssign):
                    pairs.append((node.target, node.annotation, node.value))
                elif isinstance(node, ast.Assign):
                    for t in node.targets:
                        if isinstance(t, (ast.Tuple, ast.List)):
                            # self._a, self._b = a, b
                            if isinstance(node.value, (ast.Tuple, ast.List)) and len(node.value.elts) == len(t.elts):
                                pairs += [(te, None, ve) for te, ve in zip(t.elts, node.value.elts)]
                            else:
                                pairs += [(te, None, None) for te in t.elts]
                        else:
                            pairs.append((t, None, node.value))
                else:
                    continue
                for tgt, ann, val in pairs:
                    if (
                        isinstance(tgt, ast.Attribute)
                        and isinstance(tgt.value, ast.Name)
                        and tgt.value.id == selfname
                    ):
                        prev = c.fields.get(tgt.attr)
                        if prev is None or (prev[0] is None and ann is not None) or (fi.name == "__init__" and prev[2].name != "__init__"):
                            c.fields[tgt.attr] = (ann if ann is not None else (prev[0] if prev else None), val, fi)

    # --------------------------------------------------------------- queries
    def resolve_name_in_module(self, m: Module, expr: ast.expr) -> str:
        """Qualified name for a Name/Attribute chain in module scope (best effort)."""
        if isinstance(expr, ast.Subscript):
            return self.resolve_name_in_module(m, expr.value)
        if isinstance(expr, ast.Name):
            if expr.id in m.imports:
                return self.canon(m.imports[expr.id])
            for c in self.classes_by_name.get(expr.id, []):
                if c.module is m:
                    return c.qual
            if f"{m.name}.{expr.id}" in self.functions:
                return f"{m.name}.{expr.id}"
            return f"builtins.{expr.id}" if expr.id not in m.assigns else f"{m.name}.{expr.id}"
        if isinstance(expr, ast.Attribute):
            return self.resolve_name_in_module(m, expr.value) + "." + expr.attr
        return "?"

    def canon(self, q: str) -> str:
        """Map 'asyncio_taskpool.pool.TaskPool' to the package-relative 'pool.TaskPool'; follow re-exports."""
        if q.startswith(PKG + "."):
            rest = q[len(PKG) + 1:]
            # rest may be module.Name ; find longest module prefix
            parts = rest.split(".")
            for i in range(len(parts), 0, -1):
                mod = ".".join(parts[:i])
                if mod in self.modules:
                    tail = parts[i:]
                    if not tail:
                        return mod
                    m = self.modules[mod]
                    # re-exported name?
                    if tail[0] in m.imports and f"{mod}.{tail[0]}" not in self.classes and f"{mod}.{tail[0]}" not in self.functions:
                        return self.canon(".".join([m.imports[tail[0]]] + tail[1:]))
                    return ".".join([mod] + tail)
            return rest
        return q

    def cls(self, name: str) -> ClassInfo:
        """Class by short or qualified name; fail closed."""
        if name in self.classes:
            return self.classes[name]
        cands = self.classes_by_name.get(name, [])
        if len(cands) != 1:
            raise AnalysisError(f"anchor class {name!r} not found uniquely ({len(cands)} candidates)")
        return cands[0]

    def mro(self, c: ClassInfo) -> List[ClassInfo]:
        out, seen = [], set()

        def rec(k: ClassInfo):
            if k.qual in seen:
                return
            seen.add(k.qual)
            out.append(k)
            for b in k.bases:
                if b in self.classes:
                    rec(self.classes[b])

        rec(c)
        return out

    def external_bases(self, c: ClassInfo) -> List[str]:
        out = []
        for k in self.mro(c):
            for b in k.bases:
                if b not in self.classes:
                    out.append(b)
        return out

    def subclasses(self, c: ClassInfo, strict: bool = False) -> List[ClassInfo]:
        out = []
        for k in self.classes.values():
            if c in self.mro(k) and (not strict or k is not c):
                out.append(k)
        return out

    def lookup(self, c: ClassInfo, name: str) -> Optional[FuncInfo]:
        for k in self.mro(c):
            if name in k.methods:
                return k.methods[name]
        return None

    def lookup_setter(self, c: ClassInfo, name: str) -> Optional[FuncInfo]:
        for k in self.mro(c):
            if name in k.setters:
                return k.setters[name]
        return None

    def lookup_field(self, c: ClassInfo, name: str):
        for k in self.mro(c):
            if name in k.fields:
                return k.fields[name]
            if name in k.class_attrs:
                ann, val = k.class_attrs[name]
                return (ann, val, None)
        # also fields declared in subclasses (for self in base methods we do not look down)
        return None

    def func(self, qual: str) -> FuncInfo:
        if qual in self.functions:
            return self.functions[qual]
        raise AnalysisError(f"anchor function {qual!r} not found")

    def method(self, cls: str, name: str) -> FuncInfo:
        c = self.cls(cls)
        f = self.lookup(c, name)
        if f is None:
            raise AnalysisError(f"anchor method {cls}.{name} not found")
        return f

    def all_functions(self) -> List[FuncInfo]:
        hidden = getattr(self, "hidden", None)
        if hidden:
            return [f for q, f in self.functions.items() if q not in hidden]
        return list(self.functions.values())

    def every_function(self) -> List[FuncInfo]:
        """all functions, helpers that are analysed only spliced into their callers included (for scans of the syntax tree: the
        flow graphs of the callers show the helpers' steps, the callers' own syntax does not)"""
        return list(self.functions.values())

    def enclosing_class(self, f: FuncInfo) -> Optional[ClassInfo]:
        while f is not None:
            if f.cls is not None:
                return f.cls
            f = f.parent
        return None
